// Package rep holds the plain data exchanged between worker processes and the
// coordinator (no dependency on the injected runtime).
package rep

import "encoding/json"

// Parked describes a thread that had not finished when an execution ended.
type Parked struct {
	ID, Name string
	Lib      bool
	Kind     string
	Obj      string
	Note     string
}

// Replay is the content of a replay file.
type Replay struct {
	Property string          `json:"property"`
	Key      string          `json:"key"`
	Scenario string          `json:"scenario"`
	Message  string          `json:"message"`
	Choices  []int           `json:"choices,omitempty"`
	Input    json.RawMessage `json:"input,omitempty"`
	Log      []string        `json:"log,omitempty"`
	Parked   []Parked        `json:"parked,omitempty"`
	Crash    string          `json:"crash,omitempty"`
	Trace    []string        `json:"trace,omitempty"`
}

// Violation found by a worker.
type Violation struct {
	Key    string `json:"key"` // fingerprint matched against known_findings.txt
	Replay Replay `json:"replay"`
}

// Report is the JSON a worker writes.
type Report struct {
	Prop         string         `json:"prop"`
	Scenarios    int64          `json:"scenarios"`
	Executions   int64          `json:"executions"`
	Pruned       int64          `json:"pruned"`
	States       int64          `json:"states"`
	Transitions  int64          `json:"transitions"`
	Evaluations  int64          `json:"evaluations"`
	Nontrivial   int64          `json:"nontrivial"`
	MaxDepth     int            `json:"max_depth"`
	Exhaustive   bool           `json:"exhaustive"`
	Caps         []string       `json:"caps,omitempty"`
	Outcomes     map[string]int `json:"outcomes"`
	Samples      []interface{}  `json:"samples,omitempty"`
	Violations   []Violation    `json:"violations,omitempty"`
	KnownHits    map[string]int `json:"known_hits,omitempty"`
	Notes        []string       `json:"notes,omitempty"`
	Bound        string         `json:"bound,omitempty"`
	Rule         string         `json:"rule,omitempty"`
	EngineErrors []string       `json:"engine_errors,omitempty"`
	DetChecks    int            `json:"determinism_checks"`
	Heaviest     []Heavy        `json:"heaviest,omitempty"`
	// FullScenarios were explored completely within their primary bound;
	// BoundedScenarios fell back to the secondary preemption bound.
	FullScenarios    int64 `json:"full_scenarios"`
	BoundedScenarios int64 `json:"bounded_scenarios"`
}

// Heavy names an expensive scenario.
type Heavy struct {
	Name       string `json:"name"`
	Executions int    `json:"executions"`
	States     int    `json:"states"`
	MaxDepth   int    `json:"max_depth"`
}

// NewReport returns an empty report.
func NewReport(prop string) *Report {
	return &Report{Prop: prop, Exhaustive: true, Outcomes: map[string]int{}, KnownHits: map[string]int{}}
}

// AddCap records that a cap was hit.
func (r *Report) AddCap(s string) {
	for _, c := range r.Caps {
		if c == s {
			return
		}
	}
	r.Caps = append(r.Caps, s)
}

// Sample keeps the first few samples.
func (r *Report) Sample(v interface{}) {
	if len(r.Samples) < 4 {
		r.Samples = append(r.Samples, v)
	}
}

// Outcome counts an outcome label.
func (r *Report) Outcome(s string) { r.Outcomes[s]++ }
