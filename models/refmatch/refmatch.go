// Package refmatch implements MQTT 3.1.1 section 4.7 topic matching from the
// specification text; it shares nothing with the repository.
package refmatch

import "strings"

// ValidFilter: at least one character; '#' only as the whole last level; '+'
// only as a whole level.
func ValidFilter(f string) bool {
	if len(f) == 0 {
		return false
	}
	levels := strings.Split(f, "/")
	for i, l := range levels {
		if strings.ContainsAny(l, "#+") && len(l) != 1 {
			return false
		}
		if l == "#" && i != len(levels)-1 {
			return false
		}
	}
	return true
}

// ValidName: at least one character, no wildcard characters.
func ValidName(t string) bool {
	return len(t) > 0 && !strings.ContainsAny(t, "#+")
}

// Matches reports whether a valid filter matches a valid topic name.  Names
// beginning with '$' are outside the scope of the properties and not treated
// specially here.
func Matches(filter, name string) bool {
	fl := strings.Split(filter, "/")
	nl := strings.Split(name, "/")
	for i, f := range fl {
		if f == "#" {
			// the parent level and any number of child levels
			return true
		}
		if i >= len(nl) {
			return false
		}
		if f != "+" && f != nl[i] {
			return false
		}
	}
	return len(fl) == len(nl)
}

// note: "sport/#" matches "sport": the loop reaches '#' at i==1 with
// len(nl)==1 and returns true before the length test.
