// Package refcodec is a reference MQTT 3.1.1 encoder/decoder written from the
// OASIS specification (sections 2 and 3).  It shares no code with the
// repository and is deliberately plain.
package refcodec

import (
	"errors"
	"fmt"
)

// Packet types.
const (
	CONNECT     = 1
	CONNACK     = 2
	PUBLISH     = 3
	PUBACK      = 4
	PUBREC      = 5
	PUBREL      = 6
	PUBCOMP     = 7
	SUBSCRIBE   = 8
	SUBACK      = 9
	UNSUBSCRIBE = 10
	UNSUBACK    = 11
	PINGREQ     = 12
	PINGRESP    = 13
	DISCONNECT  = 14
)

var names = []string{"RESERVED", "CONNECT", "CONNACK", "PUBLISH", "PUBACK", "PUBREC", "PUBREL", "PUBCOMP", "SUBSCRIBE", "SUBACK", "UNSUBSCRIBE", "UNSUBACK", "PINGREQ", "PINGRESP", "DISCONNECT", "RESERVED2"}

// Name of a packet type.
func Name(t byte) string {
	if int(t) < len(names) {
		return names[t]
	}
	return fmt.Sprintf("TYPE%d", t)
}

// Packet holds the fields of any packet.
type Packet struct {
	Type byte

	// CONNECT
	ProtoName   string
	Level       byte
	CleanSess   bool
	Will        bool
	WillQoS     byte
	WillRetain  bool
	HasUser     bool
	HasPass     bool
	KeepAlive   uint16
	ClientID    []byte
	WillTopic   []byte
	WillMessage []byte
	User        []byte
	Pass        []byte

	// CONNACK
	SessionPresent bool
	ReturnCode     byte

	// PUBLISH
	Dup     bool
	QoS     byte
	Retain  bool
	Topic   []byte
	Payload []byte

	// packets with an identifier
	ID uint16

	// SUBSCRIBE / UNSUBSCRIBE / SUBACK
	Topics [][]byte
	QoSs   []byte
	Codes  []byte

	// NonMinimalLength is set by Decode when the remaining length was encoded
	// in more bytes than the algorithm of section 2.2.3 produces.  Such packets
	// parse, but no conformant sender emits them, so WellFormed says no.
	NonMinimalLength bool
	// PadLength (Encode only): extra bytes in the remaining-length field
	PadLength int
}

func (p *Packet) String() string {
	switch p.Type {
	case PUBLISH:
		return fmt.Sprintf("PUBLISH{dup=%v qos=%d retain=%v topic=%q id=%d payload=%dB}", p.Dup, p.QoS, p.Retain, p.Topic, p.ID, len(p.Payload))
	case SUBSCRIBE:
		return fmt.Sprintf("SUBSCRIBE{id=%d topics=%q qos=%v}", p.ID, p.Topics, p.QoSs)
	case UNSUBSCRIBE:
		return fmt.Sprintf("UNSUBSCRIBE{id=%d topics=%q}", p.ID, p.Topics)
	case SUBACK:
		return fmt.Sprintf("SUBACK{id=%d codes=%v}", p.ID, p.Codes)
	case CONNACK:
		return fmt.Sprintf("CONNACK{sp=%v code=%d}", p.SessionPresent, p.ReturnCode)
	case CONNECT:
		return fmt.Sprintf("CONNECT{%s/%d clean=%v will=%v wq=%d wr=%v ka=%d cid=%q wt=%q wm=%dB user=%v pass=%v}", p.ProtoName, p.Level, p.CleanSess, p.Will, p.WillQoS, p.WillRetain, p.KeepAlive, p.ClientID, p.WillTopic, len(p.WillMessage), p.HasUser, p.HasPass)
	case PUBACK, PUBREC, PUBREL, PUBCOMP, UNSUBACK:
		return fmt.Sprintf("%s{id=%d}", Name(p.Type), p.ID)
	}
	return Name(p.Type)
}

// VarLen encodes a remaining length (spec 2.2.3).
func VarLen(n int) []byte {
	var out []byte
	for {
		d := byte(n % 128)
		n /= 128
		if n > 0 {
			d |= 0x80
		}
		out = append(out, d)
		if n == 0 {
			return out
		}
	}
}

func str(b []byte) []byte {
	return append([]byte{byte(len(b) >> 8), byte(len(b))}, b...)
}

// FixedFlags returns the flag nibble the specification requires.
func (p *Packet) FixedFlags() byte {
	switch p.Type {
	case PUBREL, SUBSCRIBE, UNSUBSCRIBE:
		return 2
	case PUBLISH:
		f := p.QoS << 1
		if p.Dup {
			f |= 8
		}
		if p.Retain {
			f |= 1
		}
		return f
	}
	return 0
}

// Body returns variable header + payload.
func (p *Packet) Body() []byte {
	var b []byte
	id := []byte{byte(p.ID >> 8), byte(p.ID)}
	switch p.Type {
	case CONNECT:
		b = append(b, str([]byte(p.ProtoName))...)
		b = append(b, p.Level)
		var f byte
		if p.CleanSess {
			f |= 2
		}
		if p.Will {
			f |= 4
			f |= p.WillQoS << 3
			if p.WillRetain {
				f |= 32
			}
		}
		if p.HasPass {
			f |= 64
		}
		if p.HasUser {
			f |= 128
		}
		b = append(b, f, byte(p.KeepAlive>>8), byte(p.KeepAlive))
		b = append(b, str(p.ClientID)...)
		if p.Will {
			b = append(b, str(p.WillTopic)...)
			b = append(b, str(p.WillMessage)...)
		}
		if p.HasUser {
			b = append(b, str(p.User)...)
		}
		if p.HasPass {
			b = append(b, str(p.Pass)...)
		}
	case CONNACK:
		var f byte
		if p.SessionPresent {
			f = 1
		}
		b = append(b, f, p.ReturnCode)
	case PUBLISH:
		b = append(b, str(p.Topic)...)
		if p.QoS > 0 {
			b = append(b, id...)
		}
		b = append(b, p.Payload...)
	case PUBACK, PUBREC, PUBREL, PUBCOMP, UNSUBACK:
		b = append(b, id...)
	case SUBSCRIBE:
		b = append(b, id...)
		for i, t := range p.Topics {
			b = append(b, str(t)...)
			b = append(b, p.QoSs[i])
		}
	case SUBACK:
		b = append(b, id...)
		b = append(b, p.Codes...)
	case UNSUBSCRIBE:
		b = append(b, id...)
		for _, t := range p.Topics {
			b = append(b, str(t)...)
		}
	}
	return b
}

// Encode returns the wire form.
func Encode(p *Packet) []byte {
	body := p.Body()
	out := []byte{p.Type<<4 | p.FixedFlags()}
	vl := VarLen(len(body))
	// PadLength: the remaining length written in more bytes than necessary (no
	// conformant sender does that, the library's decoders accept it)
	for i := 0; i < p.PadLength && len(vl) < 4; i++ {
		vl[len(vl)-1] |= 0x80
		vl = append(vl, 0)
	}
	out = append(out, vl...)
	return append(out, body...)
}

// EncodedLen computes the wire length without materialising huge packets.
func EncodedLen(bodyLen int) int { return 1 + len(VarLen(bodyLen)) + bodyLen }

var (
	ErrShort     = errors.New("refcodec: truncated")
	ErrMalformed = errors.New("refcodec: malformed")
)

type rd struct {
	b   []byte
	pos int
	err error
}

func (r *rd) u8() byte {
	if r.err != nil {
		return 0
	}
	if r.pos+1 > len(r.b) {
		r.err = ErrMalformed
		return 0
	}
	v := r.b[r.pos]
	r.pos++
	return v
}

func (r *rd) u16() uint16 {
	hi := r.u8()
	lo := r.u8()
	return uint16(hi)<<8 | uint16(lo)
}

func (r *rd) str() []byte {
	n := int(r.u16())
	if r.err != nil {
		return nil
	}
	if r.pos+n > len(r.b) {
		r.err = ErrMalformed
		return nil
	}
	v := r.b[r.pos : r.pos+n : r.pos+n]
	r.pos += n
	return v
}

func (r *rd) rest() []byte {
	if r.err != nil {
		return nil
	}
	v := r.b[r.pos:len(r.b):len(r.b)]
	r.pos = len(r.b)
	return v
}

// Frame parses the fixed header: type, flags, body and total length.
func Frame(b []byte) (typ, flags byte, body []byte, total int, err error) {
	if len(b) < 2 {
		return 0, 0, nil, 0, ErrShort
	}
	typ, flags = b[0]>>4, b[0]&15
	n, mult, i := 0, 1, 1
	for {
		if i >= len(b) {
			return typ, flags, nil, 0, ErrShort
		}
		d := b[i]
		i++
		n += int(d&127) * mult
		if d&128 == 0 {
			break
		}
		mult *= 128
		if i > 4 {
			return typ, flags, nil, 0, ErrMalformed
		}
	}
	if len(b) < i+n {
		return typ, flags, nil, i + n, ErrShort
	}
	return typ, flags, b[i : i+n : i+n], i + n, nil
}

// ValidTopicName per 4.7: at least one character, no wildcards, no NUL.
func ValidTopicName(t []byte) bool {
	if len(t) == 0 {
		return false
	}
	for _, c := range t {
		if c == '+' || c == '#' || c == 0 {
			return false
		}
	}
	return true
}

// Decode strictly parses exactly one packet from the front of b.
func Decode(b []byte) (*Packet, int, error) {
	typ, flags, body, total, err := Frame(b)
	if err != nil {
		return nil, 0, err
	}
	p := &Packet{Type: typ}
	p.NonMinimalLength = total-len(body)-1 != len(VarLen(len(body)))
	r := &rd{b: body}
	if typ == 0 || typ == 15 {
		return nil, 0, ErrMalformed
	}
	if typ != PUBLISH && flags != p.FixedFlags() {
		return nil, 0, ErrMalformed
	}
	switch typ {
	case CONNECT:
		p.ProtoName = string(r.str())
		p.Level = r.u8()
		f := r.u8()
		if f&1 != 0 {
			return nil, 0, ErrMalformed
		}
		p.CleanSess = f&2 != 0
		p.Will = f&4 != 0
		p.WillQoS = (f >> 3) & 3
		p.WillRetain = f&32 != 0
		p.HasPass = f&64 != 0
		p.HasUser = f&128 != 0
		if p.WillQoS == 3 || (!p.Will && (p.WillQoS != 0 || p.WillRetain)) {
			return nil, 0, ErrMalformed
		}
		if p.HasPass && !p.HasUser {
			return nil, 0, ErrMalformed
		}
		p.KeepAlive = r.u16()
		p.ClientID = r.str()
		if p.Will {
			p.WillTopic = r.str()
			p.WillMessage = r.str()
		}
		if p.HasUser {
			p.User = r.str()
		}
		if p.HasPass {
			p.Pass = r.str()
		}
	case CONNACK:
		f := r.u8()
		if f&0xfe != 0 {
			return nil, 0, ErrMalformed
		}
		p.SessionPresent = f == 1
		p.ReturnCode = r.u8()
	case PUBLISH:
		p.Dup = flags&8 != 0
		p.QoS = (flags >> 1) & 3
		p.Retain = flags&1 != 0
		if p.QoS == 3 {
			return nil, 0, ErrMalformed
		}
		p.Topic = r.str()
		if r.err == nil && !ValidTopicName(p.Topic) {
			return nil, 0, ErrMalformed
		}
		if p.QoS > 0 {
			p.ID = r.u16()
		}
		p.Payload = r.rest()
	case PUBACK, PUBREC, PUBREL, PUBCOMP, UNSUBACK:
		p.ID = r.u16()
	case SUBSCRIBE:
		p.ID = r.u16()
		for r.err == nil && r.pos < len(body) {
			p.Topics = append(p.Topics, r.str())
			q := r.u8()
			p.QoSs = append(p.QoSs, q)
		}
		if len(p.Topics) == 0 {
			return nil, 0, ErrMalformed
		}
	case SUBACK:
		p.ID = r.u16()
		p.Codes = r.rest()
	case UNSUBSCRIBE:
		p.ID = r.u16()
		for r.err == nil && r.pos < len(body) {
			p.Topics = append(p.Topics, r.str())
		}
		if len(p.Topics) == 0 {
			return nil, 0, ErrMalformed
		}
	case PINGREQ, PINGRESP, DISCONNECT:
	}
	if r.err != nil {
		return nil, 0, r.err
	}
	if r.pos != len(body) {
		return nil, 0, ErrMalformed
	}
	return p, total, nil
}

// WellFormed applies the content rules of section 3 on top of Decode:
// packets the specification calls valid.
func WellFormed(p *Packet) bool {
	if p.NonMinimalLength {
		return false
	}
	switch p.Type {
	case CONNECT:
		if !(p.ProtoName == "MQTT" && p.Level == 4) && !(p.ProtoName == "MQIsdp" && p.Level == 3) {
			return false
		}
		if len(p.ClientID) == 0 && !p.CleanSess {
			return false
		}
		if p.Will && len(p.WillTopic) == 0 {
			return false
		}
	case CONNACK:
		return p.ReturnCode <= 5
	case PUBLISH:
		if p.QoS > 0 && p.ID == 0 {
			return false
		}
		if p.QoS == 0 && p.Dup {
			return false // [MQTT-3.3.1-2]
		}
	case PUBACK, PUBREC, PUBREL, PUBCOMP, UNSUBACK:
		return p.ID != 0
	case SUBSCRIBE:
		if p.ID == 0 {
			return false
		}
		for i, t := range p.Topics {
			if len(t) == 0 || p.QoSs[i] > 2 {
				return false
			}
		}
	case UNSUBSCRIBE:
		if p.ID == 0 {
			return false
		}
		for _, t := range p.Topics {
			if len(t) == 0 {
				return false
			}
		}
	case SUBACK:
		if p.ID == 0 || len(p.Codes) == 0 {
			return false
		}
		for _, c := range p.Codes {
			if c > 2 && c != 0x80 {
				return false
			}
		}
	}
	return true
}

// Split parses a byte stream into whole packets; rest is the unparsed tail
// (incomplete packet) and err reports a malformed one.
func Split(b []byte) (pkts []*Packet, rest []byte, err error) {
	for len(b) > 0 {
		p, n, e := Decode(b)
		if e == ErrShort {
			return pkts, b, nil
		}
		if e != nil {
			return pkts, b, e
		}
		pkts = append(pkts, p)
		b = b[n:]
	}
	return pkts, nil, nil
}
