// Command worker runs one shard of one property check.
package main

import (
	"encoding/json"
	"flag"
	"fmt"
	"os"
	"strings"
	"time"

	"github.com/mdzio/go-logging"
	_ "verif/harness/ackq"
	_ "verif/harness/broker"
	_ "verif/harness/codec"
	"verif/harness/core"
	"verif/harness/ring"
	_ "verif/harness/topicstore"
)

func main() {
	if len(os.Args) > 1 && os.Args[1] == "smoke" {
		ring.Smoke()
		return
	}
	prop := flag.String("prop", "", "property id")
	tier := flag.String("tier", "quick", "quick|thorough")
	shard := flag.Int("shard", 0, "shard index")
	nshards := flag.Int("nshards", 1, "number of shards")
	seed := flag.Int64("seed", 0, "seed")
	out := flag.String("out", "", "report file")
	known := flag.String("known", "", "file with known-finding keys, one per line")
	replay := flag.String("replay", "", "replay file")
	budget := flag.Duration("budget", 0, "internal time cap")
	loglvl := flag.String("log", "off", "library log level")
	flag.Parse()
	var lvl logging.LogLevel
	lvl.Set(*loglvl)
	logging.SetLevel(lvl)
	h := core.Lookup(*prop)
	if h == nil {
		fmt.Fprintf(os.Stderr, "ENGINE-ERROR: no harness for %s\n", *prop)
		os.Exit(2)
	}
	c := &core.Ctx{Prop: *prop, Tier: *tier, Shard: *shard, NShards: *nshards, Seed: *seed, Known: map[string]bool{}, Rep: core.NewReport(*prop)}
	if *budget > 0 {
		c.Deadline = time.Now().Add(*budget)
	}
	if *known != "" {
		b, _ := os.ReadFile(*known)
		for _, l := range strings.Split(string(b), "\n") {
			if l = strings.TrimSpace(l); l != "" {
				c.Known[l] = true
			}
		}
	}
	if *replay != "" {
		b, err := os.ReadFile(*replay)
		if err != nil {
			fmt.Fprintln(os.Stderr, "ENGINE-ERROR:", err)
			os.Exit(2)
		}
		var rp core.Replay
		if err := json.Unmarshal(b, &rp); err != nil {
			fmt.Fprintln(os.Stderr, "ENGINE-ERROR:", err)
			os.Exit(2)
		}
		c.Replay = &rp
		c.NShards = 1
	}
	func() {
		defer func() {
			if r := recover(); r != nil {
				s := fmt.Sprint(r)
				if strings.HasPrefix(s, "ENGINE-ERROR") {
					c.Rep.EngineErrors = append(c.Rep.EngineErrors, s)
					return
				}
				panic(r)
			}
		}()
		h(c)
	}()
	if c.Replay != nil {
		if c.Rep.Scenarios == 0 {
			fmt.Println("replay: scenario not found in this tier's enumeration; try --tier thorough")
			os.Exit(2)
		}
		return
	}
	if *out != "" {
		if err := core.WriteReport(*out, c.Rep); err != nil {
			fmt.Fprintln(os.Stderr, "ENGINE-ERROR:", err)
			os.Exit(2)
		}
	} else {
		b, _ := json.MarshalIndent(c.Rep, "", " ")
		fmt.Println(string(b))
	}
}
