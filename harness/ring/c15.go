package ring

import (
	"fmt"
	"io"

	"github.com/mdzio/go-mqtt/service"
	"github.com/mdzio/go-mqtt/verifrt/vsched"
	"verif/engine/explore"
	"verif/harness/core"
)

// A C15 scenario: an initial state, at most one operation in progress on each
// side, and closers.  Expectation per thread: must finish, and whether an
// error other than end-of-stream is acceptable.
type c15scen struct {
	Start   int64
	Prefill int
	Prod    *op // nil: no producer thread
	Cons    *op
	Closers int // number of closer threads
	Twice   bool
	// Feed: a second producer-side write of that many bytes issued by the
	// producer thread after its operation (gives a blocked consumer its data)
	Feed int
	// Drain: total bytes the consumer thread takes overall, its operation
	// included (gives a blocked producer its space)
	Drain int
}

func (sc c15scen) Name() string {
	p, c := "-", "-"
	if sc.Prod != nil {
		p = sc.Prod.String()
	}
	if sc.Cons != nil {
		c = sc.Cons.String()
	}
	return fmt.Sprintf("start=%d prefill=%d prod=%s feed=%d cons=%s drain=%d closers=%d twice=%v", sc.Start, sc.Prefill, p, sc.Feed, c, sc.Drain, sc.Closers, sc.Twice)
}

// one producer-side call; returns error of the call
func prodCall(bf *service.VerifBuffer, o op, ppos *int64) error {
	switch o.K {
	case 'W':
		p := make([]byte, o.N)
		fill(p, *ppos)
		n, err := bf.Write(p)
		*ppos += int64(n)
		return err
	case 'C':
		buf, wrap, err := bf.WriteWait(o.N)
		if err != nil {
			return err
		}
		if wrap {
			p := make([]byte, o.N)
			fill(p, *ppos)
			n, err := bf.Write(p)
			*ppos += int64(n)
			return err
		}
		fill(buf, *ppos)
		n, err := bf.WriteCommit(o.N)
		*ppos += int64(n)
		return err
	case 'F':
		r := &chunkReader{left: o.N, pos: ppos}
		_, err := bf.ReadFrom(r)
		return err
	}
	return nil
}

func consCall(bf *service.VerifBuffer, o op, cpos *int64) error {
	switch o.K {
	case 'R':
		p := make([]byte, o.N)
		n, err := bf.Read(p)
		*cpos += int64(n)
		return err
	case 'P':
		p, err := bf.ReadPeek(o.N)
		if err != nil && err != service.ErrBufferInsufficientData {
			return err
		}
		n, err := bf.ReadCommit(len(p))
		*cpos += int64(n)
		return err
	case 'W':
		p, err := bf.ReadWait(o.N)
		if err != nil {
			return err
		}
		n, err := bf.ReadCommit(len(p))
		*cpos += int64(n)
		return err
	case 'T':
		bad := ""
		w := &sinkWriter{want: o.N, pos: cpos, bad: &bad}
		_, err := bf.WriteTo(w)
		if err == errStop {
			err = nil
		}
		return err
	}
	return nil
}

func (sc c15scen) body() func() {
	return func() {
		service.VerifResetGlobals()
		bf, err := service.VerifNewBuffer(size)
		if err != nil {
			vsched.Failf("newBuffer: %v", err)
			return
		}
		if err := preroll(bf, sc.Start, sc.Prefill); err != nil {
			vsched.Failf("preroll: %v", err)
			return
		}
		ppos := sc.Start + int64(sc.Prefill)
		cpos := sc.Start
		if sc.Prod != nil {
			vsched.Go("producer", func() {
				err := prodCall(bf, *sc.Prod, &ppos)
				vsched.Logf("producer: %v", err)
				if err == nil && sc.Feed > 0 {
					err = prodCall(bf, op{'W', sc.Feed}, &ppos)
					vsched.Logf("producer feed: %v", err)
				}
			})
		}
		if sc.Cons != nil {
			vsched.Go("consumer", func() {
				err := consCall(bf, *sc.Cons, &cpos)
				vsched.Logf("consumer: %v", err)
				// Drain = total number of bytes the consumer thread has to take overall
				target := sc.Start + int64(sc.Drain)
				for err == nil && cpos < target {
					p := make([]byte, target-cpos)
					var n int
					n, err = bf.Read(p)
					cpos += int64(n)
				}
				if sc.Drain > 0 {
					vsched.Logf("consumer drain: %v", err)
				}
			})
		}
		for i := 0; i < sc.Closers; i++ {
			vsched.Go("closer", func() {
				bf.Close()
				if sc.Twice {
					bf.Close()
				}
				vsched.Logf("closed")
			})
		}
		vsched.Quiesce()
		alive := vsched.Alive()
		if len(alive) > 0 {
			vsched.Failf("blocked forever: %s", core.ParkedString(alive))
			return
		}
		if !bf.VerifLocksFree() {
			vsched.Failf("an internal mutex of the buffer is still held after all calls returned")
			return
		}
		// later calls: none may block (the harness thread would be parked at the end)
		vsched.Logf("battery")
		closed := sc.Closers > 0
		battery(bf, closed)
		vsched.Logf("battery done")
	}
}

// battery calls every method once more; each call must return.  Calls that
// legitimately wait (nothing to read in an open empty buffer) are not made.
func battery(bf *service.VerifBuffer, closed bool) {
	p, c, _, done := bf.VerifCursors()
	avail := int(p - c)
	free := size - avail
	isClosed := done == 1
	_ = closed
	bf.Len()
	if avail > 0 || isClosed {
		bf.Read(make([]byte, 1))
		bf.ReadPeek(1)
		p, c, _, _ = bf.VerifCursors()
		avail = int(p - c)
		if avail > 0 || isClosed {
			bf.ReadWait(1)
		}
	}
	bf.ReadCommit(0)
	if free > 0 || isClosed {
		bf.Write([]byte{0})
		p, c, _, _ = bf.VerifCursors()
		if size-int(p-c) > 0 || isClosed {
			bf.WriteWait(1)
			bf.WriteCommit(0)
		}
	}
	bf.Close()
	bf.Close()
	// after Close every call must return promptly with end-of-stream or data
	if _, err := bf.Read(make([]byte, size)); err != nil && err != io.EOF {
		vsched.Failf("Read after Close: %v", err)
	}
	bf.ReadPeek(size)
	bf.ReadWait(size)
	bf.Write(make([]byte, size))
	bf.WriteWait(size)
	bf.WriteCommit(1)
	bf.ReadFrom(&chunkReader{left: 10, pos: new(int64)})
	bad := ""
	bf.WriteTo(&sinkWriter{want: 1 << 30, pos: new(int64), bad: &bad})
	if !bf.VerifLocksFree() {
		vsched.Failf("an internal mutex of the buffer is held after the later-call battery")
	}
}

func c15Scenarios(thorough bool) []c15scen {
	var out []c15scen
	starts := []int64{0, size - 3}
	if thorough {
		starts = []int64{0, size - 1, size - 3, size - 8192}
	}
	big := []int{1, 8192, size}
	for _, st := range starts {
		// (a) data arrival: empty buffer, consumer waits, producer delivers
		for _, ck := range []byte{'R', 'P', 'W', 'T'} {
			for _, n := range big {
				for _, pk := range []byte{'W', 'C', 'F'} {
					if pk == 'F' && ck == 'W' && n > size-8192 {
						// ReadFrom only proceeds while a whole 8 KiB block is free, so the
						// ring never fills beyond size-8191 through it: a wait for more
						// is not satisfiable (the packet-size limit C01 states)
						continue
					}
					o := op{ck, n}
					po := op{pk, n}
					out = append(out, c15scen{Start: st, Cons: &o, Prod: &po, Drain: n})
					if n > 1 && thorough {
						// delivered in two commits
						po2 := op{pk, n / 2}
						out = append(out, c15scen{Start: st, Cons: &o, Prod: &po2, Feed: n - n/2, Drain: n})
					}
				}
			}
		}
		// (a') the rest of the data arrives: part of what the consumer asks for is there
		// already (a packet that comes in two segments), the producer commits the rest
		for _, ck := range []byte{'R', 'P', 'W', 'T'} {
			for _, n := range []int{2, 8192, size} {
				for _, pf := range []int{1, n / 2} {
					if pf <= 0 || pf >= n || (pf == 1 && n == 2 && !thorough) {
						continue
					}
					for _, pk := range []byte{'W', 'C', 'F'} {
						if pk == 'F' && ck == 'W' && n > size-8192 {
							continue
						}
						o := op{ck, n}
						po := op{pk, n - pf}
						out = append(out, c15scen{Start: st, Prefill: pf, Cons: &o, Prod: &po, Drain: n})
					}
				}
			}
		}
		// (b) space arrival: full (or nearly full) buffer, producer waits, consumer frees
		for _, pf := range []int{size, size - 1, 8192} {
			for _, pk := range []byte{'W', 'C', 'F'} {
				for _, n := range big {
					if pf+n <= size {
						continue
					}
					for _, ck := range []byte{'R', 'P', 'W', 'T'} {
						po := op{pk, n}
						co := op{ck, 1}
						out = append(out, c15scen{Start: st, Prefill: pf, Prod: &po, Cons: &co, Drain: pf + n})
					}
				}
			}
		}
		// (c) Close against every blocked or unblocked call
		for _, pf := range []int{0, 5, size} {
			for _, closers := range []int{1, 2} {
				for _, twice := range []bool{false, true} {
					if !thorough && closers == 2 && twice {
						continue
					}
					for _, ck := range []byte{0, 'R', 'P', 'W', 'T'} {
						for _, pk := range []byte{0, 'W', 'C', 'F'} {
							if ck == 0 && pk == 0 {
								continue
							}
							sc := c15scen{Start: st, Prefill: pf, Closers: closers, Twice: twice}
							if ck != 0 {
								o := op{ck, 8192}
								sc.Cons = &o
							}
							if pk != 0 {
								o := op{pk, 8192}
								sc.Prod = &o
							}
							out = append(out, sc)
						}
					}
				}
			}
		}
	}
	return out
}

// C15: liveness of the ring's blocking, Close always unblocks.
func C15(c *core.Ctx) {
	c15waiters(c)
	if c.HasViolation() || c.Expired() {
		return
	}
	scs := c15Scenarios(c.Thorough())
	c.Rep.Bound = "all interleavings (no preemption bound), happens-before state caching; plus two goroutines waiting for room at once, drained by one consumer (ReadCommit / Read / WriteTo)"
	c.Rep.Rule = fmt.Sprintf("scenarios = initial state x call in progress on each side x closers (%d in this tier); every interleaving; oracle on every terminal state: no parked thread, both mutexes free, later-call battery returns", len(scs))
	for _, sc := range scs {
		if !c.Mine() {
			continue
		}
		if c.Expired() || c.HasViolation() {
			break
		}
		sc := sc
		name := sc.Name()
		st := c.RunSched(explore.SchedOpts{Name: name, Bound: -1, Cache: true, DataFreeLocks: true, Body: sc.body(), MaxExecs: 20000, FallbackBound: 2,
			Check: func(r *vsched.Result) explore.Verdict {
				if r.Status == vsched.StCrash {
					return explore.Verdict{Violation: "panic: " + firstLine(r.Crash), Outcome: "crash"}
				}
				if len(r.Failures) > 0 {
					return explore.Verdict{Violation: r.Failures[0], Outcome: "fail"}
				}
				if len(r.Parked) > 0 {
					return explore.Verdict{Violation: "a later call on the buffer blocks forever: " + core.ParkedString(r.Parked) + " after " + lastLog(r), Outcome: "hang"}
				}
				return explore.Verdict{Outcome: fmt.Sprint(r.Log)}
			}},
			func(v *explore.Violation) string { return "C15 " + name + " :: " + generalize(v.Message) })
		if st != nil {
			c.Rep.Sample(map[string]interface{}{"scenario": name, "executions": st.Executions, "states": st.States, "outcomes": explore.OutcomeList(st.Outcomes)})
			c.Rep.Evaluations += int64(st.Executions)
			c.Rep.Nontrivial += int64(len(st.Outcomes))
		}
	}
}

// c15waiters: two goroutines wait for room in one ring at the same time (the ring has one
// producer at a time as far as data goes; a second goroutine that only waits for it to drain,
// as Client.Disconnect does, is legitimate).  One consumer step makes room for both: both
// return, under every interleaving, with and without a Close afterwards.
func c15waiters(c *core.Ctx) {
	for _, kind := range []string{"ReadCommit", "Read", "WriteTo"} {
		if !c.Mine() {
			continue
		}
		if c.Expired() || c.HasViolation() {
			return
		}
		kind := kind
		name := "two goroutines waiting for room, one " + kind + " drains the ring"
		body := func() {
			service.VerifResetGlobals()
			bf, err := service.VerifNewBuffer(size)
			if err != nil {
				vsched.Failf("newBuffer: %v", err)
				return
			}
			if err := preroll(bf, 100, size); err != nil {
				vsched.Failf("preroll: %v", err)
				return
			}
			done := [2]bool{}
			vsched.Go("waiter-all", func() {
				bf.WriteWait(size)
				done[0] = true
			})
			vsched.Go("waiter-100", func() {
				bf.WriteWait(100)
				done[1] = true
			})
			vsched.Go("consumer", func() {
				switch kind {
				case "ReadCommit":
					if _, err := bf.ReadWait(8192); err != nil {
						return
					}
					bf.ReadCommit(8192)
					if _, err := bf.ReadWait(8192); err != nil {
						return
					}
					bf.ReadCommit(8192)
				case "Read":
					p := make([]byte, size)
					got := 0
					for got < size {
						n, err := bf.Read(p[got:])
						if err != nil {
							return
						}
						got += n
					}
				case "WriteTo":
					bad := ""
					pos := int64(100)
					w := &sinkWriter{want: size + 1, pos: &pos, bad: &bad}
					// returns when the ring is closed below
					bf.WriteTo(w)
				}
			})
			vsched.Quiesce()
			if !done[0] || !done[1] {
				vsched.Failf("the ring is empty (Len=%d) and a goroutine that waits for room is still blocked (whole ring: returned=%v, 100 bytes: returned=%v)", bf.Len(), done[0], done[1])
				return
			}
			bf.Close()
			vsched.Quiesce()
			vsched.Logf("ok")
		}
		st := c.RunSched(explore.SchedOpts{Name: name, Bound: -1, Cache: true, DataFreeLocks: true, Body: body, MaxExecs: 20000, FallbackBound: 2,
			Check: func(r *vsched.Result) explore.Verdict {
				if r.Status == vsched.StCrash {
					return explore.Verdict{Violation: "panic: " + firstLine(r.Crash), Outcome: "crash"}
				}
				if len(r.Failures) > 0 {
					return explore.Verdict{Violation: r.Failures[0], Outcome: "fail"}
				}
				if len(r.Parked) > 0 {
					return explore.Verdict{Violation: "a call on the buffer blocks forever: " + core.ParkedString(r.Parked), Outcome: "hang"}
				}
				return explore.Verdict{Outcome: fmt.Sprint(r.Log)}
			}},
			func(v *explore.Violation) string { return "C15 " + name + " :: " + generalize(v.Message) })
		if st != nil {
			c.Rep.Sample(map[string]interface{}{"scenario": name, "executions": st.Executions, "states": st.States})
			c.Rep.Evaluations += int64(st.Executions)
		}
	}
}

func lastLog(r *vsched.Result) string {
	if len(r.Log) == 0 {
		return "start"
	}
	return r.Log[len(r.Log)-1]
}
