// Package ring drives the real service.buffer (C14, C15).
package ring

import (
	"errors"
	"fmt"
	"io"
	"strings"

	"github.com/mdzio/go-mqtt/service"
	"github.com/mdzio/go-mqtt/verifrt/vsched"
	"verif/engine/explore"
	"verif/harness/core"
)

const size = 16384

// f is the reference stream: byte i of everything the producer ever commits.
func f(i int64) byte {
	x := uint64(i)*0x9e3779b97f4a7c15 + 0x1234567
	x ^= x >> 29
	return byte(x>>16) ^ byte(x>>40) ^ byte(i)
}

func fill(p []byte, from int64) {
	for i := range p {
		p[i] = f(from + int64(i))
	}
}

func check(p []byte, from int64) int {
	for i := range p {
		if p[i] != f(from+int64(i)) {
			return i
		}
	}
	return -1
}

// op is one producer or consumer operation.
type op struct {
	K byte // producer: W write, C reserve+commit, F fill from reader; consumer: R read, P peek+commit, W wait+commit, T drain to writer
	N int
}

func (o op) String() string { return fmt.Sprintf("%c%d", o.K, o.N) }

func progString(p []op) string {
	var s []string
	for _, o := range p {
		s = append(s, o.String())
	}
	return strings.Join(s, ",")
}

type scenario struct {
	Start   int64 // both cursors are moved here first
	Prefill int   // unread bytes present at the start
	Prod    []op
	Cons    []op
	CloseP  bool // producer closes the buffer after its program
}

func (sc scenario) Name() string {
	return fmt.Sprintf("start=%d prefill=%d prod=[%s] cons=[%s] close=%v", sc.Start, sc.Prefill, progString(sc.Prod), progString(sc.Cons), sc.CloseP)
}

// chunkReader feeds ReadFrom.
type chunkReader struct {
	left int
	pos  *int64
	// eofWithLast: the last chunk is returned together with io.EOF (odd sizes)
	eofWithLast bool
}

func (r *chunkReader) Read(p []byte) (int, error) {
	vsched.Yield()
	if r.left == 0 {
		return 0, io.EOF
	}
	n := len(p)
	if n > r.left {
		n = r.left
	}
	fill(p[:n], *r.pos)
	*r.pos += int64(n)
	r.left -= n
	if r.left == 0 && r.eofWithLast {
		// the io.Reader contract allows the last bytes and the end of the stream in one call
		return n, io.EOF
	}
	return n, nil
}

var errStop = errors.New("writer full")

// sinkWriter receives WriteTo's output.
type sinkWriter struct {
	want int
	pos  *int64
	bad  *string
	// partial: the first Write is a partial one that ends in a time-out (odd sizes)
	partial bool
	started bool
	base    int64 // stream position of the first byte this writer is given
	recv    int64 // bytes received so far
}

// partialTimeout is what a net.Conn with a write deadline returns when the deadline runs
// out in the middle of a Write: the bytes it did send, and a time-out error.
type partialTimeout struct{}

func (partialTimeout) Error() string   { return "i/o timeout (injected)" }
func (partialTimeout) Timeout() bool   { return true }
func (partialTimeout) Temporary() bool { return true }

func (w *sinkWriter) Write(p []byte) (int, error) {
	vsched.Yield()
	if !w.started {
		w.started, w.base = true, *w.pos
	}
	// what the sink sees is one contiguous stream, whatever WriteTo commits or does not
	// commit after a failed Write: every byte once, in order
	at := w.base + w.recv
	timedOut := false
	if w.partial && len(p) > 1 {
		// the first Write takes half of what it is given and reports a time-out
		w.partial = false
		p = p[:len(p)/2]
		timedOut = true
	}
	if i := check(p, at); i >= 0 && *w.bad == "" {
		*w.bad = fmt.Sprintf("WriteTo delivered a wrong byte at stream position %d (the writer had received %d bytes before this Write)", at+int64(i), w.recv)
	}
	w.recv += int64(len(p))
	w.want -= len(p)
	if timedOut {
		// not committed by WriteTo, which returns the error (and closes the buffer)
		return len(p), partialTimeout{}
	}
	*w.pos += int64(len(p))
	if w.want <= 0 {
		// WriteTo returns without committing this chunk: it stays in the ring
		*w.pos -= int64(len(p))
		return len(p), errStop
	}
	return len(p), nil
}

// preroll moves both cursors to start and leaves prefill unread bytes.
func preroll(bf *service.VerifBuffer, start int64, prefill int) error {
	left := start
	pos := int64(0)
	tmp := make([]byte, size)
	for left > 0 {
		n := left
		if n > size-1 {
			n = size - 1
		}
		fill(tmp[:n], pos)
		if _, err := bf.Write(tmp[:n]); err != nil {
			return err
		}
		got := int64(0)
		for got < n {
			k, err := bf.Read(tmp[:n-got])
			if err != nil {
				return err
			}
			got += int64(k)
		}
		pos += n
		left -= n
	}
	if prefill > 0 {
		fill(tmp[:prefill], start)
		if _, err := bf.Write(tmp[:prefill]); err != nil {
			return err
		}
	}
	return nil
}

// runProducer executes a producer program; returns an oracle failure or "".
func runProducer(bf *service.VerifBuffer, prog []op, ppos *int64) string {
	for _, o := range prog {
		switch o.K {
		case 'W':
			p := make([]byte, o.N)
			fill(p, *ppos)
			n, err := bf.Write(p)
			if err != nil {
				return ""
			}
			if n != o.N {
				return fmt.Sprintf("Write(%d) returned %d without error", o.N, n)
			}
			*ppos += int64(n)
		case 'C':
			buf, wrap, err := bf.WriteWait(o.N)
			if err != nil {
				return ""
			}
			if wrap {
				// what writeMessage does: encode elsewhere and Write
				p := make([]byte, o.N)
				fill(p, *ppos)
				n, err := bf.Write(p)
				if err != nil {
					return ""
				}
				if n != o.N {
					return fmt.Sprintf("Write(%d) after wrap returned %d", o.N, n)
				}
				*ppos += int64(n)
				continue
			}
			if len(buf) != o.N {
				return fmt.Sprintf("WriteWait(%d) returned %d bytes", o.N, len(buf))
			}
			fill(buf, *ppos)
			n, err := bf.WriteCommit(o.N)
			if err != nil {
				return ""
			}
			if n != o.N {
				return fmt.Sprintf("WriteCommit(%d) returned %d", o.N, n)
			}
			*ppos += int64(n)
		case 'F':
			r := &chunkReader{left: o.N, pos: ppos, eofWithLast: o.N%2 == 1}
			// the byte count ReadFrom returns is not part of the property (it is 0
			// when the buffer is closed under it), only the stream content is
			bf.ReadFrom(r)
		}
	}
	return ""
}

// runConsumer executes a consumer program.
func runConsumer(bf *service.VerifBuffer, prog []op, cpos *int64) string {
	for _, o := range prog {
		switch o.K {
		case 'R':
			p := make([]byte, o.N)
			n, err := bf.Read(p)
			if err != nil {
				return ""
			}
			if n < 0 || n > o.N {
				return fmt.Sprintf("Read(%d) returned %d", o.N, n)
			}
			if i := check(p[:n], *cpos); i >= 0 {
				return fmt.Sprintf("Read delivered a wrong byte at stream position %d", *cpos+int64(i))
			}
			*cpos += int64(n)
		case 'P':
			p, err := bf.ReadPeek(o.N)
			if err != nil && err != service.ErrBufferInsufficientData {
				return ""
			}
			if len(p) > o.N {
				return fmt.Sprintf("ReadPeek(%d) returned %d bytes", o.N, len(p))
			}
			if i := check(p, *cpos); i >= 0 {
				return fmt.Sprintf("ReadPeek delivered a wrong byte at stream position %d", *cpos+int64(i))
			}
			// give the producer every chance to run before the commit
			vsched.Yield()
			if i := check(p, *cpos); i >= 0 {
				return fmt.Sprintf("peeked byte at stream position %d was overwritten before commit", *cpos+int64(i))
			}
			n, err := bf.ReadCommit(len(p))
			if err != nil {
				return fmt.Sprintf("ReadCommit(%d) after peek failed: %v", len(p), err)
			}
			*cpos += int64(n)
		case 'W':
			p, err := bf.ReadWait(o.N)
			if err != nil {
				return ""
			}
			if len(p) != o.N {
				return fmt.Sprintf("ReadWait(%d) returned %d bytes without error", o.N, len(p))
			}
			if i := check(p, *cpos); i >= 0 {
				return fmt.Sprintf("ReadWait delivered a wrong byte at stream position %d", *cpos+int64(i))
			}
			vsched.Yield()
			if i := check(p, *cpos); i >= 0 {
				return fmt.Sprintf("waited-for byte at stream position %d was overwritten before commit", *cpos+int64(i))
			}
			n, err := bf.ReadCommit(o.N)
			if err != nil {
				return fmt.Sprintf("ReadCommit(%d) after wait failed: %v", o.N, err)
			}
			*cpos += int64(n)
		case 'T':
			bad := ""
			w := &sinkWriter{want: o.N, pos: cpos, bad: &bad, partial: o.N%2 == 1 && o.N > 1}
			bf.WriteTo(w)

			if bad != "" {
				return bad
			}
		}
	}
	return ""
}

func (sc scenario) body() func() {
	return func() {
		service.VerifResetGlobals()
		bf, err := service.VerifNewBuffer(size)
		if err != nil {
			vsched.Failf("newBuffer: %v", err)
			return
		}
		if err := preroll(bf, sc.Start, sc.Prefill); err != nil {
			vsched.Failf("preroll: %v", err)
			return
		}
		ppos := sc.Start + int64(sc.Prefill)
		cpos := sc.Start
		vsched.Go("producer", func() {
			if msg := runProducer(bf, sc.Prod, &ppos); msg != "" {
				vsched.Failf("%s", msg)
			}
			if sc.CloseP {
				bf.Close()
			}
			vsched.Logf("producer done at %d", ppos)
		})
		vsched.Go("consumer", func() {
			if msg := runConsumer(bf, sc.Cons, &cpos); msg != "" {
				vsched.Failf("%s", msg)
			}
			vsched.Logf("consumer done at %d", cpos)
		})
		vsched.Quiesce()
		// final cross-check against the cursors of the implementation
		p, c, _, _ := bf.VerifCursors()
		if c > p {
			vsched.Failf("consumer cursor %d passed producer cursor %d", c, p)
		}
		if p-c > size {
			vsched.Failf("more than the buffer size in flight: producer %d consumer %d", p, c)
		}
		if c != cpos {
			vsched.Failf("consumer cursor %d but %d bytes were obtained", c, cpos)
		}
		vsched.Logf("end p=%d c=%d", p-sc.Start, c-sc.Start)
	}
}

func c14Scenarios(thorough bool) []scenario {
	sizes := []int{1, 8192, 16383}
	starts := []int64{0, size - 3}
	prefills := []int{0, size}
	if thorough {
		sizes = []int{1, 2, 5, 8191, 8192, 8193, 16383, 16384}
		starts = []int64{0, size - 1, size - 3, size - 8192, size - 8193, 3*size - 2}
		prefills = []int{0, 1, 5, 8192, size - 1, size}
	}
	var prods, conss [][]op
	for _, k := range []byte{'W', 'C', 'F'} {
		for _, n := range sizes {
			prods = append(prods, []op{{k, n}})
		}
	}
	for _, k := range []byte{'R', 'P', 'W', 'T'} {
		for _, n := range sizes {
			conss = append(conss, []op{{k, n}})
		}
	}
	// two-operation programs: every pair of kinds, sizes from a reduced set
	small := []int{1, 8192}
	if thorough {
		small = []int{1, 5, 8192, 8193}
	}
	for _, k1 := range []byte{'W', 'C', 'F'} {
		for _, k2 := range []byte{'W', 'C', 'F'} {
			for _, n1 := range small {
				for _, n2 := range small {
					prods = append(prods, []op{{k1, n1}, {k2, n2}})
				}
			}
		}
	}
	for _, k1 := range []byte{'R', 'P', 'W', 'T'} {
		for _, k2 := range []byte{'R', 'P', 'W', 'T'} {
			for _, n1 := range small {
				for _, n2 := range small {
					conss = append(conss, []op{{k1, n1}, {k2, n2}})
				}
			}
		}
	}
	if thorough {
		// three-operation programs over the smallest alphabet
		for _, k1 := range []byte{'W', 'C'} {
			for _, k2 := range []byte{'W', 'C', 'F'} {
				for _, k3 := range []byte{'W', 'C'} {
					prods = append(prods, []op{{k1, 8192}, {k2, 5}, {k3, 8192}})
				}
			}
		}
		for _, k1 := range []byte{'R', 'P', 'W'} {
			for _, k2 := range []byte{'R', 'P', 'W'} {
				for _, k3 := range []byte{'R', 'P', 'W'} {
					conss = append(conss, []op{{k1, 5}, {k2, 8192}, {k3, 5}})
				}
			}
		}
	}
	var out []scenario
	np1, nc1 := 3*len(sizes), 4*len(sizes) // programs with a single operation come first
	for _, st := range starts {
		for _, pf := range prefills {
			for pi, pp := range prods {
				produced := 0
				ok := true
				for _, o := range pp {
					produced += o.N
					if o.N > size {
						ok = false
					}
				}
				if !ok {
					continue
				}
				for ci, cp := range conss {
					// quick tier: at least one side is a single operation
					if !thorough && pi >= np1 && ci >= nc1 {
						continue
					}
					demand := 0
					for _, o := range cp {
						demand += o.N
					}
					// the consumer may only ask for what will exist
					if demand > pf+produced {
						continue
					}
					out = append(out, scenario{Start: st, Prefill: pf, Prod: pp, Cons: cp})
				}
			}
		}
	}
	return out
}

// C14 explores every interleaving of every producer/consumer program pair.
func C14(c *core.Ctx) {
	scs := c14Scenarios(c.Thorough())
	c.Rep.Bound = "all interleavings (no preemption bound), happens-before state caching; the outgoing path of a connection (writeRequest against the sender goroutine): five size patterns over 4/12 laps with a prompt and a lagging peer, and the sender stuck with a small chunk while the ring fills; plus single-thread streams over rings requested with 9 sizes (powers of two and not), and every sequence to depth 6 (quick) / 7 (thorough) of produce-obtain-commit steps with chunk sizes that return to the same ring index after a revolution"
	c.Rep.Rule = fmt.Sprintf("scenarios = start offset x prefill x producer program x consumer program over the real ring of %d bytes (%d scenarios in this tier); per scenario every interleaving of producer and consumer at lock/cond/atomic granularity; an execution is non-trivial when the consumer obtained at least one byte the producer committed concurrently; distinct = distinct happens-before states", size, len(scs))
	if c.Replay != nil && (strings.HasPrefix(c.Replay.Scenario, "stream ") || strings.HasPrefix(c.Replay.Scenario, "small-chunk")) {
		core.RunExtras("C14", c)
		return
	}
	c14sizes(c)
	if c.HasViolation() || c.Expired() {
		return
	}
	// the ring as the connection uses it: writeRequest (reserve, encode in place or through
	// the wrap buffer, commit) against the sender goroutine, whole streams over several laps
	// with a prompt and a lagging peer (harness/broker, shared with C17)
	core.RunExtras("C14", c)
	if c.HasViolation() || c.Expired() {
		return
	}
	c14laps(c)
	if c.HasViolation() || c.Expired() || (c.Replay != nil && strings.HasPrefix(c.Replay.Scenario, "laps")) {
		return
	}
	for _, sc := range scs {
		if !c.Mine() {
			continue
		}
		if c.Expired() || c.HasViolation() {
			break
		}
		sc := sc
		name := sc.Name()
		st := c.RunSched(explore.SchedOpts{Name: name, Bound: -1, Cache: true, DataFreeLocks: true, Body: sc.body(), MaxExecs: 20000, FallbackBound: 2,
			Check: func(r *vsched.Result) explore.Verdict {
				out := ""
				if len(r.Log) > 0 {
					out = r.Log[len(r.Log)-1]
				}
				if r.Status == vsched.StCrash {
					return explore.Verdict{Violation: "panic: " + firstLine(r.Crash), Outcome: "crash"}
				}
				if len(r.Failures) > 0 {
					return explore.Verdict{Violation: r.Failures[0], Outcome: "fail"}
				}
				if len(r.Parked) > 0 {
					out += " parked=" + fmt.Sprint(len(r.Parked))
				}
				return explore.Verdict{Outcome: out}
			}},
			func(v *explore.Violation) string { return "C14 " + name + " :: " + generalize(v.Message) })
		if st != nil {
			c.Rep.Sample(map[string]interface{}{"scenario": name, "executions": st.Executions, "states": st.States, "outcomes": explore.OutcomeList(st.Outcomes)})
			c.Rep.Evaluations += int64(st.Executions)
			c.Rep.Nontrivial += int64(len(st.Outcomes))
		}
	}
}

// c14sizes: rings of other configured sizes (BufferSize is a setting; anything
// is rounded by newBuffer).  One thread alternates between producing a backlog
// of three quarters of the ring in 3000-byte chunks (Write, reserve+commit) and
// consuming it in 1000-byte chunks (Read, peek+commit), for three laps, on
// rings requested with sizes that are and are not powers of two.
func c14sizes(c *core.Ctx) {
	for si, req := range []int64{16384, 20000, 24576, 32768, 40000, 65536, 70000, 100000, 262144} {
		if c.NShards > 1 && si%c.NShards != c.Shard {
			continue
		}
		name := fmt.Sprintf("ring requested with %d bytes", req)
		if c.Replay != nil && c.Replay.Scenario != name {
			continue
		}
		if c.Expired() || c.HasViolation() {
			return
		}
		req := req
		body := func() {
			service.VerifResetGlobals()
			bf, err := service.VerifNewBuffer(req)
			if err != nil {
				vsched.Failf("newBuffer(%d): %v", req, err)
				return
			}
			var ppos, cpos int64
			backlog := req * 3 / 4
			for lap := 0; lap < 4; lap++ {
				k := 0
				for ppos-cpos+3000 <= backlog {
					p := make([]byte, 3000)
					fill(p, ppos)
					if k%2 == 0 {
						n, err := bf.Write(p)
						if err != nil || n != len(p) {
							vsched.Failf("Write: n=%d err=%v", n, err)
							return
						}
					} else {
						buf, wrap, err := bf.WriteWait(len(p))
						if err != nil {
							vsched.Failf("WriteWait: %v", err)
							return
						}
						if wrap {
							if n, err := bf.Write(p); err != nil || n != len(p) {
								vsched.Failf("Write: n=%d err=%v", n, err)
								return
							}
						} else {
							copy(buf, p)
							if _, err := bf.WriteCommit(len(p)); err != nil {
								vsched.Failf("WriteCommit: %v", err)
								return
							}
						}
					}
					ppos += 3000
					k++
				}
				for cpos < ppos {
					n := int64(1000)
					if ppos-cpos < n {
						n = ppos - cpos
					}
					var got []byte
					if k%2 == 0 {
						got = make([]byte, n)
						m, err := bf.Read(got)
						if err != nil {
							vsched.Failf("Read: %v", err)
							return
						}
						got = got[:m]
					} else {
						p, err := bf.ReadPeek(int(n))
						if err != nil && err != service.ErrBufferInsufficientData {
							vsched.Failf("ReadPeek: %v", err)
							return
						}
						got = append([]byte(nil), p...)
						if _, err := bf.ReadCommit(len(p)); err != nil {
							vsched.Failf("ReadCommit: %v", err)
							return
						}
					}
					if len(got) == 0 {
						vsched.Failf("the consumer obtained nothing although %d bytes are committed", ppos-cpos)
						return
					}
					if i := check(got, cpos); i >= 0 {
						vsched.Failf("ring requested with %d bytes: the consumer obtained a wrong byte at stream position %d (lap %d)", req, cpos+int64(i), lap)
						return
					}
					cpos += int64(len(got))
					k++
				}
			}
			vsched.Logf("ok")
		}
		res := explore.RunDefault(body)
		if c.Replay != nil {
			fmt.Println("replay:", name, res.Failures, firstLine(res.Crash))
			c.Rep.Scenarios++
			return
		}
		c.Rep.Executions++
		c.Rep.Evaluations++
		c.Rep.Transitions += int64(len(res.Points))
		msg := ""
		if res.Status == vsched.StCrash {
			msg = "panic: " + firstLine(res.Crash)
		} else if len(res.Failures) > 0 {
			msg = res.Failures[0]
		} else if len(res.Parked) > 0 {
			msg = "the single thread blocks: " + core.ParkedString(res.Parked)
		}
		if msg != "" {
			if c.Violate("C14 sizes :: "+generalize(msg), core.Replay{Scenario: name, Message: msg}) {
				return
			}
		}
	}
	c.Rep.Scenarios++
}

// c14laps: history kept across revolutions of the ring.  One thread alternates
// "produce a chunk, obtain it, commit it" (the ring is empty in between) with
// chunk sizes that bring the cursors back to the same ring index after one
// revolution (8190+8190+16 = 8184+8184+16 = 16384, 8192+8192), obtained through
// ReadWait or ReadPeek; every sequence to a depth, from two start positions.
// Whatever a peek leaves behind (scratch slices, cached positions) meets the
// same index again with other content.
func c14laps(c *core.Ctx) {
	sizes := []int{16, 8184, 8190, 8192}
	depth := 6
	if c.Thorough() {
		sizes = []int{16, 100, 8184, 8190, 8192}
		depth = 7
	}
	type lop struct {
		n    int
		kind byte // 'W' ReadWait, 'P' ReadPeek
	}
	var alpha []lop
	for _, n := range sizes {
		alpha = append(alpha, lop{n, 'W'}, lop{n, 'P'})
	}
	run := func(start int64, seq []int) string {
		var msg string
		body := func() {
			service.VerifResetGlobals()
			bf, err := service.VerifNewBuffer(size)
			if err != nil {
				vsched.Failf("newBuffer: %v", err)
				return
			}
			if err := preroll(bf, start, 0); err != nil {
				vsched.Failf("harness: preroll: %v", err)
				return
			}
			pos := start
			buf := make([]byte, 8192)
			for i, k := range seq {
				o := alpha[k]
				p := buf[:o.n]
				fill(p, pos)
				if i%2 == 0 {
					if n, err := bf.Write(p); err != nil || n != o.n {
						vsched.Failf("Write(%d): n=%d err=%v", o.n, n, err)
						return
					}
				} else {
					w, wrap, err := bf.WriteWait(o.n)
					if err != nil {
						vsched.Failf("WriteWait(%d): %v", o.n, err)
						return
					}
					if wrap {
						if n, err := bf.Write(p); err != nil || n != o.n {
							vsched.Failf("Write(%d): n=%d err=%v", o.n, n, err)
							return
						}
					} else {
						copy(w, p)
						if _, err := bf.WriteCommit(o.n); err != nil {
							vsched.Failf("WriteCommit(%d): %v", o.n, err)
							return
						}
					}
				}
				var got []byte
				if o.kind == 'W' {
					got, err = bf.ReadWait(o.n)
				} else {
					got, err = bf.ReadPeek(o.n)
				}
				if err != nil || len(got) != o.n {
					vsched.Failf("step %d: obtaining %d committed bytes at stream position %d: got %d, err=%v", i+1, o.n, pos, len(got), err)
					return
				}
				if j := check(got, pos); j >= 0 {
					vsched.Failf("step %d: the %d bytes obtained at stream position %d (ring index %d) are not the bytes committed there: first difference at offset %d", i+1, o.n, pos, pos%size, j)
					return
				}
				if _, err := bf.ReadCommit(o.n); err != nil {
					vsched.Failf("ReadCommit(%d): %v", o.n, err)
					return
				}
				pos += int64(o.n)
			}
		}
		res := explore.RunDefault(body)
		c.Rep.Executions++
		c.Rep.Evaluations++
		c.Rep.Transitions += int64(len(res.Points))
		if res.Status == vsched.StCrash {
			msg = "panic: " + firstLine(res.Crash)
		} else if len(res.Failures) > 0 {
			msg = res.Failures[0]
		} else if len(res.Parked) > 0 {
			msg = "the single thread blocks: " + core.ParkedString(res.Parked)
		}
		return msg
	}
	describe := func(start int64, seq []int) string {
		var parts []string
		for _, k := range seq {
			kind := "ReadWait"
			if alpha[k].kind == 'P' {
				kind = "ReadPeek"
			}
			parts = append(parts, fmt.Sprintf("%s(%d)", kind, alpha[k].n))
		}
		return fmt.Sprintf("laps from ring index %d: %s", start, strings.Join(parts, " "))
	}
	if c.Replay != nil {
		if strings.HasPrefix(c.Replay.Scenario, "laps") {
			fmt.Println("replay:", c.Replay.Scenario, "\n ", c.Replay.Message)
			c.Rep.Scenarios++
		}
		return
	}
	leaf := 0
	for _, start := range []int64{0, size - 4} {
		seq := make([]int, 0, depth)
		var rec func() bool
		rec = func() bool {
			if len(seq) == depth {
				leaf++
				if c.NShards > 1 && leaf%c.NShards != c.Shard {
					return true
				}
				if leaf%256 == 0 && (c.Expired() || c.HasViolation()) {
					return false
				}
				if msg := run(start, seq); msg != "" {
					// shortest failing prefix
					for l := 1; l < len(seq); l++ {
						if m := run(start, seq[:l]); m != "" {
							c.Violate("C14 laps :: "+generalize(m), core.Replay{Scenario: describe(start, seq[:l]), Message: m})
							return false
						}
					}
					c.Violate("C14 laps :: "+generalize(msg), core.Replay{Scenario: describe(start, seq), Message: msg})
					return false
				}
				return true
			}
			for k := range alpha {
				seq = append(seq, k)
				ok := rec()
				seq = seq[:len(seq)-1]
				if !ok {
					return false
				}
			}
			return true
		}
		if !rec() {
			return
		}
	}
	c.Rep.Scenarios++
	c.Rep.Sample(map[string]interface{}{"search": "laps", "chunk_sizes": sizes, "depth": depth, "sequences": leaf})
}

func firstLine(s string) string {
	if i := strings.IndexByte(s, '\n'); i >= 0 {
		return s[:i]
	}
	return s
}

// generalize strips positions from a message so that fingerprints are stable.
func generalize(s string) string {
	var b strings.Builder
	for _, r := range s {
		if r >= '0' && r <= '9' {
			continue
		}
		b.WriteRune(r)
	}
	return b.String()
}

func init() {
	core.Register("C14", C14)
	core.Register("C15", C15)
}
