package ring

import (
	"fmt"

	"github.com/mdzio/go-mqtt/service"
	"github.com/mdzio/go-mqtt/verifrt/vsched"
	"verif/engine/explore"
)

type fixedChooser struct{ c []int }

func (f *fixedChooser) Choose(step int, p *vsched.Point) int {
	if step < len(f.c) {
		return f.c[step]
	}
	return 0
}

// Smoke prints state keys of two runs of one schedule.
func Smoke() {
	body := func() {
		service.VerifResetGlobals()
		bf, _ := service.VerifNewBuffer(16384)
		vsched.Go("producer", func() { bf.Write([]byte{1, 2, 3}) })
		vsched.Go("consumer", func() {
			p := make([]byte, 3)
			bf.Read(p)
		})
	}
	for i := 0; i < 2; i++ {
		r := vsched.Run(vsched.Options{Chooser: &fixedChooser{}, NeedKeys: true, DataFreeLocks: true}, body)
		for j, p := range r.Points {
			fmt.Printf("%d:%x(%s %s) ", j, p.Key&0xffff, p.Thread, p.Kind)
		}
		fmt.Println()
	}
	_ = explore.Sched
}
