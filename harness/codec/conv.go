// Package codec drives the message package (C03, C04).
package codec

import (
	"bytes"
	"fmt"
	"unsafe"

	"github.com/mdzio/go-mqtt/message"
	"verif/models/refcodec"
)

// newMsg returns an empty library message of a type.
func newMsg(t byte) message.Message {
	m, err := message.Type(t).New()
	if err != nil {
		return nil
	}
	return m
}

// build constructs a library message from reference fields through the public
// setters only.  idAuto leaves the packet identifier to the library.
func build(p *refcodec.Packet, idAuto bool) (message.Message, error) {
	switch p.Type {
	case refcodec.CONNECT:
		m := message.NewConnectMessage()
		if err := m.SetVersion(p.Level); err != nil {
			return nil, err
		}
		m.SetCleanSession(p.CleanSess)
		m.SetKeepAlive(p.KeepAlive)
		if err := m.SetClientID(p.ClientID); err != nil {
			return nil, err
		}
		if p.Will {
			m.SetWillTopic(p.WillTopic)
			m.SetWillMessage(p.WillMessage)
			if err := m.SetWillQos(p.WillQoS); err != nil {
				return nil, err
			}
			m.SetWillRetain(p.WillRetain)
		}
		if p.HasUser {
			m.SetUsername(p.User)
		}
		if p.HasPass {
			m.SetPassword(p.Pass)
		}
		return m, nil
	case refcodec.CONNACK:
		m := message.NewConnackMessage()
		m.SetSessionPresent(p.SessionPresent)
		m.SetReturnCode(message.ConnackCode(p.ReturnCode))
		return m, nil
	case refcodec.PUBLISH:
		m := message.NewPublishMessage()
		if err := m.SetTopic(p.Topic); err != nil {
			return nil, err
		}
		if err := m.SetQoS(p.QoS); err != nil {
			return nil, err
		}
		m.SetDup(p.Dup)
		m.SetRetain(p.Retain)
		m.SetPayload(p.Payload)
		if !idAuto {
			m.SetPacketID(p.ID)
		}
		return m, nil
	case refcodec.PUBACK, refcodec.PUBREC, refcodec.PUBREL, refcodec.PUBCOMP, refcodec.UNSUBACK:
		m := newMsg(p.Type)
		m.(interface{ SetPacketID(uint16) }).SetPacketID(p.ID)
		return m, nil
	case refcodec.SUBSCRIBE:
		m := message.NewSubscribeMessage()
		for i, t := range p.Topics {
			if err := m.AddTopic(t, p.QoSs[i]); err != nil {
				return nil, err
			}
		}
		if !idAuto {
			m.SetPacketID(p.ID)
		}
		return m, nil
	case refcodec.UNSUBSCRIBE:
		m := message.NewUnsubscribeMessage()
		for _, t := range p.Topics {
			m.AddTopic(t)
		}
		if !idAuto {
			m.SetPacketID(p.ID)
		}
		return m, nil
	case refcodec.SUBACK:
		m := message.NewSubackMessage()
		m.SetPacketID(p.ID)
		if err := m.AddReturnCodes(p.Codes); err != nil {
			return nil, err
		}
		return m, nil
	case refcodec.PINGREQ, refcodec.PINGRESP, refcodec.DISCONNECT:
		return newMsg(p.Type), nil
	}
	return nil, fmt.Errorf("no such type %d", p.Type)
}

// fromLib reads the fields of a library message through its getters.
func fromLib(msg message.Message) *refcodec.Packet {
	p := &refcodec.Packet{Type: byte(msg.Type())}
	switch m := msg.(type) {
	case *message.ConnectMessage:
		p.Level = m.Version()
		p.ProtoName = message.SupportedVersions[m.Version()]
		p.CleanSess = m.CleanSession()
		p.Will = m.WillFlag()
		p.WillQoS = m.WillQos()
		p.WillRetain = m.WillRetain()
		p.HasUser = m.UsernameFlag()
		p.HasPass = m.PasswordFlag()
		p.KeepAlive = m.KeepAlive()
		p.ClientID = m.ClientID()
		p.WillTopic = m.WillTopic()
		p.WillMessage = m.WillMessage()
		p.User = m.Username()
		p.Pass = m.Password()
	case *message.ConnackMessage:
		p.SessionPresent = m.SessionPresent()
		p.ReturnCode = m.ReturnCode().Value()
	case *message.PublishMessage:
		p.Dup, p.QoS, p.Retain = m.Dup(), m.QoS(), m.Retain()
		p.Topic, p.Payload = m.Topic(), m.Payload()
		if p.QoS > 0 {
			p.ID = m.PacketID()
		}
	case *message.SubscribeMessage:
		p.ID = m.PacketID()
		p.Topics, p.QoSs = m.Topics(), m.Qos()
	case *message.UnsubscribeMessage:
		p.ID = m.PacketID()
		p.Topics = m.Topics()
	case *message.SubackMessage:
		p.ID = m.PacketID()
		p.Codes = m.ReturnCodes()
	case *message.PubackMessage, *message.PubrecMessage, *message.PubrelMessage, *message.PubcompMessage, *message.UnsubackMessage:
		p.ID = msg.PacketID()
	}
	return p
}

// fieldSlices lists every byte slice a decoded message exposes.
func fieldSlices(msg message.Message) [][]byte {
	switch m := msg.(type) {
	case *message.ConnectMessage:
		return [][]byte{m.ClientID(), m.WillTopic(), m.WillMessage(), m.Username(), m.Password()}
	case *message.PublishMessage:
		return [][]byte{m.Topic(), m.Payload()}
	case *message.SubscribeMessage:
		return append(append([][]byte{}, m.Topics()...), m.Qos())
	case *message.UnsubscribeMessage:
		return m.Topics()
	case *message.SubackMessage:
		return [][]byte{m.ReturnCodes()}
	}
	return nil
}

// inside reports whether s lies within buf[:n] (by address), or is empty, or
// does not alias buf at all (a copy is fine).
func inside(s, buf []byte, n int) bool {
	if len(s) == 0 || len(buf) == 0 {
		return true
	}
	sp := uintptr(unsafe.Pointer(&s[0]))
	bp := uintptr(unsafe.Pointer(&buf[0]))
	if sp < bp || sp >= bp+uintptr(cap(buf)) {
		return true // not an alias of the input
	}
	return sp+uintptr(len(s)) <= bp+uintptr(n)
}

func eqBytes(a, b []byte) bool { return bytes.Equal(a, b) }

// sameFields compares two field sets, treating nil and empty alike.
func sameFields(a, b *refcodec.Packet) string {
	if a.Type != b.Type {
		return fmt.Sprintf("type %d vs %d", a.Type, b.Type)
	}
	chk := func(name string, x, y interface{}) string {
		if fmt.Sprint(x) != fmt.Sprint(y) {
			return fmt.Sprintf("%s: %v vs %v", name, trunc(fmt.Sprint(x)), trunc(fmt.Sprint(y)))
		}
		return ""
	}
	switch a.Type {
	case refcodec.CONNECT:
		for _, c := range []string{
			chk("protocol", a.ProtoName, b.ProtoName), chk("level", a.Level, b.Level), chk("clean", a.CleanSess, b.CleanSess),
			chk("will", a.Will, b.Will), chk("willqos", a.WillQoS, b.WillQoS), chk("willretain", a.WillRetain, b.WillRetain),
			chk("userflag", a.HasUser, b.HasUser), chk("passflag", a.HasPass, b.HasPass), chk("keepalive", a.KeepAlive, b.KeepAlive)} {
			if c != "" {
				return c
			}
		}
		if !eqBytes(a.ClientID, b.ClientID) {
			return "client id differs"
		}
		if a.Will && (!eqBytes(a.WillTopic, b.WillTopic) || !eqBytes(a.WillMessage, b.WillMessage)) {
			return "will topic/message differs"
		}
		if a.HasUser && !eqBytes(a.User, b.User) {
			return "user name differs"
		}
		if a.HasPass && !eqBytes(a.Pass, b.Pass) {
			return "password differs"
		}
	case refcodec.CONNACK:
		if a.SessionPresent != b.SessionPresent || a.ReturnCode != b.ReturnCode {
			return fmt.Sprintf("connack %v/%d vs %v/%d", a.SessionPresent, a.ReturnCode, b.SessionPresent, b.ReturnCode)
		}
	case refcodec.PUBLISH:
		if a.Dup != b.Dup || a.QoS != b.QoS || a.Retain != b.Retain {
			return fmt.Sprintf("flags dup=%v qos=%d retain=%v vs dup=%v qos=%d retain=%v", a.Dup, a.QoS, a.Retain, b.Dup, b.QoS, b.Retain)
		}
		if !eqBytes(a.Topic, b.Topic) {
			return "topic differs"
		}
		if !eqBytes(a.Payload, b.Payload) {
			return fmt.Sprintf("payload differs (%d vs %d bytes)", len(a.Payload), len(b.Payload))
		}
		if a.QoS > 0 && a.ID != b.ID {
			return fmt.Sprintf("packet id %d vs %d", a.ID, b.ID)
		}
	case refcodec.SUBSCRIBE, refcodec.UNSUBSCRIBE:
		if a.ID != b.ID {
			return fmt.Sprintf("packet id %d vs %d", a.ID, b.ID)
		}
		if len(a.Topics) != len(b.Topics) {
			return fmt.Sprintf("%d topics vs %d", len(a.Topics), len(b.Topics))
		}
		for i := range a.Topics {
			if !eqBytes(a.Topics[i], b.Topics[i]) {
				return fmt.Sprintf("topic %d differs", i)
			}
		}
		if a.Type == refcodec.SUBSCRIBE && !eqBytes(a.QoSs, b.QoSs) {
			return "requested QoS list differs"
		}
	case refcodec.SUBACK:
		if a.ID != b.ID || !eqBytes(a.Codes, b.Codes) {
			return "suback id/codes differ"
		}
	case refcodec.PUBACK, refcodec.PUBREC, refcodec.PUBREL, refcodec.PUBCOMP, refcodec.UNSUBACK:
		if a.ID != b.ID {
			return fmt.Sprintf("packet id %d vs %d", a.ID, b.ID)
		}
	}
	return ""
}

func trunc(s string) string {
	if len(s) > 60 {
		return s[:60] + "…"
	}
	return s
}

func hexs(b []byte) string {
	if len(b) > 48 {
		return fmt.Sprintf("%x…(%d bytes)", b[:48], len(b))
	}
	return fmt.Sprintf("%x", b)
}

// pat fills n bytes with a position pattern that contains no wildcard, NUL or
// separator characters (usable for topics, ids and payloads alike).
func pat(n int, salt int) []byte {
	b := make([]byte, n)
	for i := range b {
		b[i] = 'a' + byte((i*7+salt*3+i/26)%26)
	}
	return b
}
