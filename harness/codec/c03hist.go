package codec

import (
	"bytes"
	"fmt"
	"strings"

	"github.com/mdzio/go-mqtt/message"

	"verif/models/refcodec"
)

// Setter histories (C03).  A message object is not a plain record: it caches
// the bytes it was decoded from (dbuf), a "dirty" flag decides whether Encode
// re-serialises the fields or copies the cache, and flag byte and packet
// identifier alias the decoded buffer.  Whether Encode/Len agree with the
// fields therefore depends on the history of the object.  This search
// enumerates EVERY sequence of public setter calls up to a depth, from every
// start state (fresh object, object decoded from each of a few packets, clone
// of a decoded object), mirrors the calls on a plain reference record and
// applies the C03 oracle at the end of each sequence.  Len() and Encode() are
// part of the alphabet because both change the cached state.

type hop struct {
	name string
	// f applies the call to the library object and to the reference record
	f func(m message.Message, p *refcodec.Packet)
}

// canary bytes behind a decoded packet in the caller's buffer; lastBacking is the buffer of the
// start object built last (nil when the start is not a decoded object)
var canary = []byte{0xC7, 0x3C, 0xC7, 0x3C, 0xC7, 0x3C, 0xC7, 0x3C}
var lastBacking []byte

type hstart struct {
	name string
	mk   func() (message.Message, *refcodec.Packet)
}

func decodedStart(p *refcodec.Packet, clone bool) hstart {
	name := "decoded(" + p.String() + ")"
	if clone {
		name = "clone-of-" + name
	}
	return hstart{name, func() (message.Message, *refcodec.Packet) {
		// the packet sits in a larger buffer (as in a stream: the next packet follows); Decode is
		// given the packet's bytes only, what lies behind them is not the object's to touch
		backing := append(refcodec.Encode(p), canary...)
		wire := backing[:len(backing)-len(canary)]
		lastBacking = backing
		m := newMsg(p.Type)
		if _, err := m.Decode(wire); err != nil {
			panic("reference encoding rejected: " + err.Error())
		}
		if clone {
			lastBacking = nil
			c, err := m.(*message.PublishMessage).Clone()
			if err != nil {
				panic("clone: " + err.Error())
			}
			// the original buffer is recycled, as a ring buffer would
			for i := range wire {
				wire[i] = 0xee
			}
			m = c
		}
		q := *p
		q.Topics = append([][]byte(nil), p.Topics...)
		q.QoSs = append([]byte(nil), p.QoSs...)
		q.Codes = append([]byte(nil), p.Codes...)
		return m, &q
	}}
}

func freshStart(t byte) hstart {
	return hstart{"fresh", func() (message.Message, *refcodec.Packet) {
		p := &refcodec.Packet{Type: t}
		if t == refcodec.CONNECT {
			p.ProtoName, p.Level = "MQTT", 4
			m := message.NewConnectMessage()
			m.SetVersion(4)
			return m, p
		}
		return newMsg(t), p
	}}
}

// legal says whether the reference record is a message the property speaks
// about (an application may leave an object in a state that is no MQTT
// packet, e.g. a PUBLISH without topic; nothing is demanded then).
func legal(p *refcodec.Packet) bool {
	switch p.Type {
	case refcodec.PUBLISH:
		return len(p.Topic) > 0 && !(p.QoS == 0 && p.Dup)
	case refcodec.SUBSCRIBE, refcodec.UNSUBSCRIBE:
		return len(p.Topics) > 0
	case refcodec.SUBACK:
		return len(p.Codes) > 0
	case refcodec.CONNECT:
		if !p.Will && (p.WillQoS != 0 || p.WillRetain) {
			return false
		}
		if p.HasPass && !p.HasUser {
			return false
		}
		return len(p.ClientID) > 0 || p.CleanSess
	}
	return true
}

func needsID(p *refcodec.Packet) bool {
	switch p.Type {
	case refcodec.PUBLISH:
		return p.QoS > 0
	case refcodec.SUBSCRIBE, refcodec.UNSUBSCRIBE:
		return true
	}
	return false
}

// checkObject is the C03 oracle for an object with a history.
func (e *enumCtx) checkObject(m message.Message, model *refcodec.Packet, start string, calls []string) {
	e.c.Rep.Evaluations++
	typ := model.Type
	shape := "history/" + strip(start)
	desc := map[string]interface{}{"start": start, "calls": strings.Join(calls, "; ")}
	failf := func(f string, a ...interface{}) {
		e.fail(typ, shape, fmt.Sprintf(f, a...), desc)
	}
	defer func() {
		if r := recover(); r != nil {
			failf("the library panics after a setter history: %v", r)
		}
	}()
	want := *model
	l := m.Len()
	buf := make([]byte, l+4)
	for i := range buf {
		buf[i] = 0xa5
	}
	n, err := m.Encode(buf[:l])
	if err != nil {
		failf("Encode fails for a legal message after a setter history: %v (Len() %d)", err, l)
		return
	}
	if want.ID == 0 && needsID(&want) {
		want.ID = m.(interface{ PacketID() uint16 }).PacketID()
		if want.ID == 0 {
			failf("automatically assigned packet identifier is 0")
			return
		}
	}
	exp := refcodec.Encode(&want)
	if n != l {
		failf("Encode does not write Len() bytes: wrote %d, Len() is %d (fields: %s)", n, l, want.String())
		return
	}
	if !bytes.Equal(buf[:n], exp) {
		failf("encoded bytes differ from the MQTT 3.1.1 encoding of the fields: got %s want %s (fields: %s)", hexs(buf[:n]), hexs(exp), want.String())
		return
	}
	// the destination belongs to the caller, who reuses it: the object must not keep
	// references into it (an identifier assigned during Encode included)
	wire := append([]byte(nil), buf[:n]...)
	for i := range buf {
		buf[i] = 0x5a
	}
	if d := sameFields(&want, fromLib(m)); d != "" {
		failf("getters disagree with the values set (after the caller reused the buffer it had passed to Encode): %s", d)
		return
	}
	m2 := newMsg(typ)
	dn, err := m2.Decode(wire)
	if err != nil || dn != n {
		failf("Decode of the library's own encoding: consumed %d of %d, err=%v", dn, n, err)
		return
	}
	if d := sameFields(&want, fromLib(m2)); d != "" {
		failf("decoded fields differ from the encoded ones: %s", d)
		return
	}
	// a second Encode of the same object gives the same bytes (the first may
	// have assigned an identifier, which must then stick)
	l2 := m.Len()
	buf2 := make([]byte, l2)
	n2, err := m.Encode(buf2)
	if err != nil || n2 != l2 || !bytes.Equal(buf2[:n2], exp) {
		failf("a second Encode of the same object differs: err=%v n=%d Len=%d got %s want %s", err, n2, l2, hexs(buf2[:n2]), hexs(exp))
		return
	}
	k := fmt.Sprintf("hist/%d/%s/%d", typ, strip(start), len(calls))
	if !e.seen[k] {
		e.seen[k] = true
		e.c.Rep.Nontrivial++
	}
}

func pubOps() []hop {
	var ops []hop
	pm := func(m message.Message) *message.PublishMessage { return m.(*message.PublishMessage) }
	for _, q := range []byte{0, 1, 2} {
		q := q
		ops = append(ops, hop{fmt.Sprintf("SetQoS(%d)", q), func(m message.Message, p *refcodec.Packet) { pm(m).SetQoS(q); p.QoS = q }})
	}
	for _, id := range []uint16{7, 0x1234} {
		id := id
		ops = append(ops, hop{fmt.Sprintf("SetPacketID(%d)", id), func(m message.Message, p *refcodec.Packet) { pm(m).SetPacketID(id); p.ID = id }})
	}
	for _, t := range []string{"a/b", "c"} {
		t := t
		ops = append(ops, hop{fmt.Sprintf("SetTopic(%q)", t), func(m message.Message, p *refcodec.Packet) { pm(m).SetTopic([]byte(t)); p.Topic = []byte(t) }})
	}
	for _, pl := range []string{"", "xy"} {
		pl := pl
		ops = append(ops, hop{fmt.Sprintf("SetPayload(%q)", pl), func(m message.Message, p *refcodec.Packet) { pm(m).SetPayload([]byte(pl)); p.Payload = []byte(pl) }})
	}
	for _, b := range []bool{true, false} {
		b := b
		ops = append(ops, hop{fmt.Sprintf("SetRetain(%v)", b), func(m message.Message, p *refcodec.Packet) { pm(m).SetRetain(b); p.Retain = b }})
		ops = append(ops, hop{fmt.Sprintf("SetDup(%v)", b), func(m message.Message, p *refcodec.Packet) { pm(m).SetDup(b); p.Dup = b }})
	}
	return append(ops, lenEncode()...)
}

// lenEncode: Len() and Encode() as calls inside a history.  Encode may assign
// the identifier; the reference record takes it over (it must not be 0).
func lenEncode() []hop {
	return []hop{
		{"Len()", func(m message.Message, p *refcodec.Packet) { m.Len() }},
		{"Encode()", func(m message.Message, p *refcodec.Packet) {
			if !legal(p) {
				// what Encode does to an object that is no packet is not the
				// property's business, but it must not disturb what follows
				b := make([]byte, 64)
				func() {
					defer func() { recover() }()
					m.Encode(b)
				}()
				if needsID(p) && p.ID == 0 {
					p.ID = m.(interface{ PacketID() uint16 }).PacketID()
				}
				return
			}
			b := make([]byte, m.Len())
			m.Encode(b)
			if needsID(p) && p.ID == 0 {
				p.ID = m.(interface{ PacketID() uint16 }).PacketID()
			}
			for i := range b { // the caller reuses its buffer
				b[i] = 0x5a
			}
		}},
	}
}

func subOps() []hop {
	var ops []hop
	sm := func(m message.Message) *message.SubscribeMessage { return m.(*message.SubscribeMessage) }
	add := func(p *refcodec.Packet, t string, q byte) {
		for i := range p.Topics {
			if string(p.Topics[i]) == t {
				p.QoSs[i] = q
				return
			}
		}
		p.Topics = append(p.Topics, []byte(t))
		p.QoSs = append(p.QoSs, q)
	}
	rm := func(p *refcodec.Packet, t string) {
		for i := range p.Topics {
			if string(p.Topics[i]) == t {
				p.Topics = append(append([][]byte(nil), p.Topics[:i]...), p.Topics[i+1:]...)
				p.QoSs = append(append([]byte(nil), p.QoSs[:i]...), p.QoSs[i+1:]...)
				return
			}
		}
	}
	for _, tq := range []struct {
		t string
		q byte
	}{{"a", 0}, {"a", 2}, {"b/#", 1}, {"c", 1}} {
		tq := tq
		ops = append(ops, hop{fmt.Sprintf("AddTopic(%q,%d)", tq.t, tq.q), func(m message.Message, p *refcodec.Packet) { sm(m).AddTopic([]byte(tq.t), tq.q); add(p, tq.t, tq.q) }})
	}
	for _, t := range []string{"a", "b/#"} {
		t := t
		ops = append(ops, hop{fmt.Sprintf("RemoveTopic(%q)", t), func(m message.Message, p *refcodec.Packet) { sm(m).RemoveTopic([]byte(t)); rm(p, t) }})
	}
	for _, id := range []uint16{7, 0x1234} {
		id := id
		ops = append(ops, hop{fmt.Sprintf("SetPacketID(%d)", id), func(m message.Message, p *refcodec.Packet) { sm(m).SetPacketID(id); p.ID = id }})
	}
	return append(ops, lenEncode()...)
}

func unsubOps() []hop {
	var ops []hop
	um := func(m message.Message) *message.UnsubscribeMessage { return m.(*message.UnsubscribeMessage) }
	for _, t := range []string{"a", "b/#", "c"} {
		t := t
		ops = append(ops, hop{fmt.Sprintf("AddTopic(%q)", t), func(m message.Message, p *refcodec.Packet) {
			um(m).AddTopic([]byte(t))
			for _, x := range p.Topics {
				if string(x) == t {
					return
				}
			}
			p.Topics = append(p.Topics, []byte(t))
		}})
	}
	for _, t := range []string{"a", "b/#"} {
		t := t
		ops = append(ops, hop{fmt.Sprintf("RemoveTopic(%q)", t), func(m message.Message, p *refcodec.Packet) {
			um(m).RemoveTopic([]byte(t))
			for i := range p.Topics {
				if string(p.Topics[i]) == t {
					p.Topics = append(append([][]byte(nil), p.Topics[:i]...), p.Topics[i+1:]...)
					return
				}
			}
		}})
	}
	for _, id := range []uint16{7, 0x1234} {
		id := id
		ops = append(ops, hop{fmt.Sprintf("SetPacketID(%d)", id), func(m message.Message, p *refcodec.Packet) { um(m).SetPacketID(id); p.ID = id }})
	}
	return append(ops, lenEncode()...)
}

func subackOps() []hop {
	var ops []hop
	sm := func(m message.Message) *message.SubackMessage { return m.(*message.SubackMessage) }
	for _, c := range []byte{0, 1, 2, 0x80} {
		c := c
		ops = append(ops, hop{fmt.Sprintf("AddReturnCode(%#x)", c), func(m message.Message, p *refcodec.Packet) {
			sm(m).AddReturnCode(c)
			p.Codes = append(append([]byte(nil), p.Codes...), c)
		}})
	}
	for _, id := range []uint16{7, 0x1234} {
		id := id
		ops = append(ops, hop{fmt.Sprintf("SetPacketID(%d)", id), func(m message.Message, p *refcodec.Packet) { sm(m).SetPacketID(id); p.ID = id }})
	}
	// a call that fails half-way: whether the codes in front of the bad one were taken is the
	// library's choice (read back), but fields and bytes agree afterwards
	ops = append(ops, hop{"AddReturnCodes([2 9]) (fails)", func(m message.Message, p *refcodec.Packet) {
		if err := sm(m).AddReturnCodes([]byte{2, 9}); err == nil {
			p.Codes = append(append([]byte(nil), p.Codes...), 2, 9) // accepted an invalid code: the comparison will say so
			return
		}
		got := sm(m).ReturnCodes()
		if len(got) == len(p.Codes)+1 && got[len(got)-1] == 2 {
			p.Codes = append(append([]byte(nil), p.Codes...), 2)
		}
	}})
	return append(ops, lenEncode()...)
}

func connackOps() []hop {
	var ops []hop
	cm := func(m message.Message) *message.ConnackMessage { return m.(*message.ConnackMessage) }
	for _, b := range []bool{true, false} {
		b := b
		ops = append(ops, hop{fmt.Sprintf("SetSessionPresent(%v)", b), func(m message.Message, p *refcodec.Packet) { cm(m).SetSessionPresent(b); p.SessionPresent = b }})
	}
	for _, c := range []byte{0, 1, 5} {
		c := c
		ops = append(ops, hop{fmt.Sprintf("SetReturnCode(%d)", c), func(m message.Message, p *refcodec.Packet) {
			cm(m).SetReturnCode(message.ConnackCode(c))
			p.ReturnCode = c
		}})
	}
	return append(ops, lenEncode()...)
}

func ackOps() []hop {
	var ops []hop
	for _, id := range []uint16{7, 0x1234, 65535} {
		id := id
		ops = append(ops, hop{fmt.Sprintf("SetPacketID(%d)", id), func(m message.Message, p *refcodec.Packet) {
			m.(interface{ SetPacketID(uint16) }).SetPacketID(id)
			p.ID = id
		}})
	}
	return append(ops, lenEncode()...)
}

func connectOps() []hop {
	var ops []hop
	cm := func(m message.Message) *message.ConnectMessage { return m.(*message.ConnectMessage) }
	for _, b := range []bool{true, false} {
		b := b
		ops = append(ops, hop{fmt.Sprintf("SetCleanSession(%v)", b), func(m message.Message, p *refcodec.Packet) { cm(m).SetCleanSession(b); p.CleanSess = b }})
		ops = append(ops, hop{fmt.Sprintf("SetWillRetain(%v)", b), func(m message.Message, p *refcodec.Packet) { cm(m).SetWillRetain(b); p.WillRetain = b }})
	}
	for _, k := range []uint16{0, 300} {
		k := k
		ops = append(ops, hop{fmt.Sprintf("SetKeepAlive(%d)", k), func(m message.Message, p *refcodec.Packet) { cm(m).SetKeepAlive(k); p.KeepAlive = k }})
	}
	for _, id := range []string{"c1", "client-22"} {
		id := id
		ops = append(ops, hop{fmt.Sprintf("SetClientID(%q)", id), func(m message.Message, p *refcodec.Packet) { cm(m).SetClientID([]byte(id)); p.ClientID = []byte(id) }})
	}
	ops = append(ops, hop{"SetWillTopic+SetWillMessage", func(m message.Message, p *refcodec.Packet) {
		cm(m).SetWillTopic([]byte("w/t"))
		cm(m).SetWillMessage([]byte("gone"))
		p.Will, p.WillTopic, p.WillMessage = true, []byte("w/t"), []byte("gone")
	}})
	for _, q := range []byte{0, 2} {
		q := q
		ops = append(ops, hop{fmt.Sprintf("SetWillQos(%d)", q), func(m message.Message, p *refcodec.Packet) { cm(m).SetWillQos(q); p.WillQoS = q }})
	}
	ops = append(ops, hop{"SetUsername(\"u\")", func(m message.Message, p *refcodec.Packet) {
		cm(m).SetUsername([]byte("u"))
		p.HasUser, p.User = true, []byte("u")
	}})
	ops = append(ops, hop{"SetPassword(\"pw\")", func(m message.Message, p *refcodec.Packet) {
		cm(m).SetPassword([]byte("pw"))
		p.HasPass, p.Pass = true, []byte("pw")
	}})
	// the protocol version changed on an object that may have been decoded with the other one
	for _, v := range []byte{3, 4} {
		v := v
		ops = append(ops, hop{fmt.Sprintf("SetVersion(%d)", v), func(m message.Message, p *refcodec.Packet) {
			cm(m).SetVersion(v)
			p.Level = v
			p.ProtoName = "MQTT"
			if v == 3 {
				p.ProtoName = "MQIsdp"
			}
		}})
	}
	// a flag taken back while the value stays in the object: the field is gone from the
	// message, Len() and Encode() have to agree on that
	ops = append(ops, hop{"SetUsernameFlag(false)", func(m message.Message, p *refcodec.Packet) { cm(m).SetUsernameFlag(false); p.HasUser = false }})
	ops = append(ops, hop{"SetPasswordFlag(false)", func(m message.Message, p *refcodec.Packet) { cm(m).SetPasswordFlag(false); p.HasPass = false }})
	ops = append(ops, hop{"SetWillFlag(false)", func(m message.Message, p *refcodec.Packet) { cm(m).SetWillFlag(false); p.Will = false }})
	// a flag set by hand: the field is part of the message, with the value the object holds (none so
	// far: the zero-length string)
	ops = append(ops, hop{"SetUsernameFlag(true)", func(m message.Message, p *refcodec.Packet) { cm(m).SetUsernameFlag(true); p.HasUser = true }})
	ops = append(ops, hop{"SetPasswordFlag(true)", func(m message.Message, p *refcodec.Packet) { cm(m).SetPasswordFlag(true); p.HasPass = true }})
	return append(ops, lenEncode()...)
}

type histFamily struct {
	name   string
	typ    byte
	starts []hstart
	ops    []hop
	dq, dt int // depth quick / thorough
}

// decodeOps: Decode() of another packet into the object at hand (an application
// may keep one message object per type and decode into it again and again).
// Afterwards the object must be exactly what a fresh object decoded from those
// bytes is: nothing of the earlier content may survive.
func decodeOps(ps ...*refcodec.Packet) []hop {
	var ops []hop
	for _, x := range ps {
		x := x
		ops = append(ops, hop{"Decode(" + x.String() + ")", func(m message.Message, p *refcodec.Packet) {
			wire := refcodec.Encode(x)
			if _, err := m.Decode(wire); err != nil {
				panic("reference encoding rejected by a used object: " + err.Error())
			}
			q := *x
			q.Topics = append([][]byte(nil), x.Topics...)
			q.QoSs = append([]byte(nil), x.QoSs...)
			q.Codes = append([]byte(nil), x.Codes...)
			*p = q
		}})
	}
	return ops
}

func histFamilies() []histFamily {
	pub := func(q byte, id uint16, pl string, retain bool) *refcodec.Packet {
		return &refcodec.Packet{Type: refcodec.PUBLISH, QoS: q, ID: id, Topic: []byte("t/0"), Payload: []byte(pl), Retain: retain}
	}
	var fams []histFamily
	ps := []hstart{freshStart(refcodec.PUBLISH)}
	for _, p := range []*refcodec.Packet{pub(0, 0, "hello", false), pub(0, 0, "", false), pub(0, 0, "x", true), pub(1, 9, "hello", false), pub(2, 65535, "", true)} {
		ps = append(ps, decodedStart(p, false), decodedStart(p, true))
	}
	fams = append(fams, histFamily{"publish", refcodec.PUBLISH, ps, append(pubOps(), decodeOps(pub(0, 0, "", false), pub(1, 300, "other", true))...), 4, 5})
	sub := &refcodec.Packet{Type: refcodec.SUBSCRIBE, ID: 3, Topics: [][]byte{[]byte("a"), []byte("b/#")}, QoSs: []byte{0, 1}}
	sub1 := &refcodec.Packet{Type: refcodec.SUBSCRIBE, ID: 65535, Topics: [][]byte{[]byte("c")}, QoSs: []byte{2}}
	fams = append(fams, histFamily{"subscribe", refcodec.SUBSCRIBE, []hstart{freshStart(refcodec.SUBSCRIBE), decodedStart(sub, false), decodedStart(sub1, false)}, append(subOps(), decodeOps(sub1)...), 4, 5})
	unsub := &refcodec.Packet{Type: refcodec.UNSUBSCRIBE, ID: 3, Topics: [][]byte{[]byte("a"), []byte("b/#")}}
	fams = append(fams, histFamily{"unsubscribe", refcodec.UNSUBSCRIBE, []hstart{freshStart(refcodec.UNSUBSCRIBE), decodedStart(unsub, false)}, append(unsubOps(), decodeOps(&refcodec.Packet{Type: refcodec.UNSUBSCRIBE, ID: 9, Topics: [][]byte{[]byte("c")}})...), 4, 5})
	suback := &refcodec.Packet{Type: refcodec.SUBACK, ID: 3, Codes: []byte{0, 0x80}}
	fams = append(fams, histFamily{"suback", refcodec.SUBACK, []hstart{freshStart(refcodec.SUBACK), decodedStart(suback, false)}, append(subackOps(), decodeOps(&refcodec.Packet{Type: refcodec.SUBACK, ID: 9, Codes: []byte{1}})...), 4, 6})
	connack := &refcodec.Packet{Type: refcodec.CONNACK, SessionPresent: true, ReturnCode: 0}
	fams = append(fams, histFamily{"connack", refcodec.CONNACK, []hstart{freshStart(refcodec.CONNACK), decodedStart(connack, false)}, append(connackOps(), decodeOps(&refcodec.Packet{Type: refcodec.CONNACK, ReturnCode: 2})...), 4, 6})
	for _, t := range []byte{refcodec.PUBACK, refcodec.PUBREC, refcodec.PUBREL, refcodec.PUBCOMP, refcodec.UNSUBACK} {
		ack := &refcodec.Packet{Type: t, ID: 513}
		fams = append(fams, histFamily{refcodec.Name(t), t, []hstart{freshStart(t), decodedStart(ack, false)}, append(ackOps(), decodeOps(&refcodec.Packet{Type: t, ID: 2})...), 4, 6})
	}
	conn := &refcodec.Packet{Type: refcodec.CONNECT, ProtoName: "MQTT", Level: 4, CleanSess: true, KeepAlive: 10, ClientID: []byte("abc")}
	connw := &refcodec.Packet{Type: refcodec.CONNECT, ProtoName: "MQTT", Level: 4, KeepAlive: 10, ClientID: []byte("abc"), Will: true, WillQoS: 1, WillTopic: []byte("w"), WillMessage: []byte("m"), HasUser: true, User: []byte("uu"), HasPass: true, Pass: []byte("pp")}
	fams = append(fams, histFamily{"connect", refcodec.CONNECT, []hstart{freshStart(refcodec.CONNECT), decodedStart(conn, false), decodedStart(connw, false)}, append(connectOps(), decodeOps(conn)...), 4, 5})
	return fams
}

// setterHistories runs the search.  The packet identifier counter is reset
// before every history so that automatically assigned identifiers are the same
// on every run.
func setterHistories(e *enumCtx, thorough bool) {
	for _, fam := range histFamilies() {
		depth := fam.dq
		if thorough {
			depth = fam.dt
		}
		e.class = "setter-histories/" + fam.name
		for _, st := range fam.starts {
			idx := make([]int, 0, depth)
			var rec func()
			rec = func() {
				if e.c.Expired() {
					return
				}
				if e.mine() {
					message.VerifSetPacketIDCounter(0)
					lastBacking = nil
					m, model := st.mk()
					calls := make([]string, len(idx))
					panicked := false
					func() {
						defer func() {
							if r := recover(); r != nil {
								panicked = true
								e.fail(fam.typ, "history/"+strip(st.name), fmt.Sprintf("the library panics in a setter history: %v", r), map[string]interface{}{"start": st.name, "calls": strings.Join(calls, "; ")})
							}
						}()
						for i, k := range idx {
							calls[i] = fam.ops[k].name
							fam.ops[k].f(m, model)
						}
					}()
					if panicked {
						return
					}
					if lb := lastBacking; lb != nil && !bytes.Equal(lb[len(lb)-len(canary):], canary) {
						e.fail(fam.typ, "history/"+strip(st.name), fmt.Sprintf("setters on a decoded object wrote into the caller's buffer behind the decoded packet: the %d bytes following it are now %x, were %x", len(canary), lb[len(lb)-len(canary):], canary), map[string]interface{}{"start": st.name, "calls": strings.Join(calls, "; ")})
						return
					}
					e.c.Rep.Executions++
					e.c.Rep.Transitions += int64(len(idx))
					if legal(model) {
						e.checkObject(m, model, st.name, calls)
					}
				}
				if len(idx) == depth {
					return
				}
				for k := range fam.ops {
					idx = append(idx, k)
					rec()
					idx = idx[:len(idx)-1]
				}
			}
			rec()
		}
	}
}
