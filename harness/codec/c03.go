package codec

import (
	"bytes"
	"encoding/json"
	"fmt"
	"strings"

	"github.com/mdzio/go-mqtt/message"
	"verif/harness/core"
	"verif/models/refcodec"
)

type enumCtx struct {
	c     *core.Ctx
	n     int64
	seen  map[string]bool // distinct structural shapes (non-trivial cases)
	stop  bool
	class string
}

func (e *enumCtx) mine() bool {
	i := e.n
	e.n++
	if e.c.NShards > 1 && int(i%int64(e.c.NShards)) != e.c.Shard {
		return false
	}
	if i%4096 == 0 && e.c.Expired() {
		e.stop = true
	}
	return !e.stop
}

func strip(s string) string {
	var b strings.Builder
	for _, r := range s {
		if r < '0' || r > '9' {
			b.WriteRune(r)
		}
	}
	return b.String()
}

// fail records a violation.  The fingerprint is made of the property, the
// packet type, the structural shape and the part of the message before the
// first ':' (the failure class); details after it do not enter the key.
func (e *enumCtx) fail(typ byte, shape, msg string, input interface{}) {
	class := msg
	if i := strings.Index(class, ": "); i >= 0 {
		class = class[:i]
	}
	key := fmt.Sprintf("%s %s %s :: %s", e.c.Prop, refcodec.Name(typ), shape, strip(class))
	in, _ := json.Marshal(input)
	e.c.Violate(key, core.Replay{Scenario: e.class + " " + refcodec.Name(typ), Message: msg, Input: in})
}

// shapeOf summarises the structure of a packet for fingerprints and for
// counting distinct non-trivial cases.
func shapeOf(p *refcodec.Packet) string {
	switch p.Type {
	case refcodec.PUBLISH:
		pl := "payload>0"
		if len(p.Payload) == 0 {
			pl = "payload=0"
		}
		return fmt.Sprintf("qos=%d %s", p.QoS, pl)
	case refcodec.SUBSCRIBE, refcodec.UNSUBSCRIBE:
		k := len(p.Topics)
		switch {
		case k >= 4:
			return "topics>=4"
		default:
			return fmt.Sprintf("topics=%d", k)
		}
	case refcodec.CONNECT:
		return fmt.Sprintf("will=%v user=%v pass=%v", p.Will, p.HasUser, p.HasPass)
	}
	return "-"
}

// roundTrip is the C03 oracle for one message built through the API.
func (e *enumCtx) roundTrip(p *refcodec.Packet, idAuto bool, counter uint64) {
	if !e.mine() {
		return
	}
	e.c.Rep.Evaluations++
	shape := shapeOf(p)
	desc := map[string]interface{}{"packet": p.String(), "auto_id": idAuto, "counter": counter}
	defer func() {
		if r := recover(); r != nil {
			e.fail(p.Type, shape, fmt.Sprintf("the library panics on a legal message: %v", r), desc)
		}
	}()
	if idAuto {
		message.VerifSetPacketIDCounter(counter)
	}
	m, err := build(p, idAuto)
	if err != nil {
		e.fail(p.Type, shape, "the message API refuses legal field values: "+err.Error(), desc)
		return
	}
	want := *p
	l := m.Len()
	buf := make([]byte, l)
	for i := range buf {
		buf[i] = 0xa5
	}
	n, err := m.Encode(buf)
	if err != nil {
		e.fail(p.Type, shape, fmt.Sprintf("Encode fails for a legal message: %v", err), desc)
		return
	}
	if idAuto {
		want.ID = m.PacketID()
		if want.ID == 0 && (p.Type != refcodec.PUBLISH || p.QoS > 0) {
			e.fail(p.Type, shape, "automatically assigned packet identifier is 0", desc)
			return
		}
	}
	exp := refcodec.Encode(&want)
	if n != l {
		e.fail(p.Type, shape, fmt.Sprintf("Encode does not write Len() bytes: wrote %d, Len() is %d", n, l), desc)
		return
	}
	if !bytes.Equal(buf[:n], exp) {
		e.fail(p.Type, shape, fmt.Sprintf("encoded bytes differ from the MQTT 3.1.1 encoding: got %s want %s", hexs(buf[:n]), hexs(exp)), desc)
		return
	}
	// decode what was encoded
	m2 := newMsg(p.Type)
	wire := make([]byte, n)
	copy(wire, buf[:n])
	dn, err := m2.Decode(wire)
	if err != nil {
		e.fail(p.Type, shape, fmt.Sprintf("Decode rejects the library's own encoding: %v", err), desc)
		return
	}
	if dn != n {
		e.fail(p.Type, shape, fmt.Sprintf("Decode does not consume its own encoding: %d of %d bytes", dn, n), desc)
		return
	}
	// the caller reuses the buffer it passed to Encode: the encoded object keeps its fields
	// (an automatically assigned identifier included)
	for i := range buf {
		buf[i] = 0x5a
	}
	if d := sameFields(&want, fromLib(m)); d != "" {
		e.fail(p.Type, shape, "after the caller reused the buffer it had passed to Encode, the encoded object's getters changed: "+d, desc)
		return
	}
	if d := sameFields(&want, fromLib(m2)); d != "" {
		e.fail(p.Type, shape, "decoded fields differ from the encoded ones: "+d, desc)
		return
	}
	// canonical: re-encode reproduces the bytes
	l2 := m2.Len()
	buf2 := make([]byte, l2)
	n2, err := m2.Encode(buf2)
	if err != nil || n2 != l2 || !bytes.Equal(buf2[:n2], wire) {
		e.fail(p.Type, shape, fmt.Sprintf("re-encoding a decoded message does not reproduce the packet: err=%v, %d bytes, Len %d", err, n2, l2), desc)
		return
	}
	k := fmt.Sprintf("%d/%s/%d", p.Type, shape, len(refcodec.VarLen(len(exp)-2)))
	if !e.seen[k] {
		e.seen[k] = true
		e.c.Rep.Nontrivial++
	}
	if e.c.Rep.Evaluations%5000 == 1 {
		e.c.Rep.Sample(map[string]interface{}{"class": e.class, "message": p.String(), "wire": hexs(exp)})
	}
}

// remlen boundaries of the variable-length encoding
func remlenTargets(thorough bool) []int {
	t := []int{0, 1, 127, 128, 16383, 16384}
	if thorough {
		t = append(t, 2097151, 2097152)
	}
	return t
}

func enumPublish(e *enumCtx, thorough bool) {
	topicLens := []int{1, 127, 128}
	if thorough {
		topicLens = append(topicLens, 16383, 16384, 65535)
	} else {
		topicLens = append(topicLens, 65535)
	}
	ids := []uint16{1, 255, 256, 65535}
	for _, tl := range topicLens {
		topic := pat(tl, 1)
		for qos := byte(0); qos <= 2; qos++ {
			var plens []int
			seen := map[int]bool{}
			add := func(n int) {
				if n >= 0 && !seen[n] {
					seen[n] = true
					plens = append(plens, n)
				}
			}
			add(0)
			add(1)
			for _, r := range remlenTargets(thorough) {
				over := 2 + tl
				if qos > 0 {
					over += 2
				}
				add(r - over)
			}
			for _, pl := range plens {
				payload := pat(pl, 2)
				for _, dup := range []bool{false, true} {
					if dup && qos == 0 {
						continue // DUP must be 0 for QoS 0 [MQTT-3.3.1-2]
					}
					for _, retain := range []bool{false, true} {
						p := &refcodec.Packet{Type: refcodec.PUBLISH, Dup: dup, QoS: qos, Retain: retain, Topic: topic, Payload: payload}
						if qos == 0 {
							e.roundTrip(p, false, 0)
							continue
						}
						if pl > 70000 && (dup || retain) {
							// the big sizes are about the length field, not the flags
							continue
						}
						for _, id := range ids {
							q := *p
							q.ID = id
							e.roundTrip(&q, false, 0)
						}
						for _, ctr := range []uint64{0, 254, 65534, 65535, 65536, 131071} {
							e.roundTrip(p, true, ctr)
						}
					}
				}
			}
		}
	}
}

// largePublish: the four-byte remaining-length field (quick tier: three packets
// around its lower boundary; the thorough tier has the boundary in the product).
func largePublish(e *enumCtx) {
	for _, r := range []int{2097151, 2097152, 2097153} {
		for _, qos := range []byte{0, 1} {
			over := 2 + 3
			if qos > 0 {
				over += 2
			}
			p := &refcodec.Packet{Type: refcodec.PUBLISH, QoS: qos, Topic: []byte("t/L"), Payload: pat(r-over, 2)}
			if qos > 0 {
				p.ID = 513
			}
			e.roundTrip(p, false, 0)
		}
	}
}

func enumConnect(e *enumCtx, thorough bool) {
	cids := [][]byte{nil, pat(1, 3), pat(23, 3)}
	kas := []uint16{0, 1, 65535}
	wtopics := [][]byte{pat(1, 4), pat(128, 4)}
	wmsgs := [][]byte{nil, pat(1, 5), pat(65535, 5)}
	users := [][]byte{pat(1, 6), pat(127, 6)}
	passes := [][]byte{pat(1, 7), pat(128, 7)}
	if thorough {
		wmsgs = append(wmsgs, pat(127, 5), pat(128, 5), pat(16383, 5))
		users = append(users, pat(65535, 6))
	}
	for _, lvl := range []byte{3, 4} {
		name := "MQIsdp"
		if lvl == 4 {
			name = "MQTT"
		}
		for _, clean := range []bool{false, true} {
			for _, cid := range cids {
				if len(cid) == 0 && !clean {
					continue
				}
				for _, ka := range kas {
					base := refcodec.Packet{Type: refcodec.CONNECT, ProtoName: name, Level: lvl, CleanSess: clean, ClientID: cid, KeepAlive: ka}
					var wills []refcodec.Packet
					wills = append(wills, base)
					for _, wt := range wtopics {
						for _, wm := range wmsgs {
							for wq := byte(0); wq <= 2; wq++ {
								for _, wr := range []bool{false, true} {
									p := base
									p.Will, p.WillTopic, p.WillMessage, p.WillQoS, p.WillRetain = true, wt, wm, wq, wr
									wills = append(wills, p)
								}
							}
						}
					}
					for _, w := range wills {
						p := w
						e.roundTrip(&p, false, 0)
						for _, u := range users {
							p := w
							p.HasUser, p.User = true, u
							e.roundTrip(&p, false, 0)
							for _, pw := range passes {
								p := w
								p.HasUser, p.User, p.HasPass, p.Pass = true, u, true, pw
								e.roundTrip(&p, false, 0)
							}
						}
					}
				}
			}
		}
	}
}

// topicList returns k pairwise distinct topic filters with the given lengths
// (nil when the lengths are too short to make k distinct ones).
func topicList(k int, lens []int) ([][]byte, []byte) {
	var ts [][]byte
	var qs []byte
	seen := map[string]bool{}
	for i := 0; i < k; i++ {
		l := lens[i%len(lens)]
		t := pat(l, 10+i)
		x := i
		for j := l - 1; j >= 0 && j >= l-4; j-- {
			t[j] = 'a' + byte(x%26)
			x /= 26
		}
		if seen[string(t)] {
			return nil, nil
		}
		seen[string(t)] = true
		ts = append(ts, t)
		qs = append(qs, byte(i%3))
	}
	return ts, qs
}

func enumSubUnsub(e *enumCtx, thorough bool) {
	ks := []int{1, 2, 3, 4, 5, 8, 64}
	if thorough {
		ks = append(ks, 1000)
	}
	lenSets := [][]int{{1}, {3}, {1, 2, 3}, {127}, {128}, {5, 127, 128, 1}}
	if thorough {
		lenSets = append(lenSets, []int{65535}, []int{16383, 16384})
	}
	for _, k := range ks {
		for _, ls := range lenSets {
			if ls[0] >= 16383 && k > 3 {
				continue
			}
			ts, qs := topicList(k, ls)
			if ts == nil {
				continue
			}
			for _, id := range []uint16{1, 255, 256, 65535} {
				e.roundTrip(&refcodec.Packet{Type: refcodec.SUBSCRIBE, ID: id, Topics: ts, QoSs: qs}, false, 0)
				e.roundTrip(&refcodec.Packet{Type: refcodec.UNSUBSCRIBE, ID: id, Topics: ts}, false, 0)
			}
			for _, ctr := range []uint64{0, 65534, 65535, 131071} {
				e.roundTrip(&refcodec.Packet{Type: refcodec.SUBSCRIBE, Topics: ts, QoSs: qs}, true, ctr)
				e.roundTrip(&refcodec.Packet{Type: refcodec.UNSUBSCRIBE, Topics: ts}, true, ctr)
			}
			// all QoS equal variants
			for q := byte(0); q <= 2; q++ {
				qq := bytes.Repeat([]byte{q}, k)
				e.roundTrip(&refcodec.Packet{Type: refcodec.SUBSCRIBE, ID: 7, Topics: ts, QoSs: qq}, false, 0)
			}
		}
	}
}

// overlong: strings that do not fit the two-byte length prefix (65536 bytes and more).
// Such a message has no MQTT encoding: Encode has to refuse it; bytes that decode to
// something else than what was put in are the one thing it must not produce.
func overlong(e *enumCtx) {
	for _, n := range []int{65536, 65539} {
		for _, p := range []*refcodec.Packet{
			{Type: refcodec.SUBSCRIBE, ID: 7, Topics: [][]byte{pat(n, 1)}, QoSs: []byte{1}},
			{Type: refcodec.SUBSCRIBE, ID: 7, Topics: [][]byte{[]byte("a"), pat(n, 2)}, QoSs: []byte{0, 2}},
			{Type: refcodec.UNSUBSCRIBE, ID: 7, Topics: [][]byte{pat(n, 3)}},
			{Type: refcodec.PUBLISH, QoS: 1, ID: 7, Topic: pat(n, 4), Payload: []byte("x")},
		} {
			if !e.mine() {
				continue
			}
			e.c.Rep.Evaluations++
			shape := shapeOf(p) + "/overlong"
			desc := map[string]interface{}{"packet": refcodec.Name(p.Type), "string_length": n}
			func() {
				defer func() {
					if r := recover(); r != nil {
						e.fail(p.Type, shape, fmt.Sprintf("the library panics on a string of %d bytes: %v", n, r), desc)
					}
				}()
				m, err := build(p, false)
				if err != nil {
					return // refused by the setters: fine
				}
				buf := make([]byte, m.Len()+8)
				k, err := m.Encode(buf)
				if err != nil {
					return // refused by Encode: fine
				}
				m2 := newMsg(p.Type)
				dn, derr := m2.Decode(append([]byte(nil), buf[:k]...))
				if derr != nil || dn != k {
					e.fail(p.Type, shape, fmt.Sprintf("Encode accepts a string of %d bytes and writes %d bytes its own decoder does not take (consumed %d, err=%v)", n, k, dn, derr), desc)
					return
				}
				if d := sameFields(p, fromLib(m2)); d != "" {
					e.fail(p.Type, shape, fmt.Sprintf("Encode accepts a string of %d bytes; the bytes decode to other fields: %s", n, d), desc)
				}
			}()
		}
	}
}

func enumSmall(e *enumCtx, thorough bool) {
	for _, sp := range []bool{false, true} {
		for code := byte(0); code <= 5; code++ {
			e.roundTrip(&refcodec.Packet{Type: refcodec.CONNACK, SessionPresent: sp, ReturnCode: code}, false, 0)
		}
	}
	for _, t := range []byte{refcodec.PUBACK, refcodec.PUBREC, refcodec.PUBREL, refcodec.PUBCOMP, refcodec.UNSUBACK} {
		for _, id := range []uint16{1, 2, 127, 128, 255, 256, 32767, 32768, 65534, 65535} {
			e.roundTrip(&refcodec.Packet{Type: t, ID: id}, false, 0)
		}
	}
	for _, t := range []byte{refcodec.PINGREQ, refcodec.PINGRESP, refcodec.DISCONNECT} {
		e.roundTrip(&refcodec.Packet{Type: t}, false, 0)
	}
	ks := []int{1, 2, 3, 4, 5, 8, 64, 125, 126, 127, 1000}
	if thorough {
		ks = append(ks, 16381, 16382)
	}
	for _, k := range ks {
		for _, pattern := range [][]byte{{0}, {1}, {2}, {0x80}, {0, 1, 2, 0x80}, {0x80, 2, 1}} {
			codes := make([]byte, k)
			for i := range codes {
				codes[i] = pattern[i%len(pattern)]
			}
			for _, id := range []uint16{1, 256, 65535} {
				e.roundTrip(&refcodec.Packet{Type: refcodec.SUBACK, ID: id, Codes: codes}, false, 0)
			}
		}
	}
}

// counterHistory: 2*65536+8 consecutive automatically numbered encodes.
func counterHistory(e *enumCtx, thorough bool) {
	type mk func() message.Message
	makers := map[string]mk{
		"PUBLISH": func() message.Message {
			m := message.NewPublishMessage()
			m.SetTopic([]byte("t"))
			m.SetQoS(1)
			m.SetPayload([]byte("p"))
			return m
		},
		"SUBSCRIBE": func() message.Message {
			m := message.NewSubscribeMessage()
			m.AddTopic([]byte("t"), 1)
			return m
		},
		"UNSUBSCRIBE": func() message.Message {
			m := message.NewUnsubscribeMessage()
			m.AddTopic([]byte("t"))
			return m
		},
	}
	names := []string{"PUBLISH", "SUBSCRIBE", "UNSUBSCRIBE"}
	for _, start := range []uint64{0, 65530} {
		for _, name := range names {
			if !e.mine() {
				continue
			}
			message.VerifSetPacketIDCounter(start)
			total := 2*65536 + 8
			buf := make([]byte, 64)
			for i := 0; i < total; i++ {
				m := makers[name]()
				l := m.Len()
				n, err := m.Encode(buf[:l])
				e.c.Rep.Evaluations++
				msg := ""
				if err != nil {
					msg = fmt.Sprintf("Encode fails: %v", err)
				} else if n != l {
					msg = fmt.Sprintf("Encode does not write Len() bytes: wrote %d, Len() is %d", n, l)
				} else if p, _, derr := refcodec.Decode(buf[:n]); derr != nil {
					msg = fmt.Sprintf("packet is malformed: %s", hexs(buf[:n]))
				} else if p.ID == 0 {
					msg = "automatically assigned packet identifier is 0"
				}
				if msg != "" {
					e.fail(map[string]byte{"PUBLISH": 3, "SUBSCRIBE": 8, "UNSUBSCRIBE": 10}[name], "counter-history",
						msg, map[string]interface{}{"start_counter": start, "encode_number": i + 1})
					break
				}
			}
			k := fmt.Sprintf("hist/%s/%d", name, start)
			if !e.seen[k] {
				e.seen[k] = true
				e.c.Rep.Nontrivial++
			}
		}
	}
}

var alphabet = []byte{0x00, 0x01, 0x02, 0x03, 0x04, 0x7f, 0x80, 0xff}

// acceptedStrings: every byte string up to maxLen whose first byte carries the
// type nibble and that is exactly one frame by its fixed header; if the decoder
// accepts it, re-encoding must reproduce it.
func acceptedStrings(e *enumCtx, maxLen int) {
	for typ := byte(1); typ <= 14; typ++ {
		for fl := byte(0); fl < 16; fl++ {
			first := typ<<4 | fl
			for L := 2; L <= maxLen; L++ {
				if !e.mine() {
					continue
				}
				buf := make([]byte, L)
				idx := make([]int, L-1)
				for {
					buf[0] = first
					for i, a := range idx {
						buf[i+1] = alphabet[a]
					}
					if _, _, _, total, err := refcodec.Frame(buf); err == nil && total == L {
						e.c.Rep.Evaluations++
						checkCanonical(e, typ, buf)
					}
					// next string
					i := len(idx) - 1
					for i >= 0 {
						idx[i]++
						if idx[i] < len(alphabet) {
							break
						}
						idx[i] = 0
						i--
					}
					if i < 0 {
						break
					}
				}
			}
		}
	}
}

func checkCanonical(e *enumCtx, typ byte, in []byte) {
	var m message.Message
	var n int
	var err error
	wire := append([]byte(nil), in...)
	func() {
		defer func() {
			if r := recover(); r != nil {
				err = fmt.Errorf("panic") // C04's business
			}
		}()
		m = newMsg(typ)
		n, err = m.Decode(wire)
	}()
	if err != nil {
		return
	}
	shape := "accepted-string"
	desc := map[string]interface{}{"input": fmt.Sprintf("%x", in)}
	k := fmt.Sprintf("acc/%d/%d", typ, len(in))
	if !e.seen[k] {
		e.seen[k] = true
		e.c.Rep.Nontrivial++
	}
	// (how many bytes Decode reports is C04's business; here only the
	// re-encoding counts)
	_ = n
	l := m.Len()
	out := make([]byte, l)
	n2, err := m.Encode(out)
	if err != nil || n2 != l || !bytes.Equal(out[:n2], in) {
		e.fail(typ, shape, fmt.Sprintf("re-encoding an accepted packet does not reproduce it: in=%x out=%x err=%v", in, out[:n2], err), desc)
	}
}

// paddedLengths: every packet of the valid corpus with its remaining length
// written in more bytes than necessary (1, 2, ... up to the 4-byte maximum).
// No conformant sender produces these, but the decoders accept them, and what
// a decoder accepts must re-encode to the same bytes with Encode writing
// Len() bytes.
func paddedLengths(e *enumCtx) {
	for _, p := range corpus() {
		if !e.mine() {
			continue
		}
		wire := refcodec.Encode(p)
		_, _, body, total, err := refcodec.Frame(wire)
		if err != nil || total != len(wire) {
			continue
		}
		min := len(wire) - len(body) - 1
		for k := min + 1; k <= 4; k++ {
			// k-byte encoding of len(body)
			v := len(body)
			var vl []byte
			for i := 0; i < k; i++ {
				d := byte(v & 127)
				v >>= 7
				if i < k-1 {
					d |= 128
				}
				vl = append(vl, d)
			}
			in := append(append([]byte{wire[0]}, vl...), body...)
			e.c.Rep.Evaluations++
			checkCanonical(e, p.Type, in)
		}
	}
}

// C03: the codec round-trips and is canonical.
func C03(c *core.Ctx) {
	e := &enumCtx{c: c, seen: map[string]bool{}}
	th := c.Thorough()
	c.Rep.Bound = "field products over boundary alphabets (the four-byte length boundary 2097151/2097152 in both tiers); accepted byte strings up to 7 bytes over an 8-value byte alphabet; every corpus packet with a non-minimally encoded remaining length; 2 x (2*65536+8) automatically numbered encodes per type; every sequence of public setter / Len / Encode calls up to depth 4 (quick) / 5-6 (thorough) on fresh, decoded and cloned objects of 11 packet types"
	c.Rep.Rule = "ENUM: nested loops over boundary values of every field of all 14 packet types (string/payload lengths, remaining lengths at varint boundaries, flags, 1..1000 topics, packet ids incl. automatic ones at counter wrap); a case is distinct+non-trivial per (type, structural shape, length of the remaining-length field); oracle = independent reference codec; setter histories: the calls are mirrored on a plain reference record, and at the end of every sequence Len/Encode/getters/Decode must agree with it"
	if c.Replay != nil {
		fmt.Printf("replay of an input-enumeration finding: class %q\n  %s\n  input: %s\n", c.Replay.Scenario, c.Replay.Message, string(c.Replay.Input))
		c.Rep.Scenarios = 1
		return
	}
	for _, cl := range []struct {
		name string
		f    func(*enumCtx, bool)
	}{{"publish", enumPublish}, {"connect", enumConnect}, {"sub/unsub", enumSubUnsub}, {"small", enumSmall}, {"counter-history", counterHistory}} {
		e.class = cl.name
		cl.f(e, th)
		c.Rep.Scenarios++
	}
	if !th {
		// every shard walks the list; roundTrip's mine() hands each packet to one of them
		// (restricting the walk to shard 0 as well left that shard with one packet in sixteen)
		e.class = "large-publish"
		largePublish(e)
	}
	e.class = "overlong-strings"
	overlong(e)
	setterHistories(e, th)
	c.Rep.Scenarios++
	e.class = "padded-lengths"
	paddedLengths(e)
	c.Rep.Scenarios++
	e.class = "accepted-strings"
	maxLen := 6
	if th {
		maxLen = 7
	}
	acceptedStrings(e, maxLen)
	c.Rep.Scenarios++
}

func init() {
	core.Register("C03", C03)
	core.Register("C04", C04)
}
