package codec

import (
	"fmt"

	"github.com/mdzio/go-mqtt/message"
	"verif/harness/core"
	"verif/models/refcodec"
)

// corpus returns valid packets of every structural shape, at most 300 bytes each.
func corpus() []*refcodec.Packet {
	var c []*refcodec.Packet
	add := func(p refcodec.Packet) { q := p; c = append(c, &q) }
	for _, lvl := range []byte{3, 4} {
		name := "MQIsdp"
		if lvl == 4 {
			name = "MQTT"
		}
		base := refcodec.Packet{Type: refcodec.CONNECT, ProtoName: name, Level: lvl, CleanSess: true, ClientID: []byte("cid"), KeepAlive: 30}
		add(base)
		p := base
		p.ClientID = nil
		add(p)
		p = base
		p.CleanSess = false
		p.Will, p.WillTopic, p.WillMessage, p.WillQoS, p.WillRetain = true, []byte("w/t"), []byte("gone"), 1, true
		add(p)
		p.WillMessage = nil
		p.WillQoS = 2
		add(p)
		p.HasUser, p.User = true, []byte("user")
		add(p)
		p.HasPass, p.Pass = true, []byte("secret")
		add(p)
		p = base
		p.HasUser, p.User, p.HasPass, p.Pass = true, []byte("u"), true, pat(130, 1)
		add(p)
		// zero-length strings are strings: an empty user name with a password, both empty, an
		// empty password, an empty will message behind a will topic of one character
		p = base
		p.HasUser, p.User, p.HasPass, p.Pass = true, nil, true, []byte("secret")
		add(p)
		p.Pass = nil
		add(p)
		p.User = []byte("u")
		add(p)
		p = base
		p.Will, p.WillTopic, p.WillMessage = true, []byte("w"), nil
		add(p)
	}
	for _, sp := range []bool{false, true} {
		for code := byte(0); code <= 5; code++ {
			add(refcodec.Packet{Type: refcodec.CONNACK, SessionPresent: sp, ReturnCode: code})
		}
	}
	for qos := byte(0); qos <= 2; qos++ {
		for _, pl := range []int{0, 1, 5, 120, 200} {
			for _, tl := range []int{1, 3, 60} {
				p := refcodec.Packet{Type: refcodec.PUBLISH, QoS: qos, Topic: pat(tl, 2), Payload: pat(pl, 3), Retain: pl == 5, Dup: qos > 0 && pl == 1}
				if qos > 0 {
					p.ID = 0x1234
				}
				add(p)
			}
		}
	}
	for _, t := range []byte{refcodec.PUBACK, refcodec.PUBREC, refcodec.PUBREL, refcodec.PUBCOMP, refcodec.UNSUBACK} {
		add(refcodec.Packet{Type: t, ID: 1})
		add(refcodec.Packet{Type: t, ID: 0xff80})
	}
	for _, k := range []int{1, 2, 3, 4, 5, 8} {
		ts, qs := topicList(k, []int{1, 3, 2, 7})
		add(refcodec.Packet{Type: refcodec.SUBSCRIBE, ID: 10, Topics: ts, QoSs: qs})
		add(refcodec.Packet{Type: refcodec.UNSUBSCRIBE, ID: 11, Topics: ts})
		codes := make([]byte, k)
		for i := range codes {
			codes[i] = []byte{0, 1, 2, 0x80}[i%4]
		}
		add(refcodec.Packet{Type: refcodec.SUBACK, ID: 12, Codes: codes})
	}
	// repeated filters in one request (well-formed: one return code per entry is due)
	rep := [][]byte{[]byte("a/b"), []byte("c"), []byte("a/b"), []byte("c")}
	add(refcodec.Packet{Type: refcodec.SUBSCRIBE, ID: 20, Topics: rep, QoSs: []byte{0, 1, 2, 1}})
	add(refcodec.Packet{Type: refcodec.UNSUBSCRIBE, ID: 21, Topics: rep})
	add(refcodec.Packet{Type: refcodec.SUBSCRIBE, ID: 22, Topics: [][]byte{[]byte("x"), []byte("x")}, QoSs: []byte{1, 1}})
	ts, qs := topicList(2, []int{127, 128})
	add(refcodec.Packet{Type: refcodec.SUBSCRIBE, ID: 300, Topics: ts, QoSs: qs})
	add(refcodec.Packet{Type: refcodec.UNSUBSCRIBE, ID: 301, Topics: ts})
	for _, t := range []byte{refcodec.PINGREQ, refcodec.PINGRESP, refcodec.DISCONNECT} {
		add(refcodec.Packet{Type: t})
	}
	return c
}

type c04 struct {
	*enumCtx
	bufs map[int][]byte // one exact-capacity buffer per length
}

func (x *c04) buf(n int) []byte {
	b := x.bufs[n]
	if b == nil {
		b = make([]byte, n, n)
		x.bufs[n] = b
	}
	return b
}

// one feeds input to the decoder of type typ and applies the C04 oracle.
func (x *c04) one(typ byte, input []byte, origin string) {
	x.c.Rep.Evaluations++
	in := x.buf(len(input))
	copy(in, input)
	var m message.Message
	var n int
	var err error
	var pan interface{}
	func() {
		defer func() { pan = recover() }()
		m = newMsg(typ)
		n, err = m.Decode(in)
	}()
	desc := map[string]interface{}{"decoder": refcodec.Name(typ), "input": fmt.Sprintf("%x", input), "origin": origin}
	if pan != nil {
		x.fail(typ, origin, fmt.Sprintf("Decode panics: %v", pan), desc)
		return
	}
	if n < 0 || n > len(in) {
		x.fail(typ, origin, fmt.Sprintf("Decode returned a byte count outside the input: %d for %d bytes", n, len(in)), desc)
		return
	}
	ref, rn, rerr := refcodec.Decode(input)
	refOK := rerr == nil && ref.Type == typ && refcodec.WellFormed(ref) && mustAccept(ref)
	if err != nil {
		if refOK {
			x.fail(typ, origin, fmt.Sprintf("a well-formed packet is rejected: %v", err), desc)
		}
		return
	}
	// what an accepted packet consists of is fixed by its own fixed header: nothing
	// behind fixed header + remaining length belongs to it, whatever follows in the slice
	if _, _, _, total, ferr := refcodec.Frame(input); ferr == nil && n > total {
		x.fail(typ, origin, fmt.Sprintf("Decode consumed %d bytes, the packet (fixed header + remaining length) has %d: bytes behind the packet were taken for part of it", n, total), desc)
		return
	}
	for _, s := range fieldSlices(m) {
		if !inside(s, in, n) {
			x.fail(typ, origin, fmt.Sprintf("a returned field lies outside the decoded packet: n=%d", n), desc)
			return
		}
	}
	// a packet that is well-formed but for its remaining length being written in more bytes than
	// necessary: the decoder may refuse it; if it takes it, it is that packet
	if !refOK && rerr == nil && ref.Type == typ && ref.NonMinimalLength {
		cp := *ref
		cp.NonMinimalLength = false
		if refcodec.WellFormed(&cp) && mustAccept(&cp) {
			if n != rn {
				x.fail(typ, origin, fmt.Sprintf("Decode accepts a packet with a non-minimal length field but consumes %d of its %d bytes", n, rn), desc)
				return
			}
			if d := sameFields(ref, fromLib(m)); d != "" {
				x.fail(typ, origin, "wrong field values for an accepted packet with a non-minimal length field: "+d, desc)
				return
			}
		}
	}
	if refOK {
		if n != rn {
			x.fail(typ, origin, fmt.Sprintf("Decode does not consume a well-formed packet: %d of %d bytes", n, rn), desc)
			return
		}
		if d := sameFields(ref, fromLib(m)); d != "" {
			x.fail(typ, origin, "wrong field values for a well-formed packet: "+d, desc)
			return
		}
		k := fmt.Sprintf("ok/%d/%s", typ, shapeOf(ref))
		if !x.seen[k] {
			x.seen[k] = true
			x.c.Rep.Nontrivial++
		}
	} else {
		k := fmt.Sprintf("acc-malformed/%d/%d", typ, len(input))
		if !x.seen[k] {
			x.seen[k] = true
			x.c.Rep.Nontrivial++
		}
	}
}

// mustAccept: well-formed packets the library may still refuse by the letter
// of the specification (client identifiers outside 1..23 alphanumerics).
func mustAccept(p *refcodec.Packet) bool {
	if p.Type == refcodec.CONNECT {
		if len(p.ClientID) > 23 {
			return false
		}
		for _, c := range p.ClientID {
			if !(c >= '0' && c <= '9' || c >= 'a' && c <= 'z' || c >= 'A' && c <= 'Z') {
				return false
			}
		}
	}
	return true
}

var repl = []byte{0x00, 0x01, 0x02, 0x7f, 0x80, 0xfe, 0xff}

// C04: decoders are total.
func C04(c *core.Ctx) {
	e := &enumCtx{c: c, seen: map[string]bool{}}
	x := &c04{enumCtx: e, bufs: map[int][]byte{}}
	th := c.Thorough()
	c.Rep.Bound = "well-formed PUBLISH packets of 2 MiB (four-byte length field), whole and cut short; all byte strings up to 6 (quick) / 7 (thorough) bytes over an 8-value alphabet x 30 first bytes x 14 decoders; every truncation, every frame ending early (remaining length adjusted), every wrong remaining length, every non-minimal length field (whole, truncated, with trailing bytes) and every single-byte replacement (9 values per position) of a valid corpus; thorough: every pair of replacements within the first 24 bytes"
	c.Rep.Rule = "ENUM with deviation bound (0, 1, 2 corrupted bytes); every input is presented in a slice with cap == len; oracle: no panic, 0 <= n <= len, fields inside input[:n], and agreement with the reference codec on every well-formed packet; distinct non-trivial = distinct (decoder, shape) accepted as well-formed plus distinct (decoder, length) accepted though malformed"
	if c.Replay != nil {
		fmt.Printf("replay of an input-enumeration finding: class %q\n  %s\n  input: %s\n", c.Replay.Scenario, c.Replay.Message, string(c.Replay.Input))
		c.Rep.Scenarios = 1
		return
	}
	// (i) short strings
	e.class = "short-strings"
	maxLen := 6
	if th {
		maxLen = 7
	}
	for typ := byte(1); typ <= 14; typ++ {
		var firsts []byte
		for fl := byte(0); fl < 16; fl++ {
			firsts = append(firsts, typ<<4|fl)
		}
		for t2 := byte(0); t2 <= 15; t2++ {
			if t2 != typ {
				firsts = append(firsts, t2<<4|(&refcodec.Packet{Type: t2}).FixedFlags())
			}
		}
		if e.mine() {
			x.one(typ, nil, "empty")
		}
		for _, first := range firsts {
			for L := 1; L <= maxLen; L++ {
				if !e.mine() {
					continue
				}
				buf := make([]byte, L)
				idx := make([]int, L-1)
				for {
					buf[0] = first
					for i, a := range idx {
						buf[i+1] = alphabet[a]
					}
					x.one(typ, buf, "short-string")
					i := len(idx) - 1
					for i >= 0 {
						idx[i]++
						if idx[i] < len(alphabet) {
							break
						}
						idx[i] = 0
						i--
					}
					if i < 0 {
						break
					}
				}
			}
		}
	}
	c.Rep.Scenarios++
	// (i') well-formed packets whose remaining length needs the fourth length byte
	// (2 MiB and more), whole and cut short by one byte
	if c.NShards <= 1 || c.Shard == 0 {
		e.class = "large"
		for _, r := range []int{2097151, 2097152, 2097160} {
			p := &refcodec.Packet{Type: refcodec.PUBLISH, QoS: 1, ID: 77, Topic: []byte("t/L"), Payload: pat(r-2-3-2, 5)}
			wire := refcodec.Encode(p)
			x.one(refcodec.PUBLISH, wire, "valid-large")
			x.one(refcodec.PUBLISH, wire[:len(wire)-1], "truncated-large")
			x.one(refcodec.SUBSCRIBE, wire, "foreign-decoder")
		}
	}
	// (ii-0) a decoder object that has been used: every ordered pair of corpus packets of one
	// type is decoded into one object; the second decode yields the second packet's fields,
	// count and all, whatever the first one left in the object
	e.class = "corpus-used-object"
	for _, a := range corpus() {
		for _, b := range corpus() {
			if a.Type != b.Type || !refcodec.WellFormed(a) || !refcodec.WellFormed(b) || !mustAccept(a) || !mustAccept(b) {
				continue
			}
			if !e.mine() {
				continue
			}
			c.Rep.Evaluations++
			wa, wb := refcodec.Encode(a), refcodec.Encode(b)
			var m message.Message
			var n int
			var err error
			var pan interface{}
			func() {
				defer func() { pan = recover() }()
				m = newMsg(a.Type)
				if _, err = m.Decode(wa); err != nil {
					return
				}
				n, err = m.Decode(wb)
			}()
			desc := map[string]interface{}{"decoder": refcodec.Name(a.Type), "first": fmt.Sprintf("%x", wa), "second": fmt.Sprintf("%x", wb)}
			switch {
			case pan != nil:
				x.fail(a.Type, "used-object", fmt.Sprintf("Decode panics on a used object: %v", pan), desc)
			case err != nil:
				x.fail(a.Type, "used-object", "a well-formed packet is rejected by an object that decoded another packet before: "+err.Error(), desc)
			case n != len(wb):
				x.fail(a.Type, "used-object", fmt.Sprintf("Decode into a used object consumes %d of %d bytes", n, len(wb)), desc)
			default:
				if d := sameFields(b, fromLib(m)); d != "" {
					x.fail(a.Type, "used-object", "wrong field values for a well-formed packet decoded into a used object: "+d, desc)
				}
			}
			if c.HasViolation() {
				return
			}
		}
	}
	c.Rep.Scenarios++
	// (ii) corpus: valid, truncated, corrupted
	e.class = "corpus"
	for _, p := range corpus() {
		wire := refcodec.Encode(p)
		if !e.mine() {
			continue
		}
		x.one(p.Type, wire, "valid")
		// the same bytes through every other decoder
		for typ := byte(1); typ <= 14; typ++ {
			if typ != p.Type {
				x.one(typ, wire, "foreign-decoder")
			}
		}
		for cut := 0; cut < len(wire); cut++ {
			x.one(p.Type, wire[:cut], "truncated")
		}
		// a frame that ends early: the remaining length says k, and k body bytes follow
		// (what the ring hands over when a sender announces less than the packet needs);
		// and the whole packet with every remaining length 0..len(body)+2
		if _, _, body, total, err := refcodec.Frame(wire); err == nil && total == len(wire) && len(body) < 400 {
			for k := 0; k < len(body); k++ {
				adj := append(append([]byte{wire[0]}, refcodec.VarLen(k)...), body[:k]...)
				x.one(p.Type, adj, "frame-ending-early")
			}
			for k := 0; k <= len(body)+2; k++ {
				if k == len(body) {
					continue
				}
				adj := append(append([]byte{wire[0]}, refcodec.VarLen(k)...), body...)
				x.one(p.Type, adj, "wrong-remaining-length")
			}
		}
		// the remaining length written in more bytes than necessary (the decoders take these),
		// whole, cut short and followed by other bytes
		for pad := 1; pad <= 3; pad++ {
			q := *p
			q.PadLength = pad
			pw := refcodec.Encode(&q)
			if len(pw) != len(wire)+pad {
				break // the length field has its four bytes
			}
			x.one(p.Type, pw, "padded-length")
			x.one(p.Type, append(append([]byte{}, pw...), 0xff, 0x00), "padded-length+trailing-bytes")
			for cut := 1; cut < len(pw) && cut < 64; cut++ {
				x.one(p.Type, pw[:cut], "padded-length-truncated")
			}
			x.one(p.Type, pw[:len(pw)-1], "padded-length-truncated")
		}
		// trailing bytes after a whole packet (the ring hands over exact frames,
		// but the API takes any slice): the decoder must stop at the packet's end
		for _, tail := range [][]byte{{0x00}, {0xff, 0xff, 0xff}, wire[:min(len(wire), 3)]} {
			x.one(p.Type, append(append([]byte{}, wire...), tail...), "valid+trailing-bytes")
		}
		mut := make([]byte, len(wire))
		for pos := 0; pos < len(wire); pos++ {
			orig := wire[pos]
			for _, v := range append(append([]byte{}, repl...), orig^0x01, orig^0x80) {
				if v == orig {
					continue
				}
				copy(mut, wire)
				mut[pos] = v
				x.one(p.Type, mut, "one-byte-corrupted")
				if th && pos < 24 {
					for pos2 := pos + 1; pos2 < len(wire) && pos2 < 24; pos2++ {
						o2 := wire[pos2]
						for _, v2 := range append(append([]byte{}, repl...), o2^0x01, o2^0x80) {
							if v2 == o2 {
								continue
							}
							mut[pos2] = v2
							x.one(p.Type, mut, "two-bytes-corrupted")
						}
						mut[pos2] = o2
					}
				}
			}
		}
	}
	c.Rep.Scenarios++
	c.Rep.Sample(map[string]interface{}{"class": "corpus", "packets": len(corpus()), "example": corpus()[3].String(), "wire": hexs(refcodec.Encode(corpus()[3]))})
}

// HostileStreams returns byte strings for the hostile-client checks: the valid
// corpus, every truncation of each packet and single-byte corruptions of the
// length and flag fields.
func HostileStreams(thorough bool) [][]byte {
	var out [][]byte
	seen := map[string]bool{}
	add := func(b []byte) {
		if !seen[string(b)] {
			seen[string(b)] = true
			out = append(out, append([]byte(nil), b...))
		}
	}
	for _, p := range corpus() {
		wire := refcodec.Encode(p)
		if len(wire) > 120 {
			continue
		}
		add(wire)
		step := 1
		if !thorough && len(wire) > 12 {
			step = 3
		}
		for cut := 1; cut < len(wire); cut += step {
			add(wire[:cut])
		}
		// frames that end early (remaining length adjusted to what follows)
		if _, _, body, total, err := refcodec.Frame(wire); err == nil && total == len(wire) && len(body) <= 60 {
			st := 1
			if !thorough {
				st = 4
			}
			for k := 0; k < len(body); k += st {
				add(append(append([]byte{wire[0]}, refcodec.VarLen(k)...), body[:k]...))
			}
		}
		lim := len(wire)
		if lim > 8 && !thorough {
			lim = 8
		}
		for pos := 0; pos < lim; pos++ {
			for _, v := range []byte{0x00, 0x7f, 0x80, 0xff, wire[pos] ^ 0x01, wire[pos] ^ 0x10} {
				if v != wire[pos] {
					m := append([]byte(nil), wire...)
					m[pos] = v
					add(m)
				}
			}
		}
	}
	return out
}
