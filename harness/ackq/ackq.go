// Package ackq drives the real sessions.Ackqueue against a list model (C13).
package ackq

import (
	"bytes"
	"encoding/json"
	"fmt"
	"strings"

	"github.com/mdzio/go-mqtt/message"
	"github.com/mdzio/go-mqtt/sessions"
	"github.com/mdzio/go-mqtt/verifrt/vsched"
	"verif/engine/explore"
	"verif/harness/core"
	"verif/models/refcodec"
)

// ---- reference model: a plain list -------------------------------------

type entry struct {
	id    uint16
	mtype byte
	msg   []byte // wire bytes of the request
	state byte   // last ack type seen, 0 none
	ack   []byte
}

type listq struct {
	q     []entry
	ping  *entry // at most one in the single-slot model the implementation documents
	pings []entry
}

func terminal(t byte) bool {
	switch t {
	case refcodec.PUBACK, refcodec.PUBREL, refcodec.PUBCOMP, refcodec.SUBACK, refcodec.UNSUBACK:
		return true
	}
	return false
}

// find returns the newest entry with that identifier: an identifier may be used again once
// the request that carried it has reached its terminal acknowledgement, even while that
// request still waits for earlier ones to be handed back.
func (l *listq) find(id uint16) int {
	for i := len(l.q) - 1; i >= 0; i-- {
		if l.q[i].id == id {
			return i
		}
	}
	return -1
}

// ---- operations ----------------------------------------------------------

type opKind int

const (
	opWait opKind = iota
	opAck
	opAcked
)

type op struct {
	kind  opKind
	mtype byte // request type for wait, ack type for ack
	qos   byte
	dup   bool
	id    uint16
	alt   bool // acknowledgement with other content (SUBACK with another return code)
	pad   bool // acknowledgement whose remaining length is written in one byte more than necessary
}

func (o op) String() string {
	switch o.kind {
	case opWait:
		if o.mtype == refcodec.PUBLISH {
			return fmt.Sprintf("Wait(PUBLISH q%d id=%d dup=%v)", o.qos, o.id, o.dup)
		}
		if o.mtype == refcodec.PINGREQ {
			return "Wait(PINGREQ)"
		}
		return fmt.Sprintf("Wait(%s id=%d)", refcodec.Name(o.mtype), o.id)
	case opAck:
		if o.mtype == refcodec.PINGRESP {
			return "Ack(PINGRESP)"
		}
		if o.alt {
			return fmt.Sprintf("Ack(%s id=%d, other return code)", refcodec.Name(o.mtype), o.id)
		}
		if o.pad {
			return fmt.Sprintf("Ack(%s id=%d, length field padded)", refcodec.Name(o.mtype), o.id)
		}
		return fmt.Sprintf("Ack(%s id=%d)", refcodec.Name(o.mtype), o.id)
	}
	return "Acked()"
}

// request builds the packet a Wait registers.
func request(o op, salt int) *refcodec.Packet {
	switch o.mtype {
	case refcodec.PUBLISH:
		return &refcodec.Packet{Type: refcodec.PUBLISH, QoS: o.qos, Dup: o.dup, ID: o.id, Topic: []byte(fmt.Sprintf("t/%d", o.id)), Payload: []byte(fmt.Sprintf("payload-%d-%d", o.id, salt))}
	case refcodec.SUBSCRIBE:
		return &refcodec.Packet{Type: refcodec.SUBSCRIBE, ID: o.id, Topics: [][]byte{[]byte(fmt.Sprintf("s/%d/%d", o.id, salt))}, QoSs: []byte{1}}
	case refcodec.UNSUBSCRIBE:
		return &refcodec.Packet{Type: refcodec.UNSUBSCRIBE, ID: o.id, Topics: [][]byte{[]byte(fmt.Sprintf("u/%d/%d", o.id, salt))}}
	}
	return &refcodec.Packet{Type: refcodec.PINGREQ}
}

func ackPacket(o op) *refcodec.Packet {
	switch o.mtype {
	case refcodec.SUBACK:
		if o.alt {
			return &refcodec.Packet{Type: refcodec.SUBACK, ID: o.id, Codes: []byte{0x80}} // same length, other content
		}
		return &refcodec.Packet{Type: refcodec.SUBACK, ID: o.id, Codes: []byte{1}}
	case refcodec.PINGRESP:
		return &refcodec.Packet{Type: refcodec.PINGRESP}
	}
	if o.pad {
		return &refcodec.Packet{Type: o.mtype, ID: o.id, PadLength: 1}
	}
	return &refcodec.Packet{Type: o.mtype, ID: o.id}
}

// decodeLib turns wire bytes into a library message that aliases buf.
func decodeLib(typ byte, buf []byte) (message.Message, error) {
	m, err := message.Type(typ).New()
	if err != nil {
		return nil, err
	}
	_, err = m.Decode(buf)
	return m, err
}

// instance couples the real queue with the model.
type instance struct {
	aq    *sessions.Ackqueue
	model listq
	salt  int
	// released so far, in order
	released []string
	// the entries handed back by the last Acked(), with what they must contain:
	// they belong to the caller, later registrations must not change them
	lastBatch []sessions.AckMsg
	lastWant  []entry
	// pingModel: "queue" = any number of outstanding pings complete in order,
	// "slot" = the documented single slot
}

func newInstance(cap int) *instance {
	return &instance{aq: sessions.VerifNewAckqueue(cap)}
}

// apply runs one operation on both; returns a violation or "".
func (in *instance) apply(o op) string {
	if v := in.apply1(o); v != "" {
		return v
	}
	if o.kind != opAcked {
		for i, g := range in.lastBatch {
			w := in.lastWant[i]
			if !bytes.Equal(g.Msgbuf, w.msg) || !bytes.Equal(g.Ackbuf, w.ack) {
				return fmt.Sprintf("an entry handed back earlier (id=%d) changed under its owner when %s was executed: request bytes now %x, were %x", g.Pktid, o, g.Msgbuf, w.msg)
			}
		}
	}
	return ""
}

func (in *instance) apply1(o op) string {
	switch o.kind {
	case opWait:
		in.salt++
		p := request(o, in.salt)
		wire := refcodec.Encode(p)
		buf := append([]byte(nil), wire...)
		m, err := decodeLib(p.Type, buf)
		if err != nil {
			return fmt.Sprintf("harness: cannot build request: %v", err)
		}
		in.aq.Wait(m, in.salt)
		// the caller's buffer is reused afterwards (the ring does that)
		for i := range buf {
			buf[i] = 0xEE
		}
		if p.Type == refcodec.PINGREQ {
			in.model.pings = append(in.model.pings, entry{mtype: p.Type, msg: wire})
			return ""
		}
		// a registration is a repetition (and changes nothing) while a request with that
		// identifier is in flight; once that request is terminal the identifier is free
		if i := in.model.find(o.id); i < 0 || terminal(in.model.q[i].state) {
			in.model.q = append(in.model.q, entry{id: o.id, mtype: p.Type, msg: wire})
		}
	case opAck:
		p := ackPacket(o)
		wire := refcodec.Encode(p)
		buf := append([]byte(nil), wire...)
		m, err := decodeLib(p.Type, buf)
		if err != nil {
			return fmt.Sprintf("harness: cannot build ack: %v", err)
		}
		in.aq.Ack(m)
		for i := range buf {
			buf[i] = 0xEE
		}
		if p.Type == refcodec.PINGRESP {
			for i := range in.model.pings {
				if in.model.pings[i].state == 0 {
					in.model.pings[i].state = refcodec.PINGRESP
					in.model.pings[i].ack = wire
					break
				}
			}
			return ""
		}
		if i := in.model.find(o.id); i >= 0 {
			in.model.q[i].state = p.Type
			in.model.q[i].ack = wire
		}
	case opAcked:
		got := in.aq.Acked()
		// expected: answered pings first, then the terminal prefix of the list
		var want []entry
		for len(in.model.pings) > 0 && in.model.pings[0].state == refcodec.PINGRESP {
			want = append(want, in.model.pings[0])
			in.model.pings = in.model.pings[1:]
		}
		for len(in.model.q) > 0 && terminal(in.model.q[0].state) {
			want = append(want, in.model.q[0])
			in.model.q = in.model.q[1:]
		}
		if len(got) != len(want) {
			return fmt.Sprintf("Acked() handed back %d requests, the FIFO model %d (%s vs %s)", len(got), len(want), descGot(got), descWant(want))
		}
		for i := range got {
			g, w := got[i], want[i]
			if byte(g.Mtype) != w.mtype || (w.mtype != refcodec.PINGREQ && g.Pktid != w.id) {
				return fmt.Sprintf("Acked() entry %d is %s id=%d, the FIFO model has %s id=%d", i, refcodec.Name(byte(g.Mtype)), g.Pktid, refcodec.Name(w.mtype), w.id)
			}
			if byte(g.State) != w.state {
				return fmt.Sprintf("Acked() entry %d (id=%d) has state %s, last acknowledgement was %s", i, g.Pktid, refcodec.Name(byte(g.State)), refcodec.Name(w.state))
			}
			if !bytes.Equal(g.Msgbuf, w.msg) {
				return fmt.Sprintf("Acked() entry %d (id=%d): request bytes differ from the registered request: %x vs %x", i, g.Pktid, g.Msgbuf, w.msg)
			}
			if !bytes.Equal(g.Ackbuf, w.ack) {
				return fmt.Sprintf("Acked() entry %d (id=%d): acknowledgement bytes differ from the final acknowledgement: %x vs %x", i, g.Pktid, g.Ackbuf, w.ack)
			}
			if w.mtype != refcodec.PINGREQ {
				if oc, _ := g.OnComplete.(int); oc == 0 {
					return fmt.Sprintf("Acked() entry %d (id=%d) lost its completion callback", i, g.Pktid)
				}
			}
			in.released = append(in.released, fmt.Sprintf("%d/%d", w.mtype, w.id))
		}
		in.lastBatch = append([]sessions.AckMsg(nil), got...)
		in.lastWant = want
	}
	return ""
}

func descGot(g []sessions.AckMsg) string {
	var s []string
	for _, a := range g {
		s = append(s, fmt.Sprintf("%s#%d", refcodec.Name(byte(a.Mtype)), a.Pktid))
	}
	return "[" + strings.Join(s, " ") + "]"
}

func descWant(w []entry) string {
	var s []string
	for _, a := range w {
		s = append(s, fmt.Sprintf("%s#%d", refcodec.Name(a.mtype), a.id))
	}
	return "[" + strings.Join(s, " ") + "]"
}

// key is the canonical state: model list + ring geometry of the implementation.
func (in *instance) key() string {
	var b strings.Builder
	for _, e := range in.model.q {
		fmt.Fprintf(&b, "%d.%d.%d,", e.id, e.mtype, e.state)
	}
	b.WriteByte('|')
	for _, e := range in.model.pings {
		fmt.Fprintf(&b, "p%d,", e.state)
	}
	size, head, tail, count := in.aq.VerifShape()
	fmt.Fprintf(&b, "|%d.%d.%d.%d|%s", size, head, tail, count, in.aq.VerifIndex())
	return b.String()
}

func alphabetA() []op {
	var ops []op
	ids := []uint16{1, 2, 3}
	for _, id := range ids {
		ops = append(ops, op{kind: opWait, mtype: refcodec.PUBLISH, qos: 1, id: id})
		ops = append(ops, op{kind: opWait, mtype: refcodec.PUBLISH, qos: 2, id: id})
	}
	ops = append(ops, op{kind: opWait, mtype: refcodec.PUBLISH, qos: 2, id: 1, dup: true})
	ops = append(ops, op{kind: opWait, mtype: refcodec.SUBSCRIBE, id: 2})
	ops = append(ops, op{kind: opWait, mtype: refcodec.UNSUBSCRIBE, id: 3})
	ops = append(ops, op{kind: opWait, mtype: refcodec.PINGREQ})
	for _, t := range []byte{refcodec.PUBACK, refcodec.PUBREC, refcodec.PUBREL, refcodec.PUBCOMP, refcodec.SUBACK, refcodec.UNSUBACK} {
		for _, id := range append(ids, 9) {
			if (t == refcodec.SUBACK || t == refcodec.UNSUBACK || t == refcodec.PUBACK) && id == 9 && t != refcodec.PUBACK {
				continue
			}
			ops = append(ops, op{kind: opAck, mtype: t, id: id})
		}
	}
	// a second SUBACK for the same request with another return code: the final
	// acknowledgement is the one that counts
	ops = append(ops, op{kind: opAck, mtype: refcodec.SUBACK, id: 2, alt: true})
	// acknowledgements in the longer form the decoders accept (5 bytes instead of 4): the
	// copy handed back has to be byte-identical all the same
	ops = append(ops, op{kind: opAck, mtype: refcodec.PUBACK, id: 1, pad: true}, op{kind: opAck, mtype: refcodec.PUBCOMP, id: 2, pad: true})
	ops = append(ops, op{kind: opAck, mtype: refcodec.PINGRESP})
	ops = append(ops, op{kind: opAcked})
	return ops
}

// C13 entry point.
func C13(c *core.Ctx) {
	ops := alphabetA()
	c.Rep.Bound = "SCHED: commuting pairs of operations in two threads on a 4-slot queue (head moved by 0/1/3, 2-4 outstanding), every interleaving to 2 (quick) / 3 (thorough) preemptions; alphabet A: all operation sequences to depth 4 (quick) / 5 (thorough) without de-duplication and BFS to depth 7/9 with de-duplication on (model list, ring geometry, identifier index); alphabet B: capacity sweeps head offset 0..15 x 0..40 in flight x ack orders"
	c.Rep.Rule = fmt.Sprintf("HIST: breadth-first over histories of %d operations (register PUBLISH q1/q2/dup, SUBSCRIBE, UNSUBSCRIBE, PINGREQ over ids 1-3; acknowledge with each of the 7 ack types incl. unknown id 9; collect) on the real Ackqueue, compared step by step with a plain list; distinct = canonical (model list, ring size/head/tail/count)", len(ops))
	run := func(hist []int) (string, string, int) {
		in := newInstance(4)
		for i, h := range hist {
			if v := in.apply(ops[h]); v != "" {
				return fmt.Sprintf("after %d operations: %s", i+1, v), "", i + 1
			}
		}
		// every state is followed by a collect so that "must be released by the next Acked()" is checked everywhere
		k := in.key()
		if v := in.apply(op{kind: opAcked}); v != "" {
			return "on the following Acked(): " + v, "", len(hist) + 1
		}
		return "", k, len(hist) + 1
	}
	mk := func(name string, depth int, dedup bool) explore.HistOpts {
		return explore.HistOpts{Name: name, NOps: len(ops), OpName: func(i int) string { return ops[i].String() }, Run: run,
			MaxDepth: depth, Dedup: dedup, Shard: c.Shard, NShards: c.NShards, Deadline: c.Deadline}
	}
	if c.Replay != nil {
		var hist []int
		json.Unmarshal(c.Replay.Input, &hist)
		fmt.Printf("replay %s:\n", c.Replay.Scenario)
		in := newInstance(4)
		if strings.HasPrefix(c.Replay.Scenario, "capacity") {
			fmt.Println("  " + c.Replay.Message)
			c.Rep.Scenarios = 1
			return
		}
		for i, h := range hist {
			v := in.apply(ops[h])
			fmt.Printf("  %2d %-32s model=%s  %s\n", i+1, ops[h], in.key(), v)
		}
		fmt.Println("  then Acked():", in.apply(op{kind: opAcked}))
		c.Rep.Scenarios = 1
		return
	}
	d1, d2 := 4, 7
	if c.Thorough() {
		d1, d2 = 5, 9
	}
	for _, o := range []explore.HistOpts{mk("all-sequences", d1, false), mk("bfs-dedup", d2, true)} {
		st := explore.Hist(o)
		c.Rep.Scenarios++
		c.Rep.States += int64(st.States)
		c.Rep.Transitions += int64(st.Transitions)
		c.Rep.Executions += int64(st.Histories)
		c.Rep.Evaluations += int64(st.Histories)
		c.Rep.Nontrivial += int64(st.States)
		if !st.Exhaustive {
			c.Rep.Exhaustive = false
			c.Rep.AddCap(st.CapHit)
		}
		if st.CapHit != "" && st.Exhaustive {
			c.Rep.Notes = append(c.Rep.Notes, fmt.Sprintf("%s: complete to %s (fixpoint not reached)", o.Name, st.CapHit))
		}
		if st.Fixpoint {
			c.Rep.Notes = append(c.Rep.Notes, fmt.Sprintf("%s: fixpoint at depth %d", o.Name, st.DepthDone))
		}
		c.Rep.Sample(map[string]interface{}{"search": o.Name, "depth": st.DepthDone, "states": st.States, "histories": st.Histories})
		if st.Violation != "" {
			hs := explore.HistString(o, st.Hist)
			in, _ := json.Marshal(st.Hist)
			c.Violate("C13 "+classOf(st.Violation), core.Replay{Scenario: o.Name + ": " + hs, Message: st.Violation, Input: in})
			return
		}
	}
	capacity(c)
	if c.HasViolation() || c.Expired() {
		return
	}
	capacityReuse(c)
	if c.HasViolation() || c.Expired() {
		return
	}
	concurrent(c)
}

// concurrent: the queue is used by two goroutines (the processor acknowledges,
// the application registers).  Two operations that commute in the model - an
// acknowledgement for one outstanding request and the registration of a new
// one, or two acknowledgements for different requests - run in two threads
// under every interleaving (to a preemption bound) on a queue of 4 slots whose
// head has moved by 0, 1 or 3 slots and that holds 2, 3 or 4 requests (4: the
// registration has to grow it).  Afterwards everything is acknowledged in
// order and collected: what comes back must be what the list model says.
func concurrent(c *core.Ctx) {
	bound := 2
	if c.Thorough() {
		bound = 3
	}
	n := 0
	for _, headOff := range []int{0, 1, 3} {
		for _, inflight := range []int{2, 3, 4} {
			for x := 0; x < inflight; x++ {
				for _, pair := range []string{"ack||wait", "ack||ack", "ack||acked+wait"} {
					n++
					if c.NShards > 1 && n%c.NShards != c.Shard {
						continue
					}
					if c.Expired() || c.HasViolation() {
						return
					}
					headOff, inflight, x, pair := headOff, inflight, x, pair
					name := fmt.Sprintf("concurrent %s: head moved by %d, %d requests outstanding, acknowledgement for the %dth", pair, headOff, inflight, x+1)
					body := func() {
						in := newInstance(4)
						id := uint16(100)
						fail := func(v string) bool {
							if v != "" {
								vsched.Failf("%s", v)
								return true
							}
							return false
						}
						for i := 0; i < headOff; i++ {
							id++
							if fail(in.apply(op{kind: opWait, mtype: refcodec.PUBLISH, qos: 1, id: id})) || fail(in.apply(op{kind: opAck, mtype: refcodec.PUBACK, id: id})) || fail(in.apply(op{kind: opAcked})) {
								return
							}
						}
						var ids []uint16
						for i := 0; i < inflight; i++ {
							id++
							ids = append(ids, id)
							if fail(in.apply(op{kind: opWait, mtype: refcodec.PUBLISH, qos: 1, id: id})) {
								return
							}
						}
						vsched.Mark()
						newID := id + 1
						var v1, v2 string
						vsched.Go("acker", func() { v1 = in.apply(op{kind: opAck, mtype: refcodec.PUBACK, id: ids[x]}) })
						switch pair {
						case "ack||wait":
							vsched.Go("registrar", func() { v2 = in.apply(op{kind: opWait, mtype: refcodec.PUBLISH, qos: 1, id: newID}) })
							ids = append(ids, newID)
						case "ack||ack":
							y := (x + 1) % inflight
							vsched.Go("acker-2", func() { v2 = in.apply(op{kind: opAck, mtype: refcodec.PUBACK, id: ids[y]}) })
						case "ack||acked+wait":
							// nothing is complete at the head unless x is the head: only registered when it is not
							if x == 0 {
								vsched.Go("registrar", func() { v2 = in.apply(op{kind: opWait, mtype: refcodec.PUBLISH, qos: 1, id: newID}) })
							} else {
								vsched.Go("collector+registrar", func() {
									v2 = in.apply(op{kind: opAcked})
									if v2 == "" {
										v2 = in.apply(op{kind: opWait, mtype: refcodec.PUBLISH, qos: 1, id: newID})
									}
								})
							}
							ids = append(ids, newID)
						}
						vsched.Quiesce()
						if alive := vsched.Alive(); len(alive) > 0 {
							vsched.Failf("an operation on the queue does not return: %s", core.ParkedString(alive))
							return
						}
						if fail(v1) || fail(v2) {
							return
						}
						// drain in order
						for _, d := range ids {
							if fail(in.apply(op{kind: opAck, mtype: refcodec.PUBACK, id: d})) || fail(in.apply(op{kind: opAcked})) {
								return
							}
						}
						if len(in.model.q) != 0 {
							vsched.Failf("harness: model not drained")
						}
					}
					st := c.RunSched(explore.SchedOpts{Name: name, Bound: bound, Cache: true, UseMark: true, Body: body, MaxPoints: 20000,
						Check: func(r *vsched.Result) explore.Verdict {
							if r.Status == vsched.StCrash {
								return explore.Verdict{Violation: "the queue panicked: " + strings.SplitN(r.Crash, "\n", 2)[0], Outcome: "crash"}
							}
							if len(r.Failures) > 0 {
								return explore.Verdict{Violation: r.Failures[0], Outcome: "fail"}
							}
							return explore.Verdict{Outcome: "ok"}
						}},
						func(v *explore.Violation) string { return "C13 concurrent " + pair + " :: " + classOf(v.Message) })
					_ = st
				}
			}
		}
	}
	c.Rep.Sample(map[string]interface{}{"search": "concurrent", "pairs": []string{"ack||wait", "ack||ack", "ack||acked+wait"}, "head_offsets": []int{0, 1, 3}, "outstanding": []int{2, 3, 4}, "preemption_bound": bound})
}

// classOf makes a fingerprint from a violation message: text up to the first ':' or '(' without digits.
func classOf(s string) string {
	if i := strings.Index(s, ": "); i >= 0 {
		s = s[i+2:]
	}
	for _, cut := range []string{" (", ": "} {
		if i := strings.Index(s, cut); i >= 0 {
			s = s[:i]
		}
	}
	var b strings.Builder
	for _, r := range s {
		if r < '0' || r > '9' {
			b.WriteRune(r)
		}
	}
	return b.String()
}

// capacity: alphabet B — growth beyond the initial capacity and index
// wrap-around with many in-flight entries and every ack order.
func capacity(c *core.Ctx) {
	n := 0
	orders := []string{"fifo", "lifo", "rot3", "rot7", "evens-first", "~fifo", "~lifo", "~rot3", "~evens-first"}
	for headOff := 0; headOff < 16; headOff++ {
		for inflight := 0; inflight <= 40; inflight++ {
			for _, order := range orders {
				n++
				if c.NShards > 1 && n%c.NShards != c.Shard {
					continue
				}
				if n%64 == 0 && c.Expired() {
					return
				}
				if v, steps := capacityCase(headOff, inflight, order); v != "" {
					c.Rep.Transitions += int64(steps)
					c.Violate("C13 capacity "+classOf(v), core.Replay{Scenario: fmt.Sprintf("capacity head=%d inflight=%d order=%s", headOff, inflight, order), Message: v})
					return
				} else {
					c.Rep.Transitions += int64(steps)
				}
				c.Rep.Executions++
				c.Rep.Evaluations++
				c.Rep.States++
			}
		}
	}
	c.Rep.Scenarios++
	c.Rep.Sample(map[string]interface{}{"search": "capacity", "head_offsets": 16, "in_flight": "0..40", "orders": orders})
}

func capacityCase(headOff, inflight int, order string) (string, int) {
	// "~": the head is moved without the queue ever becoming empty (one request stays in
	// flight all the time and is the oldest of the in-flight set afterwards)
	rolling := strings.HasPrefix(order, "~")
	order = strings.TrimPrefix(order, "~")
	in := newInstance(4) // grows 4 -> 8 -> 16 -> 32 -> 64
	steps := 0
	id := uint16(100)
	do := func(o op) string {
		steps++
		return in.apply(o)
	}
	var ids []uint16
	if rolling && headOff > 0 && inflight > 0 {
		id++
		carry := id
		if v := do(op{kind: opWait, mtype: refcodec.PUBLISH, qos: 1, id: carry}); v != "" {
			return v, steps
		}
		for i := 0; i < headOff; i++ {
			id++
			if v := do(op{kind: opWait, mtype: refcodec.PUBLISH, qos: 1, id: id}); v != "" {
				return v, steps
			}
			if v := do(op{kind: opAck, mtype: refcodec.PUBACK, id: carry}); v != "" {
				return v, steps
			}
			if v := do(op{kind: opAcked}); v != "" {
				return v, steps
			}
			carry = id
		}
		ids = append(ids, carry) // QoS 1, index 0: acknowledged by PUBACK below
		headOff = 0
	}
	// move head/tail: register and complete headOff entries one by one
	for i := 0; i < headOff; i++ {
		id++
		if v := do(op{kind: opWait, mtype: refcodec.PUBLISH, qos: 1, id: id}); v != "" {
			return v, steps
		}
		if v := do(op{kind: opAck, mtype: refcodec.PUBACK, id: id}); v != "" {
			return v, steps
		}
		if v := do(op{kind: opAcked}); v != "" {
			return v, steps
		}
	}
	for i := len(ids); i < inflight; i++ {
		id++
		ids = append(ids, id)
		q := byte(1 + i%2)
		if v := do(op{kind: opWait, mtype: refcodec.PUBLISH, qos: q, id: id}); v != "" {
			return v, steps
		}
	}
	// ack order
	idx := make([]int, len(ids))
	for i := range idx {
		idx[i] = i
	}
	switch order {
	case "lifo":
		for i, j := 0, len(idx)-1; i < j; i, j = i+1, j-1 {
			idx[i], idx[j] = idx[j], idx[i]
		}
	case "rot3", "rot7":
		k := 3
		if order == "rot7" {
			k = 7
		}
		if len(idx) > 0 {
			k %= len(idx)
			idx = append(idx[k:], idx[:k]...)
		}
	case "evens-first":
		var a, b []int
		for _, i := range idx {
			if i%2 == 0 {
				a = append(a, i)
			} else {
				b = append(b, i)
			}
		}
		idx = append(a, b...)
	}
	for n, i := range idx {
		t := byte(refcodec.PUBACK)
		if i%2 == 1 {
			// QoS 2: PUBREC first (not terminal), then PUBCOMP
			if v := do(op{kind: opAck, mtype: refcodec.PUBREC, id: ids[i]}); v != "" {
				return v, steps
			}
			t = refcodec.PUBCOMP
		}
		if v := do(op{kind: opAck, mtype: t, id: ids[i]}); v != "" {
			return v, steps
		}
		if n%3 == 0 {
			if v := do(op{kind: opAcked}); v != "" {
				return v, steps
			}
		}
	}
	if v := do(op{kind: opAcked}); v != "" {
		return v, steps
	}
	if len(in.model.q) != 0 {
		return "harness: model not empty at the end", steps
	}
	if _, _, _, count := in.aq.VerifShape(); count != 0 {
		return fmt.Sprintf("after every request was acknowledged and collected the queue still holds %d entries", count), steps
	}
	return "", steps
}

// capacityReuse: a registration whose identifier is already in the queue,
// made at the moment the queue is exactly full (or one below / one above its
// size) with the head anywhere in the ring.  Any subset of the in-flight
// requests has reached its terminal acknowledgement before (all subsets for
// sizes 4 and 8, subsets of at most two for size 16): the identifier used
// again belongs either to a completed request that still waits behind an
// earlier one (the registration is a new request) or to one still in flight
// (a repetition, nothing changes).  Afterwards everything is acknowledged in
// order and collected, compared with the list model at every step.
func capacityReuse(c *core.Ctx) {
	n := 0
	for _, size := range []int{4, 8, 16} {
		for headOff := 0; headOff < size; headOff++ {
			for _, fill := range []int{size - 1, size, size + 1} {
				maxSub := fill
				if size == 16 {
					maxSub = 2
				}
				for sub := uint32(0); sub < 1<<uint(fill); sub++ {
					if bits(sub) > maxSub {
						continue
					}
					for j := 0; j < fill; j++ {
						n++
						if c.NShards > 1 && n%c.NShards != c.Shard {
							continue
						}
						if n%256 == 0 && c.Expired() {
							return
						}
						v, steps := capacityReuseCase(size, headOff, fill, sub, j)
						c.Rep.Transitions += int64(steps)
						if v != "" {
							c.Violate("C13 capacity-reuse "+classOf(v), core.Replay{Scenario: fmt.Sprintf("capacity-reuse size=%d head=%d inflight=%d terminal-set=%b reused=#%d", size, headOff, fill, sub, j), Message: v})
							return
						}
						c.Rep.Executions++
						c.Rep.Evaluations++
						c.Rep.States++
					}
				}
			}
		}
	}
	c.Rep.Scenarios++
	c.Rep.Sample(map[string]interface{}{"search": "capacity-reuse", "sizes": []int{4, 8, 16}, "head_offsets": "0..size-1", "in_flight": "size-1, size, size+1", "terminal_subsets": "all (size 4, 8), up to two entries (size 16)", "reused": "every in-flight identifier"})
}

func bits(x uint32) int {
	n := 0
	for ; x != 0; x &= x - 1 {
		n++
	}
	return n
}

func capacityReuseCase(size, headOff, fill int, sub uint32, j int) (string, int) {
	in := newInstance(size)
	steps := 0
	do := func(o op) string {
		steps++
		return in.apply(o)
	}
	id := uint16(200)
	for i := 0; i < headOff; i++ {
		id++
		for _, o := range []op{{kind: opWait, mtype: refcodec.PUBLISH, qos: 2, id: id}, {kind: opAck, mtype: refcodec.PUBREL, id: id}, {kind: opAcked}} {
			if v := do(o); v != "" {
				return v, steps
			}
		}
	}
	var ids []uint16
	for i := 0; i < fill; i++ {
		id++
		ids = append(ids, id)
		if v := do(op{kind: opWait, mtype: refcodec.PUBLISH, qos: 2, id: id}); v != "" {
			return v, steps
		}
	}
	for i := 0; i < fill; i++ {
		if sub&(1<<uint(i)) != 0 {
			if v := do(op{kind: opAck, mtype: refcodec.PUBREL, id: ids[i]}); v != "" {
				return v, steps
			}
		}
	}
	// the registration with an identifier that is in the queue (no collect in between)
	if v := do(op{kind: opWait, mtype: refcodec.PUBLISH, qos: 2, id: ids[j]}); v != "" {
		return v, steps
	}
	// acknowledge what is open, oldest first, collecting after each
	for guard := 0; len(in.model.q) > 0 && guard < 4*size+8; guard++ {
		acked := false
		for k := range in.model.q {
			if !terminal(in.model.q[k].state) {
				if v := do(op{kind: opAck, mtype: refcodec.PUBREL, id: in.model.q[k].id}); v != "" {
					return v, steps
				}
				acked = true
				break
			}
		}
		if v := do(op{kind: opAcked}); v != "" {
			return v, steps
		}
		if !acked && len(in.model.q) > 0 {
			return "harness: model keeps completed requests after a collect", steps
		}
	}
	if len(in.model.q) != 0 {
		return "harness: model not empty at the end", steps
	}
	if _, _, _, count := in.aq.VerifShape(); count != 0 {
		return fmt.Sprintf("after every request was acknowledged and collected the queue still holds %d entries", count), steps
	}
	return "", steps
}

func init() { core.Register("C13", C13) }
