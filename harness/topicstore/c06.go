// Package topicstore drives the real topics.MemTopics against refmatch (C06).
package topicstore

import (
	"encoding/json"
	"fmt"
	"sort"
	"strings"

	"github.com/mdzio/go-mqtt/message"
	"github.com/mdzio/go-mqtt/topics"
	"verif/engine/explore"
	"verif/harness/core"
	"verif/models/refmatch"
)

var levelAlphabet = []string{"a", "b", "", "+", "#"}

// allStrings returns every topic string of 1..maxLevels levels over the alphabet.
func allStrings(alpha []string, maxLevels int) []string {
	var out []string
	var rec func(prefix []string)
	rec = func(prefix []string) {
		if len(prefix) > 0 {
			out = append(out, strings.Join(prefix, "/"))
		}
		if len(prefix) == maxLevels {
			return
		}
		for _, l := range alpha {
			rec(append(append([]string{}, prefix...), l))
		}
	}
	rec(nil)
	return out
}

type sub struct{ name string }

// subscribersOf asks the real store.
func subscribersOf(mt *topics.MemTopics, name string, qos byte) (map[string]int, error) {
	var subs []interface{}
	var qoss []byte
	if err := mt.Subscribers([]byte(name), qos, &subs, &qoss); err != nil {
		return nil, err
	}
	out := map[string]int{}
	for i, s := range subs {
		k := fmt.Sprintf("%s@%d", s.(*sub).name, qoss[i])
		out[k]++
	}
	return out, nil
}

func fmtSet(m map[string]int) string {
	var ks []string
	for k, v := range m {
		ks = append(ks, fmt.Sprintf("%sx%d", k, v))
	}
	sort.Strings(ks)
	return "{" + strings.Join(ks, " ") + "}"
}

func sameSet(a, b map[string]int) bool {
	if len(a) != len(b) {
		return false
	}
	for k, v := range a {
		if b[k] != v {
			return false
		}
	}
	return true
}

func minq(a, b byte) byte {
	if a < b {
		return a
	}
	return b
}

func retainedOf(mt *topics.MemTopics, filter string) (map[string]int, error) {
	var msgs []*message.PublishMessage
	if err := mt.Retained([]byte(filter), &msgs); err != nil {
		return nil, err
	}
	out := map[string]int{}
	for _, m := range msgs {
		out[fmt.Sprintf("%s=%s", m.Topic(), m.Payload())]++
	}
	return out, nil
}

func retainMsg(topic, payload string) *message.PublishMessage {
	m := message.NewPublishMessage()
	m.SetTopic([]byte(topic))
	m.SetPayload([]byte(payload))
	m.SetRetain(true)
	m.SetQoS(1)
	m.SetPacketID(7)
	return m
}

// pairClass groups filter/name pairs for fingerprints.
func pairClass(filter, name string) string {
	var c []string
	fl := strings.Split(filter, "/")
	nl := strings.Split(name, "/")
	has := func(ls []string, x string) bool {
		for _, l := range ls {
			if l == x {
				return true
			}
		}
		return false
	}
	if has(fl, "") {
		c = append(c, "filter-has-empty-level")
	}
	if has(nl, "") {
		c = append(c, "name-has-empty-level")
	}
	if len(fl) > 0 && fl[len(fl)-1] == "#" && len(nl) == len(fl)-1 {
		c = append(c, "#-matches-parent")
	}
	if has(fl, "+") {
		c = append(c, "+")
	}
	if len(c) == 0 {
		return "plain"
	}
	return strings.Join(c, ",")
}

// pinned describes what the store does with empty topic levels today, as
// pinned by the repository's own tests (TestNextTopicLevelSuccess,
// TestSNodeInsert4: "/finance" is stored as "+/finance"): an empty level that
// is not the last one acts as '+', a trailing empty level is dropped.  Used
// only to recognise the known finding precisely: a mismatch with MQTT 4.7 that
// is exactly this behaviour is the listed finding, anything else is new.
func pinned(t string) string {
	ls := strings.Split(t, "/")
	if len(ls) > 1 && ls[len(ls)-1] == "" {
		ls = ls[:len(ls)-1]
	}
	for i, l := range ls {
		if l == "" {
			ls[i] = "+"
		}
	}
	return strings.Join(ls, "/")
}

func pinnedMatches(filter, name string) bool {
	return refmatch.Matches(pinned(filter), pinned(name))
}

func hasEmptyLevel(ts ...string) bool {
	for _, t := range ts {
		for _, l := range strings.Split(t, "/") {
			if l == "" {
				return true
			}
		}
	}
	return false
}

// KnownEmptyLevels is the fingerprint of the listed finding.
const KnownEmptyLevels = "C06 empty topic levels are not literal levels"

type env struct {
	c      *core.Ctx
	n      int64
	nknown int
}

func (e *env) mine() bool {
	i := e.n
	e.n++
	return e.c.NShards <= 1 || int(i%int64(e.c.NShards)) == e.c.Shard
}

// known records a reproduction of the listed empty-level finding (goes through
// Violate so that it only passes when known_findings.txt lists it).
func (e *env) known(example string) {
	e.nknown++
	if e.nknown == 1 {
		in, _ := json.Marshal(example)
		e.c.Violate(KnownEmptyLevels, core.Replay{Scenario: "pairs/histories with empty levels", Message: "the store treats an inner/leading empty level as '+' and drops a trailing one, e.g. " + example, Input: in})
	} else if e.c.Known[KnownEmptyLevels] {
		e.c.Rep.KnownHits[KnownEmptyLevels]++
	}
}

func (e *env) viol(key, scenario, msg string, input interface{}) {
	in, _ := json.Marshal(input)
	e.c.Violate("C06 "+key, core.Replay{Scenario: scenario, Message: msg, Input: in})
}

// pairs: every filter alone in a fresh store against every name and QoS.
func pairs(e *env, maxLevels int) { pairsOver(e, levelAlphabet, maxLevels) }

// pairsOver: strings that begin with '$' are left out (the properties do not speak about them).
func pairsOver(e *env, alpha []string, maxLevels int) {
	var strs []string
	for _, s := range allStrings(alpha, maxLevels) {
		if !strings.HasPrefix(s, "$") {
			strs = append(strs, s)
		}
	}
	var names []string
	for _, s := range strs {
		if refmatch.ValidName(s) {
			names = append(names, s)
		}
	}
	s1 := &sub{"s1"}
	for _, f := range strs {
		if !e.mine() {
			continue
		}
		if e.n%64 == 0 && e.c.Expired() {
			return
		}
		valid := refmatch.ValidFilter(f)
		for sq := byte(0); sq <= 2; sq++ {
			mt := topics.NewMemProvider()
			_, err := mt.Subscribe([]byte(f), sq, s1)
			e.c.Rep.Evaluations++
			if !valid {
				if err == nil {
					e.viol("invalid-filter-accepted "+pairClass(f, ""), "pairs", fmt.Sprintf("Subscribe accepts the invalid filter %q", f), map[string]interface{}{"filter": f})
					break
				}
				// rejected: no side effects
				for _, n := range names {
					got, _ := subscribersOf(mt, n, 2)
					if len(got) != 0 {
						e.viol("rejected-filter-has-effect", "pairs", fmt.Sprintf("rejected filter %q still produces subscribers %s for %q", f, fmtSet(got), n), map[string]interface{}{"filter": f, "name": n})
						break
					}
				}
				break
			}
			if err != nil {
				e.viol("valid-filter-rejected "+pairClass(f, ""), "pairs", fmt.Sprintf("Subscribe rejects the valid filter %q: %v", f, err), map[string]interface{}{"filter": f})
				break
			}
			for _, n := range names {
				for pq := byte(0); pq <= 2; pq++ {
					e.c.Rep.Evaluations++
					want := map[string]int{}
					if refmatch.Matches(f, n) {
						want[fmt.Sprintf("s1@%d", minq(pq, sq))] = 1
						e.c.Rep.Nontrivial++
					}
					got, err := subscribersOf(mt, n, pq)
					if err != nil {
						e.viol("subscribers-error "+pairClass(f, n), "pairs", fmt.Sprintf("Subscribers(%q) fails: %v", n, err), map[string]interface{}{"filter": f, "name": n})
						continue
					}
					if !sameSet(got, want) && hasEmptyLevel(f, n) {
						// exactly the pinned behaviour? then it is the listed finding
						w2 := map[string]int{}
						if pinnedMatches(f, n) {
							w2[fmt.Sprintf("s1@%d", minq(pq, sq))] = 1
						}
						if sameSet(got, w2) {
							e.known(fmt.Sprintf("filter %q vs name %q", f, n))
							continue
						}
					}
					if !sameSet(got, want) {
						e.viol("match "+pairClass(f, n), "pairs", fmt.Sprintf("filter %q (QoS %d), name %q published at QoS %d: store says %s, MQTT 4.7 says %s", f, sq, n, pq, fmtSet(got), fmtSet(want)),
							map[string]interface{}{"filter": f, "name": n, "sub_qos": sq, "pub_qos": pq})
					}
				}
			}
			// unsubscribe removes it
			if err := mt.Unsubscribe([]byte(f), s1); err != nil {
				e.viol("unsubscribe-error "+pairClass(f, ""), "pairs", fmt.Sprintf("Unsubscribe(%q) of an existing subscription fails: %v", f, err), map[string]interface{}{"filter": f})
			}
			for _, n := range names {
				if got, _ := subscribersOf(mt, n, 2); len(got) != 0 {
					e.viol("unsubscribe-leaves "+pairClass(f, n), "pairs", fmt.Sprintf("after Unsubscribe(%q) the name %q still has subscribers %s", f, n, fmtSet(got)), map[string]interface{}{"filter": f, "name": n})
					break
				}
			}
		}
		// retained: each name retained alone, asked for with this filter
		if valid {
			for _, n := range names {
				mt := topics.NewMemProvider()
				if err := mt.Retain(retainMsg(n, "P")); err != nil {
					e.viol("retain-error "+pairClass("", n), "pairs-retained", fmt.Sprintf("Retain(%q) fails: %v", n, err), map[string]interface{}{"name": n})
					continue
				}
				e.c.Rep.Evaluations++
				want := map[string]int{}
				if refmatch.Matches(f, n) {
					want[n+"=P"] = 1
				}
				got, err := retainedOf(mt, f)
				if err != nil {
					e.viol("retained-error "+pairClass(f, n), "pairs-retained", fmt.Sprintf("Retained(%q) fails: %v", f, err), map[string]interface{}{"filter": f, "name": n})
					continue
				}
				if !sameSet(got, want) && hasEmptyLevel(f, n) {
					w2 := map[string]int{}
					if pinnedMatches(f, n) {
						w2[n+"=P"] = 1
					}
					if sameSet(got, w2) {
						e.known(fmt.Sprintf("retained %q vs filter %q", n, f))
						continue
					}
				}
				if !sameSet(got, want) {
					e.viol("retained-match "+pairClass(f, n), "pairs-retained", fmt.Sprintf("retained on %q, asked with filter %q: store says %s, MQTT 4.7 says %s", n, f, fmtSet(got), fmtSet(want)), map[string]interface{}{"filter": f, "name": n})
				}
			}
		}
	}
	e.c.Rep.Sample(map[string]interface{}{"search": "pairs", "filters": len(strs), "names": len(names), "example": []string{strs[7], names[5]}})
}

// ---- histories -----------------------------------------------------------

type hop struct {
	kind    byte // S subscribe, U unsubscribe, R retain
	sub     int
	filter  string
	qos     byte
	payload string
}

func (o hop) String() string {
	switch o.kind {
	case 'S':
		return fmt.Sprintf("Sub(s%d,%q,q%d)", o.sub+1, o.filter, o.qos)
	case 'U':
		return fmt.Sprintf("Unsub(s%d,%q)", o.sub+1, o.filter)
	case 'A':
		return fmt.Sprintf("Unsub(all,%q)", o.filter)
	}
	return fmt.Sprintf("Retain(%q,%q)", o.filter, o.payload)
}

type hmodel struct {
	subs     map[string]byte   // "sub|filter" -> qos
	retained map[string]string // topic -> payload
	// pret mirrors the retained store under the pinned empty-level behaviour
	// (names that collide after normalisation share one slot), in update order
	pret map[string][2]string
}

func histOps(filters []string, rnames []string, nsubs int) []hop {
	var ops []hop
	for s := 0; s < nsubs; s++ {
		for _, f := range filters {
			for q := byte(0); q <= 2; q++ {
				ops = append(ops, hop{kind: 'S', sub: s, filter: f, qos: q})
			}
			ops = append(ops, hop{kind: 'U', sub: s, filter: f})
		}
	}
	// Unsubscribe(filter, nil) removes every subscriber of the filter (the client role
	// of the library unsubscribes that way)
	if withRemoveAll {
		for _, f := range filters {
			ops = append(ops, hop{kind: 'A', sub: -1, filter: f})
		}
	}
	for _, n := range rnames {
		ops = append(ops, hop{kind: 'R', filter: n, payload: "P1"}, hop{kind: 'R', filter: n, payload: "P2"}, hop{kind: 'R', filter: n, payload: ""})
	}
	return ops
}

// withRemoveAll adds Unsubscribe(filter, nil) to the alphabet (its own search: the
// other searches keep their alphabets and depths)
var withRemoveAll bool

// twinSubs makes the subscriber objects of a history search deeply equal (and distinct)
var twinSubs bool

var probeNames = allNames()

func allNames() []string {
	var names []string
	for _, s := range allStrings([]string{"a", "b", ""}, 3) {
		if refmatch.ValidName(s) {
			names = append(names, s)
		}
	}
	return names
}

func histories(e *env, filters, rnames []string, depthAll, depthBFS int) {
	historiesN(e, filters, rnames, depthAll, depthBFS, 2)
}

// qosCap is topics.MaxQosAllowed during a history search (the package default is 2)
var qosCap byte = 2

func historiesN(e *env, filters, rnames []string, depthAll, depthBFS, nsubs int) {
	ops := histOps(filters, rnames, nsubs)
	subsObj := []*sub{{"s1"}, {"s2"}, {"s3"}, {"s4"}}
	if twinSubs {
		// distinct subscriber objects with equal contents: a subscriber is the object,
		// not what it holds
		subsObj = []*sub{{"tw"}, {"tw"}, {"tw"}, {"tw"}}
	}
	probeFilters := append(append([]string{}, filters...), "#", "+", "+/+", "a/+", "+/b")
	run := func(hist []int) (string, string, int) {
		topics.MaxQosAllowed = qosCap
		mt := topics.NewMemProvider()
		mod := hmodel{subs: map[string]byte{}, retained: map[string]string{}, pret: map[string][2]string{}}
		// an operation on a topic with an empty level anywhere in the history can leave
		// traces of the pinned behaviour (aliasing of "a/" and "a") after the entry itself
		// is gone from the model
		// psubs mirrors the subscription tree under the pinned empty-level behaviour
		// ("a/" and "a" are one node), as pret does for the retained tree
		psubs := map[string]byte{}
		emptyInHistory := false
		for _, h := range hist {
			if hasEmptyLevel(ops[h].filter) {
				emptyInHistory = true
			}
		}
		for i, h := range hist {
			o := ops[h]
			switch o.kind {
			case 'S':
				if !refmatch.ValidFilter(o.filter) {
					// an invalid filter is rejected and leaves the populated store as it was
					if _, err := mt.Subscribe([]byte(o.filter), o.qos, subsObj[o.sub]); err == nil {
						return fmt.Sprintf("step %d %s: the invalid filter was accepted", i+1, o), "", i + 1
					}
					continue
				}
				g, err := mt.Subscribe([]byte(o.filter), o.qos, subsObj[o.sub])
				if err != nil {
					return fmt.Sprintf("step %d %s fails: %v", i+1, o, err), "", i + 1
				}
				// the subscription's QoS is what Subscribe grants: min(requested, topics.MaxQosAllowed)
				if g != minq(o.qos, qosCap) {
					return fmt.Sprintf("step %d %s grants QoS %d, the cap is %d", i+1, o, g, qosCap), "", i + 1
				}
				mod.subs[fmt.Sprintf("%d|%s", o.sub, o.filter)] = g
				psubs[fmt.Sprintf("%d|%s", o.sub, pinned(o.filter))] = g
			case 'U':
				k := fmt.Sprintf("%d|%s", o.sub, o.filter)
				err := mt.Unsubscribe([]byte(o.filter), subsObj[o.sub])
				if _, held := mod.subs[k]; held && err != nil {
					return fmt.Sprintf("step %d %s of a held subscription fails: %v", i+1, o, err), "", i + 1
				}
				delete(mod.subs, k)
				delete(psubs, fmt.Sprintf("%d|%s", o.sub, pinned(o.filter)))
			case 'A':
				held := false
				for s := range subsObj {
					k := fmt.Sprintf("%d|%s", s, o.filter)
					if _, ok := mod.subs[k]; ok {
						held = true
					}
					delete(mod.subs, k)
					delete(psubs, fmt.Sprintf("%d|%s", s, pinned(o.filter)))
				}
				if err := mt.Unsubscribe([]byte(o.filter), nil); held && err != nil {
					return fmt.Sprintf("step %d %s with subscriptions held fails: %v", i+1, o, err), "", i + 1
				}
			case 'R':
				err := mt.Retain(retainMsg(o.filter, o.payload))
				if o.payload == "" {
					delete(mod.retained, o.filter)
					delete(mod.pret, pinned(o.filter))
				} else {
					mod.pret[pinned(o.filter)] = [2]string{o.filter, o.payload}
					if err != nil {
						return fmt.Sprintf("step %d %s fails: %v", i+1, o, err), "", i + 1
					}
					mod.retained[o.filter] = o.payload
				}
			}
		}
		// probe everything
		for _, n := range probeNames {
			for pq := byte(0); pq <= 2; pq += 2 {
				want := map[string]int{}
				for k, q := range mod.subs {
					sp := strings.SplitN(k, "|", 2)
					if refmatch.Matches(sp[1], n) {
						idx := int(sp[0][0] - '0')
						want[fmt.Sprintf("%s@%d", subsObj[idx].name, minq(pq, q))]++
					}
				}
				got, err := subscribersOf(mt, n, pq)
				if err != nil {
					return fmt.Sprintf("Subscribers(%q) fails: %v", n, err), "", len(hist)
				}
				if !sameSet(got, want) {
					w2 := map[string]int{}
					anyEmpty := hasEmptyLevel(n) || emptyInHistory
					for k, q := range psubs {
						sp := strings.SplitN(k, "|", 2)
						if pinnedMatches(sp[1], n) {
							idx := int(sp[0][0] - '0')
							w2[fmt.Sprintf("%s@%d", subsObj[idx].name, minq(pq, q))]++
						}
					}
					if anyEmpty && sameSet(got, w2) {
						e.known(fmt.Sprintf("subscribers of %q after a history", n))
						continue
					}
					return fmt.Sprintf("subscribers of %q at QoS %d: store says %s, model says %s", n, pq, fmtSet(got), fmtSet(want)), "", len(hist)
				}
			}
		}
		for _, f := range probeFilters {
			want := map[string]int{}
			for t, p := range mod.retained {
				if refmatch.Matches(f, t) {
					want[t+"="+p]++
				}
			}
			got, err := retainedOf(mt, f)
			if !refmatch.ValidFilter(f) {
				// a filter that is none: an error, or nothing found (the tree walk may end
				// before it reaches the offending level)
				if err == nil && len(got) > 0 {
					return fmt.Sprintf("Retained(%q), which is no valid filter, returns %s", f, fmtSet(got)), "", len(hist)
				}
				continue
			}
			if err != nil {
				return fmt.Sprintf("Retained(%q) fails: %v", f, err), "", len(hist)
			}
			if !sameSet(got, want) {
				w2 := map[string]int{}
				anyEmpty := hasEmptyLevel(f) || emptyInHistory
				for k, tp := range mod.pret {
					anyEmpty = anyEmpty || hasEmptyLevel(tp[0])
					if refmatch.Matches(pinned(f), k) {
						w2[tp[0]+"="+tp[1]]++
					}
				}
				if anyEmpty && sameSet(got, w2) {
					e.known(fmt.Sprintf("retained for filter %q after a history", f))
					continue
				}
				return fmt.Sprintf("retained for filter %q: store says %s, model says %s", f, fmtSet(got), fmtSet(want)), "", len(hist)
			}
		}
		// canonical key = model state
		var ks []string
		for k, q := range mod.subs {
			ks = append(ks, fmt.Sprintf("%s=%d", k, q))
		}
		for t, p := range mod.retained {
			ks = append(ks, "r:"+t+"="+p)
		}
		sort.Strings(ks)
		return "", strings.Join(ks, ";"), len(hist)
	}
	mk := func(name string, depth int, dedup bool) explore.HistOpts {
		return explore.HistOpts{Name: name, NOps: len(ops), OpName: func(i int) string { return ops[i].String() }, Run: run,
			MaxDepth: depth, Dedup: dedup, Shard: e.c.Shard, NShards: e.c.NShards, Deadline: e.c.Deadline}
	}
	for _, o := range []explore.HistOpts{mk("all-sequences", depthAll, false), mk("bfs-dedup", depthBFS, true)} {
		st := explore.Hist(o)
		r := e.c.Rep
		r.Scenarios++
		r.States += int64(st.States)
		r.Transitions += int64(st.Transitions)
		r.Executions += int64(st.Histories)
		r.Evaluations += int64(st.Histories)
		if !st.Exhaustive {
			r.Exhaustive = false
			r.AddCap(st.CapHit)
		}
		if st.Fixpoint {
			r.Notes = append(r.Notes, fmt.Sprintf("%s: fixpoint at depth %d", o.Name, st.DepthDone))
		} else if st.CapHit != "" && st.Exhaustive {
			r.Notes = append(r.Notes, fmt.Sprintf("%s: complete to %s", o.Name, st.CapHit))
		}
		r.Sample(map[string]interface{}{"search": "histories/" + o.Name, "ops": len(ops), "depth": st.DepthDone, "states": st.States, "histories": st.Histories})
		if st.Violation != "" {
			in, _ := json.Marshal(st.Hist)
			e.viol("history "+histClass(st.Violation), "histories/"+o.Name+": "+explore.HistString(o, st.Hist), st.Violation, json.RawMessage(in))
			return
		}
	}
}

func histClass(s string) string {
	if i := strings.Index(s, ":"); i >= 0 {
		s = s[:i]
	}
	var b strings.Builder
	for _, r := range s {
		if (r < '0' || r > '9') && r != '"' {
			b.WriteRune(r)
		}
	}
	return b.String()
}

// C06 entry point.
func C06(c *core.Ctx) {
	e := &env{c: c}
	c.Rep.Bound = "pairs: all filters and names of 1..4 levels over {a,b,empty,+,#} and of 1..3 levels over {a,$x,x$,$,+,#,+$,#$,a+,a#} (not beginning with $); histories: 2 subscribers x filters x QoS 0-2 + retained updates, all sequences to depth 3 and BFS with de-duplication to depth 5 (quick) / all sequences to depth 4 and BFS to fixpoint or depth 8 (thorough); a history search with topics.MaxQosAllowed at 1 and at 0"
	c.Rep.Rule = "ENUM over all filter/name pairs (each valid filter alone in a fresh real MemTopics, every name, subscription and publish QoS; invalid filters must be rejected without effect; same for the retained relation) + HIST over subscribe/unsubscribe/retain histories compared with refmatch after every history; non-trivial = pairs that match / distinct model states"
	if c.Replay != nil {
		fmt.Printf("replay %s\n  %s\n  input: %s\n", c.Replay.Scenario, c.Replay.Message, string(c.Replay.Input))
		c.Rep.Scenarios = 1
		return
	}
	pairs(e, 4)
	c.Rep.Scenarios++
	// '$' is an ordinary character except at the very beginning of a topic: levels that
	// begin or end with it below the first level, and wildcards with a '$' stuck to them
	pairsOver(e, []string{"a", "$x", "x$", "$", "+", "#", "+$", "#$", "a+", "a#"}, 3)
	c.Rep.Scenarios++
	filters := []string{"a", "a/b", "a/+", "a/#", "#", "+/b"}
	rnames := []string{"a", "a/b", "b"}
	if c.Thorough() {
		histories(e, filters, rnames, 3, 5)
		// fewer filters, deeper
		histories(e, []string{"a", "a/+", "a/#", "#"}, []string{"a", "a/b"}, 4, 7)
		// empty levels in histories
		histories(e, []string{"a/", "/a", "a//b", "+/", "a/#"}, []string{"a/", "/a", "a"}, 3, 5)
	} else {
		histories(e, []string{"a", "a/+", "a/#", "#"}, []string{"a", "a/b"}, 3, 5)
	}
	// several subscribers on the same filters: removal in the middle of a node's list
	if c.Thorough() {
		historiesN(e, []string{"a", "a/+"}, nil, 5, 7, 4)
	} else {
		historiesN(e, []string{"a", "a/+"}, nil, 4, 6, 3)
	}
	// remove-all (Unsubscribe with a nil subscriber) next to ordinary subscribe/unsubscribe:
	// the node survives when a longer filter hangs below it
	withRemoveAll = true
	if c.Thorough() {
		historiesN(e, []string{"a", "a/b", "a/+"}, nil, 4, 6, 3)
	} else {
		historiesN(e, []string{"a", "a/b"}, nil, 4, 6, 2)
	}
	withRemoveAll = false
	// subscribers that are distinct objects with equal contents
	twinSubs = true
	if c.Thorough() {
		historiesN(e, []string{"a", "a/+"}, nil, 5, 7, 3)
	} else {
		historiesN(e, []string{"a", "a/+"}, nil, 4, 6, 2)
	}
	twinSubs = false
	// the server's QoS cap below 2: what counts is the QoS Subscribe granted, not the one requested
	for _, qc := range []byte{1, 0} {
		qosCap = qc
		if c.Thorough() {
			histories(e, []string{"a", "a/+", "#"}, []string{"a"}, 4, 6)
		} else {
			histories(e, []string{"a", "a/+", "#"}, nil, 3, 5)
		}
	}
	qosCap = 2
	topics.MaxQosAllowed = 2
	// rejected filters on a populated store: they share leading levels with held subscriptions
	if c.Thorough() {
		histories(e, []string{"a/b", "a/b/a", "a/#/b", "a/b+", "a/b/#/a"}, []string{"a/b"}, 3, 5)
	} else {
		histories(e, []string{"a/b", "a/#/b", "a/b/#/a"}, nil, 3, 4)
	}
}

func init() { core.Register("C06", C06) }
