package broker

import (
	"fmt"

	"github.com/mdzio/go-mqtt/message"
	"github.com/mdzio/go-mqtt/service"
	"github.com/mdzio/go-mqtt/verifrt/vsched"
	"verif/engine/explore"
	"verif/harness/core"
	"verif/models/refcodec"
)

// c09sched: the end of a connection under every schedule.  In the HIST part
// each action is followed by quiescence, so the broker's receiver goroutine
// (which notices the end of the connection) and its processor goroutine (which
// notices the DISCONNECT packet) never compete.  A client that sends
// DISCONNECT and closes at once makes them compete: whichever schedule the
// broker's goroutines take, a DISCONNECT the broker has received suppresses
// the will, and an end without DISCONNECT publishes it exactly once.
func c09sched(c *core.Ctx) {
	dev := 2
	if c.Thorough() {
		dev = 3
	}
	type scen struct {
		name string
		body func()
	}
	wills := func(ps []*refcodec.Packet, topic string) []*refcodec.Packet { return publishesOn(ps, topic) }
	var scs []scen
	// the tail a client sends before it closes the connection; the broker never has
	// to answer X in these scenarios (an answer could fail on the closed
	// connection, and what should happen then is not what is examined here)
	type tail struct {
		name     string
		segments [][]*refcodec.Packet
		raw      []byte // sent after the segments
		graceful bool   // the tail ends with a DISCONNECT packet
		data     int    // QoS 0 publishes on "q" before the end
		// halfDead: the client has stopped receiving before it sends the tail (CloseRead: the
		// broker's answers fail with "broken pipe", the client's bytes still arrive)
		halfDead bool
	}
	q0 := func(pl string) *refcodec.Packet {
		return &refcodec.Packet{Type: refcodec.PUBLISH, Topic: []byte("q"), Payload: []byte(pl)}
	}
	disc := &refcodec.Packet{Type: refcodec.DISCONNECT}
	ping := &refcodec.Packet{Type: refcodec.PINGREQ}
	subx := &refcodec.Packet{Type: refcodec.SUBSCRIBE, ID: 21, Topics: [][]byte{[]byte("x/own")}, QoSs: []byte{1}}
	q1 := func(pl string) *refcodec.Packet {
		return &refcodec.Packet{Type: refcodec.PUBLISH, Topic: []byte("q"), QoS: 1, ID: 22, Payload: []byte(pl)}
	}
	tails := []tail{
		{name: "DISCONNECT and close at once", segments: [][]*refcodec.Packet{{disc}}, graceful: true},
		{name: "PUBLISH+DISCONNECT in one segment and close at once", segments: [][]*refcodec.Packet{{q0("d1"), disc}}, graceful: true, data: 1},
		{name: "PUBLISH, DISCONNECT in two segments and close at once", segments: [][]*refcodec.Packet{{q0("d1")}, {disc}}, graceful: true, data: 1},
		{name: "PUBLISH and close at once", segments: [][]*refcodec.Packet{{q0("d1")}}, data: 1},
		{name: "PUBLISH, half a packet and close at once", segments: [][]*refcodec.Packet{{q0("d1")}}, raw: []byte{0x30, 0x0a, 0x00}, data: 1},
		{name: "PUBLISH, reserved packet type", segments: [][]*refcodec.Packet{{q0("d1")}}, raw: []byte{0xF0, 0x00}, data: 1},
		{name: "PUBLISH, DISCONNECT header announcing a body that never comes, close at once", segments: [][]*refcodec.Packet{{q0("d1")}}, raw: []byte{0xE0, 0x02}, data: 1},
		{name: "PUBLISH, DISCONNECT with a reserved flag, close at once", segments: [][]*refcodec.Packet{{q0("d1")}}, raw: []byte{0xE1, 0x00}, data: 1},
		// packets the broker has to answer on a connection it cannot write to any more:
		// the failing answer is no reason to overlook the DISCONNECT behind it
		{name: "half-dead client: PINGREQ+DISCONNECT in one segment and close", segments: [][]*refcodec.Packet{{ping, disc}}, graceful: true, halfDead: true},
		{name: "half-dead client: PINGREQ, PINGREQ, DISCONNECT in three segments and close", segments: [][]*refcodec.Packet{{ping}, {ping}, {disc}}, graceful: true, halfDead: true},
		// (whether a QoS 1 PUBLISH whose PUBACK cannot be written is forwarded is not C09's
		// business: the number of forwarded publishes is not checked for that tail, data: -1)
		{name: "half-dead client: SUBSCRIBE+QoS 1 PUBLISH+DISCONNECT and close", segments: [][]*refcodec.Packet{{subx, q1("d1"), disc}}, graceful: true, data: -1, halfDead: true},
		{name: "half-dead client: PINGREQ and close", segments: [][]*refcodec.Packet{{ping}}, halfDead: true},
	}
	for _, tl := range tails {
		for _, wq := range []byte{0, 1, 2} {
			tl, wq := tl, wq
			// third variant (will QoS 0 again): the connection reports the end of the stream
			// together with the last bytes (n > 0 and io.EOF from one Read, as TLS connections do)
			eofWithData := wq == 2
			nm := fmt.Sprintf("%s (will QoS %d)", tl.name, wq)
			if eofWithData {
				wq = 0
				nm = tl.name + " (will QoS 0; the last bytes and the end of the stream arrive in one Read)"
			}
			scs = append(scs, scen{nm, func() {
				t := newTD()
				w := t.connect("W", 0, 65535, false)
				t.subscribe("W", "#", 2)
				// X connects with a will
				xc, err := t.w.Dial("X")
				if err != nil {
					vsched.Failf("harness: dial: %v", err)
					return
				}
				if eofWithData {
					xc.vc.PeerReadsEOFWithData()
				}
				xc.Send(ConnectPacket(ConnectOpts{ClientID: "x", Clean: true, KeepAlive: 65535, Will: &Will{"w/x", "last words", wq, wq == 1}}))
				t.w.Settle()
				if ps := xc.Take(); len(ps) != 1 || ps[0].Type != refcodec.CONNACK || ps[0].ReturnCode != 0 {
					vsched.Failf("harness: CONNECT answered by %s", Describe(ps))
					return
				}
				w.rc.Take()
				if vsched.Failed() {
					return
				}
				vsched.Mark()
				if tl.halfDead {
					xc.vc.CloseRead()
				}
				for _, seg := range tl.segments {
					var b []byte
					for _, p := range seg {
						b = append(b, refcodec.Encode(p)...)
					}
					xc.Conn.Write(b)
				}
				if len(tl.raw) > 0 {
					xc.Conn.Write(tl.raw)
				}
				xc.Cut()
				t.settleExcept()
				got := w.rc.Take()
				ws := wills(got, "w/x")
				if tl.graceful && len(ws) > 0 {
					vsched.Failf("the client sent DISCONNECT before it closed the connection and the will was published: %s", Describe(got))
					return
				}
				if !tl.graceful {
					if len(ws) != 1 {
						vsched.Failf("the connection ended without DISCONNECT and the will was published %d times: %s", len(ws), Describe(got))
						return
					}
					if string(ws[0].Payload) != "last words" || ws[0].QoS != wq {
						vsched.Failf("the will that was published is not the one of the CONNECT: %s", ws[0])
						return
					}
				}
				if n := len(publishesOn(got, "q")); tl.data >= 0 && n != tl.data {
					vsched.Failf("the client sent %d complete QoS 0 PUBLISH before the end, the subscriber received %d: %s", tl.data, n, Describe(got))
					return
				}
				// the retained will (QoS 1 variant) is there for a later subscriber exactly when it was published
				z := t.connect("Z", 0, 65535, false)
				z.rc.Send(&refcodec.Packet{Type: refcodec.SUBSCRIBE, ID: 6, Topics: [][]byte{[]byte("w/#")}, QoSs: []byte{1}})
				t.settleExcept()
				zr := publishesOn(z.rc.Take(), "w/x")
				wantRetained := 0
				if !tl.graceful && wq == 1 {
					wantRetained = 1
				}
				if len(zr) != wantRetained {
					vsched.Failf("a later subscriber received %d retained wills, expected %d: %s", len(zr), wantRetained, Describe(zr))
					return
				}
				if t.badStream() {
					return
				}
				vsched.Logf("ok")
			}})
		}
	}
	// a connection with a will is cut and its successor (same client id) connects at once,
	// with another will or none: the will of the connection that ended is published, once
	for _, v := range []struct {
		name               string
		oldClean, newClean bool
		newWill            *Will
	}{
		{"persistent, successor persistent with another will", false, false, &Will{"w/x", "second", 0, false}},
		{"persistent, successor persistent without will", false, false, nil},
		{"clean, successor clean with another will", true, true, &Will{"w/x", "second", 0, false}},
		{"persistent, successor clean without will", false, true, nil},
	} {
		v := v
		scs = append(scs, scen{"cut, successor connects at once (" + v.name + ")", func() {
			t := newTD()
			w := t.connect("W", 0, 65535, false)
			t.subscribe("W", "#", 2)
			x1, err := t.w.Dial("X1")
			if err != nil {
				vsched.Failf("harness: dial: %v", err)
				return
			}
			x1.Send(ConnectPacket(ConnectOpts{ClientID: "x", Clean: v.oldClean, KeepAlive: 65535, Will: &Will{"w/x", "first", 0, false}}))
			t.w.Settle()
			x1.Take()
			w.rc.Take()
			x2, err := t.w.Dial("X2")
			if err != nil {
				vsched.Failf("harness: dial: %v", err)
				return
			}
			if vsched.Failed() {
				return
			}
			vsched.Mark()
			x1.Cut()
			x2.Conn.Write(append(refcodec.Encode(ConnectPacket(ConnectOpts{ClientID: "x", Clean: v.newClean, KeepAlive: 65535, Will: v.newWill})), refcodec.Encode(&refcodec.Packet{Type: refcodec.PINGREQ})...))
			t.w.Settle()
			if got := x2.Take(); !hasType(got, refcodec.CONNACK) || !hasType(got, refcodec.PINGRESP) {
				vsched.Failf("CONNECT + PINGREQ of the successor answered by %s", Describe(got))
				return
			}
			ws := publishesOn(w.rc.Take(), "w/x")
			if len(ws) != 1 || string(ws[0].Payload) != "first" {
				vsched.Failf("the first connection (will \"first\") was cut, its successor is still connected; wills published: %s", Describe(ws))
				return
			}
			// the successor ends abnormally as well
			x2.Cut()
			t.w.Settle()
			ws = publishesOn(w.rc.Take(), "w/x")
			want := 0
			if v.newWill != nil {
				want = 1
			}
			if len(ws) != want || (want == 1 && string(ws[0].Payload) != "second") {
				vsched.Failf("the successor (will: %v) was cut; wills published: %s", v.newWill != nil, Describe(ws))
				return
			}
			if t.badStream() {
				return
			}
			vsched.Logf("ok")
		}})
	}
	// two handshakes with the same client id overlap (a client that gave up on a slow
	// connection attempt and tried again); afterwards both connections end abnormally:
	// each ending publishes the will of its own CONNECT
	// ... or one of them ends with a DISCONNECT packet: that suppresses the will of the
	// connection that sent it and of no other
	for _, ov := range []struct {
		first        string // which connection ends first
		discA, discB bool   // ends with a DISCONNECT packet
	}{{"A", false, false}, {"A", true, false}, {"A", false, true}, {"B", true, false}, {"B", false, true}, {"A", true, true}} {
		ov := ov
		how := func(d bool) string {
			if d {
				return "DISCONNECT"
			}
			return "cut"
		}
		scs = append(scs, scen{fmt.Sprintf("two overlapping handshakes with one client id, %s ends first (A: %s, B: %s)", ov.first, how(ov.discA), how(ov.discB)), func() {
			t := newTD()
			w := t.connect("W", 0, 65535, false)
			t.subscribe("W", "#", 2)
			a, err := t.w.Dial("A")
			if err != nil {
				vsched.Failf("harness: dial: %v", err)
				return
			}
			b, err := t.w.Dial("B")
			if err != nil || vsched.Failed() {
				return
			}
			w.rc.Take()
			vsched.Mark()
			a.Conn.Write(refcodec.Encode(ConnectPacket(ConnectOpts{ClientID: "x", Clean: false, KeepAlive: 65535, Will: &Will{"w/a", "will of A", 1, false}})))
			b.Conn.Write(refcodec.Encode(ConnectPacket(ConnectOpts{ClientID: "x", Clean: false, KeepAlive: 65535, Will: &Will{"w/b", "will of B", 0, false}})))
			t.w.Settle()
			if ga, gb := a.Take(), b.Take(); !hasType(ga, refcodec.CONNACK) || !hasType(gb, refcodec.CONNACK) {
				vsched.Failf("the two CONNECTs were answered by %s and %s", Describe(ga), Describe(gb))
				return
			}
			// the second connection goes on working: it subscribes a filter of its own
			b.Send(&refcodec.Packet{Type: refcodec.SUBSCRIBE, ID: 3, Topics: [][]byte{[]byte("data/b")}, QoSs: []byte{1}})
			t.w.Settle()
			if gb := b.Take(); !hasType(gb, refcodec.SUBACK) {
				vsched.Failf("the SUBSCRIBE of the second connection was answered by %s", Describe(gb))
				return
			}
			w.rc.Take()
			end := func(name string) bool {
				rc, disc, topic, other := a, ov.discA, "w/a", "w/b"
				if name == "B" {
					rc, disc, topic, other = b, ov.discB, "w/b", "w/a"
				}
				if disc {
					rc.Send(&refcodec.Packet{Type: refcodec.DISCONNECT})
					t.w.Settle()
				}
				rc.Cut()
				t.w.Settle()
				got := w.rc.Take()
				mine, others := publishesOn(got, topic), publishesOn(got, other)
				want := 1
				if disc {
					want = 0
				}
				wq := byte(1)
				if name == "B" {
					wq = 0
				}
				if len(mine) != want || len(others) != 0 || (want == 1 && (string(mine[0].Payload) != "will of "+name || mine[0].QoS != wq)) {
					vsched.Failf("connection %s (will \"will of %s\" on %s, QoS %d) ended by %s; wills published: %s", name, name, topic, wq, how(disc), Describe(got))
					return false
				}
				return true
			}
			order := []string{"A", "B"}
			if ov.first == "B" {
				order = []string{"B", "A"}
			}
			for _, n := range order {
				if !end(n) {
					return
				}
			}
			if t.badStream() {
				return
			}
			vsched.Logf("ok")
		}})
	}
	// Server.Close comes after (or while) connections with a will end.  Close stops the
	// network witnesses too, so the observer is an in-process subscriber (Server.Subscribe).
	// A connection that ended before Close had its will published exactly once (never after
	// DISCONNECT) and Close adds nothing to that; a connection Close itself ends, or one
	// that is cut while Close runs, has its will published at most once.
	for _, cause := range []string{"cut", "disconnect", "garbage", "alive", "cut-while-closing", "disconnect-while-closing"} {
		for _, second := range []bool{false, true} {
			cause, second := cause, second
			nm := fmt.Sprintf("Server.Close after/with a will-bearing connection: %s", cause)
			if second {
				nm += ", a second one alive"
			}
			scs = append(scs, scen{nm, func() {
				t := newTD()
				seen := map[string]int{}
				fn := service.OnPublishFunc(func(msg *message.PublishMessage) error {
					seen[string(msg.Topic())+"="+string(msg.Payload())]++
					return nil
				})
				if err := t.w.Svr.Subscribe("will/#", 0, &fn); err != nil {
					vsched.Failf("harness: Server.Subscribe: %v", err)
					return
				}
				a := t.connect("A", 0, 65535, true)
				var b *tdConn
				if second {
					b = t.connect("B", 0, 65535, true)
				}
				if vsched.Failed() {
					return
				}
				want := -1 // at most once
				switch cause {
				case "cut":
					a.rc.Cut()
					want = 1
				case "garbage":
					a.rc.SendRaw([]byte{0xf0, 0x00})
					want = 1
				case "disconnect":
					a.rc.Send(&refcodec.Packet{Type: refcodec.DISCONNECT})
					want = 0
				}
				t.settleExcept()
				if want >= 0 && seen["will/a=gone:a"] != want {
					vsched.Failf("connection A ended (%s): its will was published %d times, expected %d", cause, seen["will/a=gone:a"], want)
					return
				}
				vsched.Mark()
				closed := false
				vsched.Go("closer", func() {
					t.w.Svr.Close()
					closed = true
				})
				switch cause {
				case "cut-while-closing":
					a.rc.Cut()
				case "disconnect-while-closing":
					a.rc.Send(&refcodec.Packet{Type: refcodec.DISCONNECT})
				}
				a.ended = true
				if b != nil {
					b.ended = true
				}
				t.settleExcept()
				if !closed {
					vsched.Failf("Server.Close has not returned: %s", core.ParkedString(vsched.Alive()))
					return
				}
				na := seen["will/a=gone:a"]
				switch {
				case want >= 0 && na != want:
					vsched.Failf("connection A had ended (%s) and its will had been published %d times; after Server.Close it has been published %d times", cause, want, na)
					return
				case na > 1:
					vsched.Failf("the will of connection A (%s) was published %d times", cause, na)
					return
				}
				if nb := seen["will/b=gone:b"]; nb > 1 {
					vsched.Failf("the will of connection B (ended by Server.Close) was published %d times", nb)
					return
				}
				for k, n := range seen {
					if k != "will/a=gone:a" && k != "will/b=gone:b" {
						vsched.Failf("the in-process subscriber of will/# received %q (%d times)", k, n)
						return
					}
				}
				vsched.Logf("ok")
			}})
		}
	}
	for _, sc := range scs {
		if c.Expired() || c.HasViolation() {
			return
		}
		sc := sc
		st := c.RunSched(explore.SchedOpts{Name: sc.name, Bound: -1, DevBound: dev, Cache: true, UseMark: true, Body: sc.body, MaxPoints: 100000, Check: schedCheck, Shard: c.Shard, NShards: c.NShards},
			func(v *explore.Violation) string { return "C09 " + sc.name + " :: " + violClass(v.Message) })
		if st != nil && c.Shard == 0 {
			c.Rep.Sample(map[string]interface{}{"scenario": sc.name, "deviations": dev, "executions": st.Executions, "states": st.States})
		}
	}
}
