package broker

import (
	"encoding/json"
	"fmt"
	"strings"
	"time"

	"github.com/mdzio/go-mqtt/verifrt/vsched"
	"verif/engine/explore"
	"verif/harness/codec"
	"verif/harness/core"
	"verif/models/refcodec"
)

// hostileHistory: the witness pair exchanges a message before and after the
// attacker's bytes; only the attacker's connection may be affected.
func hostileHistory(stream []byte, post bool, then string) []Action {
	h := []Action{
		{Kind: "connect", Client: "WP", Opts: ConnectOpts{ClientID: "wp", Clean: true, KeepAlive: 65535}},
		{Kind: "connect", Client: "WS", Opts: ConnectOpts{ClientID: "ws", Clean: true, KeepAlive: 65535}},
		sub("WS", 1, "wit/ness", 1),
		// a wildcard subscription of the witness below a prefix only the attacker publishes on
		sub("WS", 6, "atk/#", 0),
		pub("WP", "wit/ness", 1, 11, "before"),
	}
	if post {
		h = append(h, Action{Kind: "connect", Client: "X", Opts: ConnectOpts{ClientID: "x", Clean: true, KeepAlive: 30}}, sub("X", 2, "wit/ness", 0),
			Action{Kind: "hostile", Client: "X", Raw: stream, RawDesc: fmt.Sprintf("%x", head(stream, 24))})
	} else {
		h = append(h, Action{Kind: "hostile-dial", Client: "X", Raw: stream, RawDesc: fmt.Sprintf("%x", head(stream, 24))})
	}
	switch then {
	case "cut":
		h = append(h, Action{Kind: "hostile-cut", Client: "X"})
	case "more":
		h = append(h, Action{Kind: "hostile", Client: "X", Raw: []byte{0xc0, 0x00, 0xff, 0xff}, RawDesc: "PINGREQ + garbage"})
	}
	h = append(h, pub("WP", "wit/ness", 1, 12, "after-1"), pub("WP", "wit/ness", 0, 0, "after-2"), Action{Kind: "ping", Client: "WP"}, Action{Kind: "ping", Client: "WS"},
		// the witnesses can still change their subscriptions (writers on the shared topic tree)
		sub("WS", 3, "wit/2", 0), pub("WP", "wit/2", 0, 0, "after-3"), unsub("WS", 4, "wit/2"), pub("WP", "wit/2", 0, 0, "after-4"))
	return h
}

// C05: a hostile or dying client cannot hurt others.
func C05(c *core.Ctx) {
	dev := 1
	if c.Thorough() {
		dev = 2
	}
	c.Rep.Bound = fmt.Sprintf("ENUM x HIST: the valid packet corpus, every (third) truncation and single-byte corruptions of its length/flag fields, oversized announced lengths, and every cut point of a valid exchange, each sent before and after CONNECT on the attacker's connection, followed by a cut / more bytes / nothing, with a witness publisher and subscriber exchanging numbered messages before and after; 13 odd CONNECTs naming a victim's client id (invalid will topics, flag inconsistencies, levels), attacker cut / disconnects / stays, then the victim connects with CleanSession 0/1, subscribes and receives; SCHED: the attacker (subscribed to the witness topic; reading, not reading, or with a full outgoing ring) is cut, sends garbage, sends DISCONNECT or runs into its keep-alive while the witness publishes to it, every schedule deviating from the default at <= %d points from the cut on", dev)
	c.Rep.Rule = "oracle: no library goroutine panics outside a recover (the process stays up), the witness connections stay open, answer PINGREQ and receive exactly the numbered messages, in order; nothing is demanded of the attacker's own connection; non-trivial = streams after which the attacker's connection was closed by the broker"
	comps := map[string]bool{"route": true, "closed": true, "acks": true, "stream": true}
	if c.Replay != nil {
		if len(c.Replay.Scenario) > 8 && c.Replay.Scenario[:8] == "hostile:" {
			fmt.Println("replay:", c.Replay.Scenario, "\n ", c.Replay.Message)
			for _, l := range c.Replay.Log {
				fmt.Println(l)
			}
			if c.Replay.Crash != "" {
				fmt.Println("CRASH:", c.Replay.Crash)
			}
			c.Rep.Scenarios++
			return
		}
		c05poison(c)
		c05halfdead(c)
		c05sched(c, dev)
		c05bystander(c, dev)
		c05handshakeStall(c, dev)
		return
	}
	streams := codec.HostileStreams(c.Thorough())
	// oversized announced lengths
	for _, n := range []int{8191, 8192, 8193, 16383, 16384, 16385, 1 << 21, 1<<28 - 1} {
		hdr := append([]byte{0x30}, refcodec.VarLen(n)...)
		streams = append(streams, append(hdr, 0x00, 0x01, 'w', 'x', 'y'))
	}
	// a remaining-length field of five bytes (MQTT 3.1.1 allows four): as a first packet and
	// behind a CONNECT, announcing 512 MiB, 256 MiB + 1 and 12 bytes (not the 32 GiB that ff ff ff ff 7f announces:
	// a tree that accepts such a field really allocates and copies what it announces)
	for _, t := range []byte{0x10, 0x30} {
		for _, lf := range [][]byte{{0x80, 0x80, 0x80, 0x80, 0x02}, {0x80, 0x80, 0x80, 0x80, 0x01}, {0x8c, 0x80, 0x80, 0x80, 0x00}} {
			streams = append(streams, append(append([]byte{t}, lf...), 0x00, 0x04, 'M', 'Q', 'T', 'T', 0x04, 0x02, 0x00, 0x3c, 0x00, 0x00))
		}
	}
	// well-formed publishes the broker cannot route (topics starting with '$'): the error
	// paths of the fan-out, with and without a QoS handshake
	for _, q := range []byte{0, 1, 2} {
		st := refcodec.Encode(&refcodec.Packet{Type: refcodec.PUBLISH, Topic: []byte("$SYS/x"), QoS: q, ID: 21, Payload: []byte("d"), Retain: q == 1})
		if q == 2 {
			st = append(st, refcodec.Encode(&refcodec.Packet{Type: refcodec.PUBREL, ID: 21})...)
		}
		streams = append(streams, st)
	}
	// publishes whose topic name no subscriber may ever be shown: a NUL character [MQTT-1.5.3-2]
	for _, tp := range []string{"atk/\x00", "atk/a\x00b", "\x00"} {
		streams = append(streams, refcodec.Encode(&refcodec.Packet{Type: refcodec.PUBLISH, Topic: []byte(tp), Payload: []byte("nul")}),
			refcodec.Encode(&refcodec.Packet{Type: refcodec.PUBLISH, Topic: []byte(tp), QoS: 1, ID: 31, Retain: true, Payload: []byte("nul")}))
	}
	// every cut point of a valid exchange
	var exch []byte
	for _, p := range []*refcodec.Packet{
		{Type: refcodec.SUBSCRIBE, ID: 5, Topics: [][]byte{[]byte("x/own")}, QoSs: []byte{1}},
		{Type: refcodec.PUBLISH, Topic: []byte("x/own"), QoS: 1, ID: 6, Payload: []byte("from-x")},
		{Type: refcodec.PINGREQ}, {Type: refcodec.DISCONNECT}} {
		exch = append(exch, refcodec.Encode(p)...)
	}
	n := 0
	closedByBroker := 0
	for si, st := range streams {
		for _, post := range []bool{false, true} {
			for _, then := range []string{"", "cut", "more"} {
				n++
				if c.NShards > 1 && n%c.NShards != c.Shard {
					continue
				}
				if !c.Thorough() && then == "more" && si%4 != 0 {
					continue
				}
				if c.Expired() || c.HasViolation() {
					return
				}
				hist := hostileHistory(st, post, then)
				spec := &HistSpec{Name: "hostile", Comps: comps, CrashIsViolation: true}
				r := spec.RunHistory(hist, false)
				c.Rep.Evaluations++
				c.Rep.Executions++
				c.Rep.States++
				c.Rep.Transitions += int64(r.Steps)
				if r.Violation != "" {
					rr := spec.RunHistory(hist, true)
					in, _ := json.Marshal(map[string]interface{}{"stream": fmt.Sprintf("%x", st), "after_connect": post, "then": then})
					if c.Violate("C05 hostile :: "+violClass(r.Violation), core.Replay{Scenario: fmt.Sprintf("hostile: stream %x (after CONNECT: %v), then %q", head(st, 32), post, then), Message: r.Violation, Input: in, Log: tailS(rr.Trace, 40), Crash: rr.Crash}) {
						return
					}
				}
				if r.Note != "" {
					c.Rep.Notes = append(c.Rep.Notes, "out-of-scope mismatch: "+noteClass(r.Note))
				}
				_ = closedByBroker
			}
		}
	}
	// valid exchange cut at every byte
	for k := 0; k <= len(exch); k++ {
		n++
		if c.NShards > 1 && n%c.NShards != c.Shard {
			continue
		}
		hist := hostileHistory(exch[:k], true, "cut")
		spec := &HistSpec{Name: "hostile", Comps: comps, CrashIsViolation: true}
		r := spec.RunHistory(hist, false)
		c.Rep.Evaluations++
		c.Rep.Executions++
		c.Rep.States++
		c.Rep.Nontrivial++
		c.Rep.Transitions += int64(r.Steps)
		if r.Violation != "" {
			rr := spec.RunHistory(hist, true)
			if c.Violate("C05 cut-point :: "+violClass(r.Violation), core.Replay{Scenario: fmt.Sprintf("hostile: valid exchange cut after %d bytes", k), Message: r.Violation, Log: tailS(rr.Trace, 40), Crash: rr.Crash}) {
				return
			}
		}
	}
	c.Rep.Scenarios++
	c.Rep.Sample(map[string]interface{}{"search": "hostile streams", "streams": len(streams), "modes": "before/after CONNECT x nothing/cut/more", "example": fmt.Sprintf("%x", streams[17])})
	c05poison(c)
	if c.HasViolation() || c.Expired() {
		return
	}
	if c.Shard == 0 {
		c05halfdead(c)
	}
	if c.HasViolation() || c.Expired() {
		return
	}
	c05sched(c, dev)
	if c.HasViolation() || c.Expired() {
		return
	}
	c05bystander(c, dev)
	c05handshakeStall(c, dev)
}

// c05sched: the attacker's teardown races the fan-out of the witness' publishes to it.
func c05sched(c *core.Ctx, dev int) {
	for _, variant0 := range []string{"attacker-first", "attacker-last", "attacker-not-reading", "attacker-ring-full", "attacker-ring-full/garbage", "attacker-ring-full/disconnect", "attacker-ring-full/keepalive",
		// the stalled attacker has sent something that needs an answer (a PINGREQ; a publish on the
		// topic it is subscribed to itself) before it vanishes: its own processor is stuck behind
		// the witness publisher's delivery and cannot be the one that notices the end
		"attacker-ring-full/pinged", "attacker-ring-full/own-publish",
		"attacker-last+subscribed-first", "attacker-not-reading+subscribed-first", "attacker-ring-full+subscribed-first"} {
		for _, q := range []byte{0, 1} {
			variant0, q := variant0, q
			name := fmt.Sprintf("cut-during-fanout/%s/qos%d", variant0, q)
			// "+subscribed-first": the attacker's subscription precedes the witness' in the
			// subscriber list of the topic (the fan-out reaches the attacker first)
			variant := strings.TrimSuffix(variant0, "+subscribed-first")
			subFirst := variant != variant0
			body := func() {
				t := newTD()
				var x *tdConn
				if variant == "attacker-first" {
					x = t.connect("X", 0, 65535, false)
				}
				wp := t.connect("WP", 0, 65535, false)
				ws := t.connect("WS", 0, 65535, false)
				if x == nil {
					cap := 0
					ka := uint16(65535)
					if variant != "attacker-first" && variant != "attacker-last" {
						cap = 256
					}
					if variant == "attacker-ring-full/keepalive" {
						ka = 10
					}
					x = t.connect("X", cap, ka, false)
				}
				if subFirst {
					t.subscribe("X", "wit/ness", q)
					t.subscribe("WS", "wit/ness", 1)
				} else {
					t.subscribe("WS", "wit/ness", 1)
					t.subscribe("X", "wit/ness", q)
				}
				if vsched.Failed() {
					return
				}
				if len(variant) >= 18 && variant[:18] == "attacker-ring-full" {
					// 8000-byte messages first: the attacker's outgoing ring fills up and the
					// witness publisher's processor ends up waiting for room in it
					ws.noRead = false
					for k := 0; k < 3; k++ {
						wp.rc.Send(&refcodec.Packet{Type: refcodec.PUBLISH, Topic: []byte("wit/ness"), Payload: []byte(big(8000, byte(k)))})
					}
					t.settleExcept()
					ws.rc.Take()
					switch variant {
					case "attacker-ring-full/pinged":
						x.rc.Send(&refcodec.Packet{Type: refcodec.PINGREQ})
						t.settleExcept()
					case "attacker-ring-full/own-publish":
						x.rc.Send(&refcodec.Packet{Type: refcodec.PUBLISH, Topic: []byte("wit/ness"), Payload: []byte(big(8000, 9))})
						t.settleExcept()
						ws.rc.Take()
					}
				}
				vsched.Mark()
				// the witness publishes two messages, the attacker vanishes
				for k := 0; k < 2; k++ {
					wp.rc.Send(&refcodec.Packet{Type: refcodec.PUBLISH, Topic: []byte("wit/ness"), QoS: q, ID: uint16(20 + k), Payload: []byte(fmt.Sprintf("n%d", k))})
				}
				switch variant {
				case "attacker-ring-full/garbage":
					x.rc.SendRaw([]byte{0xf0, 0x00})
				case "attacker-ring-full/disconnect":
					x.rc.Send(&refcodec.Packet{Type: refcodec.DISCONNECT})
				case "attacker-ring-full/keepalive":
					vsched.Advance(16 * time.Second)
				default:
					x.rc.Cut()
				}
				x.ended = true
				t.settleExcept()
				// the witness pair is unharmed
				for _, w := range []*tdConn{wp, ws} {
					if w.rc.EOF || w.rc.ReadErr != "" {
						vsched.Failf("the broker closed the connection of %s although only the other client misbehaved", w.name)
						return
					}
					if w.rc.Bad != "" {
						vsched.Failf("%s", w.rc.Bad)
						return
					}
				}
				next := 0
				for _, p := range ws.rc.Take() {
					if p.Type == refcodec.PUBLISH {
						if len(p.Payload) == 8000 {
							continue // the rest of the set-up traffic, released by the attacker's end
						}
						if string(p.Payload) != fmt.Sprintf("n%d", next) {
							vsched.Failf("the witness subscriber received %q where message n%d was due", p.Payload, next)
							return
						}
						next++
					}
				}
				if next != 2 {
					vsched.Failf("the witness subscriber received %d of 2 messages", next)
					return
				}
				if q == 1 {
					acks := 0
					for _, p := range wp.rc.Take() {
						if p.Type == refcodec.PUBACK {
							acks++
						}
					}
					if acks != 2 {
						vsched.Failf("the witness publisher received %d of 2 PUBACKs", acks)
						return
					}
				}
				wp.rc.Send(&refcodec.Packet{Type: refcodec.PINGREQ})
				t.settleExcept()
				if !hasType(wp.rc.Take(), refcodec.PINGRESP) {
					vsched.Failf("the witness publisher gets no PINGRESP after the other client was cut")
					return
				}
				t.checkEnded(nil)
				vsched.Logf("ok")
			}
			st := c.RunSched(explore.SchedOpts{Name: name, Bound: -1, DevBound: dev, Cache: true, UseMark: true, Body: body, MaxPoints: 100000, Check: schedCheck, Shard: c.Shard, NShards: c.NShards},
				func(v *explore.Violation) string { return "C05 " + name + " :: " + violClass(v.Message) })
			if st != nil && c.Shard == 0 {
				c.Rep.Sample(map[string]interface{}{"scenario": name, "deviations": dev, "executions": st.Executions, "states": st.States})
			}
			if c.HasViolation() || c.Expired() {
				return
			}
		}
	}
}

func init() { core.Register("C05", C05) }

// c05bystander: the attacker's subscription follows a slow bystander's in the
// subscriber list.  The witness publisher's processor is held inside the
// delivery to the bystander (whose ring is full) - after it has looked up the
// subscribers, the attacker among them.  The attacker is cut and torn down
// completely; then the bystander reads again and the fan-out continues to the
// attacker's stale entry.  The publisher must stay connected and the witness
// subscriber must get every message.
func c05bystander(c *core.Ctx, dev int) {
	for _, q := range []byte{0, 1} {
		q := q
		name := fmt.Sprintf("cut-during-fanout/attacker-behind-slow-bystander/qos%d", q)
		body := func() {
			t := newTD()
			wp := t.connect("WP", 0, 65535, false)
			by := t.connect("BY", 256, 65535, false)
			x := t.connect("X", 0, 65535, false)
			ws := t.connect("WS", 0, 65535, false)
			t.subscribe("BY", "wit/ness", 0)
			t.subscribe("X", "wit/ness", q)
			t.subscribe("WS", "wit/ness", 1)
			if vsched.Failed() {
				return
			}
			// big messages: the bystander's ring fills up, the publisher's processor parks in
			// the delivery to it with the subscriber list (BY, X, WS) already looked up
			for k := 0; k < 3; k++ {
				wp.rc.Send(&refcodec.Packet{Type: refcodec.PUBLISH, Topic: []byte("wit/ness"), Payload: []byte(big(8000, byte(k)))})
			}
			t.settleExcept()
			ws.rc.Take()
			x.rc.Take()
			vsched.Mark()
			x.rc.Cut()
			x.ended = true
			t.settleExcept()
			// the bystander reads again
			by.noRead = false
			for i := 0; i < 8; i++ {
				t.settleExcept()
			}
			wp.rc.Send(&refcodec.Packet{Type: refcodec.PUBLISH, Topic: []byte("wit/ness"), QoS: q, ID: 30, Payload: []byte("after")})
			for i := 0; i < 4; i++ {
				t.settleExcept()
			}
			for _, w := range []*tdConn{wp, ws, by} {
				if w.rc.EOF || w.rc.ReadErr != "" {
					vsched.Failf("the broker closed the connection of %s although only the other client went away", w.name)
					return
				}
			}
			if t.badStream() {
				return
			}
			n8k, nafter := 0, 0
			for _, p := range publishesOn(ws.rc.Take(), "wit/ness") {
				if len(p.Payload) == 8000 {
					n8k++
				} else if string(p.Payload) == "after" {
					nafter++
				}
			}
			// two of the three big messages were delivered before the mark
			if n8k != 1 || nafter != 1 {
				vsched.Failf("the witness subscriber received %d of 1 outstanding big messages and %d of 1 later messages", n8k, nafter)
				return
			}
			wp.rc.Take()
			wp.rc.Send(&refcodec.Packet{Type: refcodec.PINGREQ})
			t.settleExcept()
			if !hasType(wp.rc.Take(), refcodec.PINGRESP) {
				vsched.Failf("the witness publisher gets no PINGRESP after the other client was cut")
				return
			}
			t.checkEnded(nil)
			vsched.Logf("ok")
		}
		st := c.RunSched(explore.SchedOpts{Name: name, Bound: -1, DevBound: dev, Cache: true, UseMark: true, Body: body, MaxPoints: 100000, Check: schedCheck, Shard: c.Shard, NShards: c.NShards},
			func(v *explore.Violation) string { return "C05 " + name + " :: " + violClass(v.Message) })
		if st != nil && c.Shard == 0 {
			c.Rep.Sample(map[string]interface{}{"scenario": name, "deviations": dev, "executions": st.Executions, "states": st.States})
		}
		if c.HasViolation() || c.Expired() {
			return
		}
	}
}

// c05halfdead: the publisher's connection breaks in one direction only - the
// broker cannot write to it any more (its sender has noticed and closed the
// outgoing ring), but what the publisher had sent before still arrives and is
// processed.  What it released (PUBREL) or published must reach the bystander
// exactly once; the bystander's own connection is unaffected.
func c05halfdead(c *core.Ctx) {
	for _, v := range []string{"PUBREL after the break", "QoS 1 PUBLISH after the break", "QoS 0 PUBLISH after the break"} {
		if c.Replay != nil && c.Replay.Scenario != "half-dead publisher: "+v {
			continue
		}
		if c.Expired() || c.HasViolation() {
			return
		}
		v := v
		body := func() {
			t := newTD()
			ws := t.connect("WS", 0, 65535, false)
			t.subscribe("WS", "wit/ness", 2)
			p := t.connect("P", 0, 65535, false)
			p.rc.AutoAck = false
			if v == "PUBREL after the break" {
				p.rc.Send(&refcodec.Packet{Type: refcodec.PUBLISH, Topic: []byte("wit/ness"), QoS: 2, ID: 9, Payload: []byte("released")})
				t.settleExcept()
				if got := p.rc.Take(); !hasType(got, refcodec.PUBREC) {
					vsched.Failf("harness: QoS 2 PUBLISH answered by %s", Describe(got))
					return
				}
			}
			// the broker -> publisher direction breaks; a PINGREQ makes the broker's sender notice
			p.rc.vc.CloseRead()
			p.noRead = true
			p.rc.Send(&refcodec.Packet{Type: refcodec.PINGREQ})
			t.settleExcept()
			want := "released"
			switch v {
			case "PUBREL after the break":
				p.rc.Send(&refcodec.Packet{Type: refcodec.PUBREL, ID: 9})
			case "QoS 1 PUBLISH after the break":
				want = "q1"
				p.rc.Send(&refcodec.Packet{Type: refcodec.PUBLISH, Topic: []byte("wit/ness"), QoS: 1, ID: 10, Payload: []byte("q1")})
			default:
				want = "q0"
				p.rc.Send(&refcodec.Packet{Type: refcodec.PUBLISH, Topic: []byte("wit/ness"), Payload: []byte("q0")})
			}
			t.settleExcept()
			p.rc.Cut()
			p.ended = true
			t.settleExcept()
			if ws.rc.EOF || ws.rc.ReadErr != "" {
				vsched.Failf("the broker closed the bystander's connection")
				return
			}
			n := 0
			for _, pk := range publishesOn(ws.rc.Take(), "wit/ness") {
				if string(pk.Payload) == want {
					n++
				}
			}
			// a message the broker took over (PUBREC sent) and the publisher released is due
			// exactly once (C02); an unacknowledged QoS 1 or a QoS 0 publish of a dying
			// connection may be lost, but must not arrive twice
			if (v == "PUBREL after the break" && n != 1) || n > 1 {
				vsched.Failf("the bystander received the message its publisher had sent before its connection was gone %d times", n)
				return
			}
			t.checkEnded(nil)
			if t.badStream() {
				return
			}
			vsched.Logf("ok")
		}
		res := explore.RunDefault(body)
		if c.Replay != nil {
			fmt.Println("replay: half-dead publisher:", v, res.Failures, firstLine(res.Crash))
			c.Rep.Scenarios++
			return
		}
		c.Rep.Executions++
		c.Rep.Evaluations++
		c.Rep.States++
		c.Rep.Nontrivial++
		c.Rep.Transitions += int64(len(res.Points))
		msg := ""
		if res.Status == vsched.StCrash {
			msg = "a library goroutine panicked: " + firstLine(res.Crash)
		} else if res.Status == vsched.StHorizon {
			msg = "no quiescence: the broker keeps running without input"
		} else if len(res.Failures) > 0 {
			msg = res.Failures[0]
		}
		if msg != "" {
			if c.Violate("C05 half-dead :: "+violClass(msg), core.Replay{Scenario: "half-dead publisher: " + v, Message: msg, Log: res.Log, Crash: res.Crash}) {
				return
			}
		}
	}
	c.Rep.Scenarios++
}
