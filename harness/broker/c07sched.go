package broker

import (
	"github.com/mdzio/go-mqtt/verifrt/vsched"
	"verif/engine/explore"
	"verif/harness/core"
	"verif/models/refcodec"
)

// c07sched: "takes effect at the ack" under every schedule.  In the HIST part
// the probe publishes are sent after the broker has gone quiet, so an
// acknowledgement that overtakes its own effect is invisible there.  Here a
// reactive client thread reads the subscriber's connection and, the moment the
// acknowledgement has arrived, publishes the probe through another
// connection; the explorer then tries every schedule (within the deviation
// bound) of the broker's goroutines between the acknowledgement leaving and
// the probe being routed.
func c07sched(c *core.Ctx) {
	dev := 2
	if c.Thorough() {
		dev = 3
	}
	type scen struct {
		name string
		body func()
	}
	reactor := func(s *tdConn, ack byte, then func()) *rx {
		s.noRead = true // the reactor thread owns the reading side from now on
		return startReactor(s.name, s.rc, func(p *refcodec.Packet) bool { return p.Type == ack }, then)
	}
	probe := func(p *tdConn, topic string) func() {
		return func() {
			p.rc.Conn.Write(refcodec.Encode(&refcodec.Packet{Type: refcodec.PUBLISH, Topic: []byte(topic), Payload: []byte("probe")}))
		}
	}
	probesIn := func(r *rx, topic string) (before, after int) {
		for i, p := range r.pkts {
			if p.Type == refcodec.PUBLISH && string(p.Topic) == topic && string(p.Payload) == "probe" {
				if i < r.ackAt {
					before++
				} else {
					after++
				}
			}
		}
		return
	}
	var scs []scen
	for _, filters := range [][]string{{"t"}, {"x/+", "t"}} {
		filters := filters
		suffix := ""
		if len(filters) > 1 {
			suffix = " (second of two filters)"
		}
		scs = append(scs, scen{"probe published the moment the UNSUBACK arrives" + suffix, func() {
			t := newTD()
			p := t.connect("P", 0, 65535, false)
			s := t.connect("S", 0, 65535, false)
			for _, f := range filters {
				t.subscribe("S", f, 0)
			}
			if vsched.Failed() {
				return
			}
			vsched.Mark()
			r := reactor(s, refcodec.UNSUBACK, probe(p, "t"))
			var fs [][]byte
			for _, f := range filters {
				fs = append(fs, []byte(f))
			}
			s.rc.Conn.Write(refcodec.Encode(&refcodec.Packet{Type: refcodec.UNSUBSCRIBE, ID: 9, Topics: fs}))
			t.settleExcept()
			if r.ackAt < 0 {
				vsched.Failf("the UNSUBSCRIBE was not acknowledged: %s", Describe(r.pkts))
				return
			}
			if r.pkts[r.ackAt].ID != 9 {
				vsched.Failf("UNSUBACK carries identifier %d, the request had 9", r.pkts[r.ackAt].ID)
				return
			}
			if _, after := probesIn(r, "t"); after > 0 {
				vsched.Failf("a message published after the client had received the UNSUBACK was still delivered to it: %s", Describe(r.pkts))
				return
			}
			if t.badStream() {
				return
			}
			vsched.Logf("ok")
		}})
		scs = append(scs, scen{"probe published the moment the SUBACK arrives" + suffix, func() {
			t := newTD()
			p := t.connect("P", 0, 65535, false)
			s := t.connect("S", 0, 65535, false)
			if vsched.Failed() {
				return
			}
			vsched.Mark()
			r := reactor(s, refcodec.SUBACK, probe(p, "t"))
			var fs [][]byte
			var qs []byte
			for _, f := range filters {
				fs = append(fs, []byte(f))
				qs = append(qs, 1)
			}
			s.rc.Conn.Write(refcodec.Encode(&refcodec.Packet{Type: refcodec.SUBSCRIBE, ID: 9, Topics: fs, QoSs: qs}))
			t.settleExcept()
			if r.ackAt < 0 {
				vsched.Failf("the SUBSCRIBE was not acknowledged: %s", Describe(r.pkts))
				return
			}
			a := r.pkts[r.ackAt]
			if a.ID != 9 || len(a.Codes) != len(filters) {
				vsched.Failf("SUBACK %s does not answer the request (id 9, %d filters)", a, len(filters))
				return
			}
			before, after := probesIn(r, "t")
			if before != 0 || after != 1 {
				vsched.Failf("a message published after the client had received the SUBACK was delivered %d times (and %d times before the SUBACK): %s", after, before, Describe(r.pkts))
				return
			}
			if t.badStream() {
				return
			}
			vsched.Logf("ok")
		}})
	}
	// a resumed session: the UNSUBSCRIBE (or a SUBSCRIBE that lowers the QoS) is
	// pipelined right behind the CONNECT, while the broker restores the session's
	// subscriptions
	for _, kind := range []string{"UNSUBSCRIBE", "SUBSCRIBE at another QoS"} {
		kind := kind
		scs = append(scs, scen{"resumed session, " + kind + " pipelined behind the CONNECT, probe at the ack", func() {
			t := newTD()
			p := t.connect("P", 0, 65535, false)
			x1, err := t.w.Dial("X1")
			if err != nil {
				vsched.Failf("harness: dial: %v", err)
				return
			}
			x1.Send(ConnectPacket(ConnectOpts{ClientID: "x", Clean: false, KeepAlive: 65535}))
			t.w.Settle()
			x1.Send(&refcodec.Packet{Type: refcodec.SUBSCRIBE, ID: 1, Topics: [][]byte{[]byte("t")}, QoSs: []byte{1}})
			t.w.Settle()
			x1.Send(&refcodec.Packet{Type: refcodec.DISCONNECT})
			t.w.Settle()
			x2, err := t.w.Dial("X2")
			if err != nil || vsched.Failed() {
				return
			}
			x2.Dead = true // the reactor owns the reading side
			vsched.Mark()
			ack := byte(refcodec.UNSUBACK)
			req := &refcodec.Packet{Type: refcodec.UNSUBSCRIBE, ID: 9, Topics: [][]byte{[]byte("t")}}
			if kind != "UNSUBSCRIBE" {
				ack = refcodec.SUBACK
				req = &refcodec.Packet{Type: refcodec.SUBSCRIBE, ID: 9, Topics: [][]byte{[]byte("t")}, QoSs: []byte{0}}
			}
			r := startReactor("X2", x2, func(pk *refcodec.Packet) bool { return pk.Type == ack }, func() {
				p.rc.Conn.Write(refcodec.Encode(&refcodec.Packet{Type: refcodec.PUBLISH, Topic: []byte("t"), QoS: 1, ID: 70, Payload: []byte("probe")}))
			})
			x2.Conn.Write(append(refcodec.Encode(ConnectPacket(ConnectOpts{ClientID: "x", Clean: false, KeepAlive: 65535})), refcodec.Encode(req)...))
			t.settleExcept()
			if r.ackAt < 0 {
				vsched.Failf("the %s was not acknowledged: %s", kind, Describe(r.pkts))
				return
			}
			var after []*refcodec.Packet
			for _, pk := range r.pkts[r.ackAt:] {
				if pk.Type == refcodec.PUBLISH && string(pk.Payload) == "probe" {
					after = append(after, pk)
				}
			}
			if kind == "UNSUBSCRIBE" {
				if len(after) > 0 {
					vsched.Failf("a message published after the client had received the UNSUBACK was still delivered to it: %s", Describe(r.pkts))
					return
				}
			} else if len(after) != 1 || after[0].QoS != 0 {
				vsched.Failf("after the SUBACK granting QoS 0 the probe (published at QoS 1) was delivered as %s", Describe(after))
				return
			}
			// and it stays that way
			p.rc.Send(&refcodec.Packet{Type: refcodec.PUBLISH, Topic: []byte("t"), QoS: 1, ID: 71, Payload: []byte("probe2")})
			t.settleExcept()
			n, q := 0, byte(9)
			for _, pk := range r.pkts {
				if pk.Type == refcodec.PUBLISH && string(pk.Payload) == "probe2" {
					n++
					q = pk.QoS
				}
			}
			if kind == "UNSUBSCRIBE" && n != 0 {
				vsched.Failf("a later publish on the unsubscribed filter was delivered %d times", n)
				return
			}
			if kind != "UNSUBSCRIBE" && (n != 1 || q != 0) {
				vsched.Failf("a later publish on the re-subscribed filter (granted QoS 0) was delivered %d times at QoS %d", n, q)
				return
			}
			if t.badStream() {
				return
			}
			vsched.Logf("ok")
		}})
	}
	for _, sc := range scs {
		if c.Expired() || c.HasViolation() {
			return
		}
		sc := sc
		st := c.RunSched(explore.SchedOpts{Name: sc.name, Bound: -1, DevBound: dev, Cache: true, UseMark: true, Body: sc.body, MaxPoints: 100000, Check: schedCheck, Shard: c.Shard, NShards: c.NShards},
			func(v *explore.Violation) string { return "C07 " + sc.name + " :: " + violClass(v.Message) })
		if st != nil && c.Shard == 0 {
			c.Rep.Sample(map[string]interface{}{"scenario": sc.name, "deviations": dev, "executions": st.Executions, "states": st.States})
		}
	}
}

// rx is what a reactive client thread has received; ackAt is the index of the
// first packet that satisfied its trigger (-1: none yet).
type rx struct {
	pkts  []*refcodec.Packet
	ackAt int
}

// startReactor starts a client thread that owns the reading side of rc: it
// reads (blocking, under the scheduler) and calls then() the moment the first
// packet satisfying trigger has arrived, then keeps reading.  QoS 1 deliveries
// are acknowledged.
func startReactor(name string, rc *RawClient, trigger func(*refcodec.Packet) bool, then func()) *rx {
	r := &rx{ackAt: -1}
	vsched.Go("client-"+name, func() {
		var buf []byte
		b := make([]byte, 4096)
		for {
			n, err := rc.Conn.Read(b)
			buf = append(buf, b[:n]...)
			pkts, rest, perr := refcodec.Split(buf)
			buf = append([]byte(nil), rest...)
			for _, p := range pkts {
				r.pkts = append(r.pkts, p)
				if p.Type == refcodec.PUBLISH && p.QoS == 1 {
					rc.Conn.Write(refcodec.Encode(&refcodec.Packet{Type: refcodec.PUBACK, ID: p.ID}))
				}
				if r.ackAt < 0 && trigger(p) {
					r.ackAt = len(r.pkts) - 1
					then()
				}
			}
			if err != nil || perr != nil {
				return
			}
		}
	})
	return r
}
