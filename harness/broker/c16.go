package broker

import (
	"fmt"
	"strings"
	"time"

	"github.com/mdzio/go-mqtt/verifrt/vnet"
	"github.com/mdzio/go-mqtt/verifrt/vsched"
	"verif/engine/explore"
	"verif/harness/core"
	"verif/models/refcodec"
)

// tdConn is a connection of a teardown scenario.
type tdConn struct {
	name    string
	rc      *RawClient
	prefix  string // thread-id prefix of its handler goroutine and children
	ended   bool
	clean   bool
	cid     string
	noRead  bool // the client has stopped reading (small pipe towards it)
	hasWill bool
}

// tdWorld wraps a world for the teardown scenarios.
type tdWorld struct {
	w     *World
	conns map[string]*tdConn
	order []*tdConn
	fail  string
}

func newTD() *tdWorld {
	return &tdWorld{w: NewWorld(Config{KeepAlive: 60}), conns: map[string]*tdConn{}}
}

// connect dials (capacity of the broker→client pipe: 0 = unbounded) and
// completes the CONNECT handshake under the default schedule.
func (t *tdWorld) connect(name string, s2cCap int, keepAlive uint16, will bool) *tdConn {
	c, err := vnet.DialCap(addr, 0, s2cCap)
	if err != nil {
		vsched.Failf("harness: dial: %v", err)
		return nil
	}
	rc := &RawClient{Name: name, W: t.w, Conn: c, vc: c.(*vnet.Conn), AutoAck: true, pendRel: map[uint16]bool{}}
	t.w.Clients = append(t.w.Clients, rc)
	tc := &tdConn{name: name, rc: rc, prefix: fmt.Sprintf("0.1.%d", len(t.order)+1), clean: true, cid: strings.ToLower(name), noRead: s2cCap > 0, hasWill: will}
	t.conns[name] = tc
	t.order = append(t.order, tc)
	o := ConnectOpts{ClientID: tc.cid, Clean: true, KeepAlive: keepAlive}
	if strings.HasPrefix(name, "ANON") {
		o.ClientID = "" // the broker makes up an identifier (and a clean session)
		tc.cid = ""
	}
	if will {
		o.Will = &Will{"will/" + tc.cid, "gone:" + tc.cid, 0, false}
	}
	rc.Send(ConnectPacket(o))
	t.w.Settle()
	ps := rc.Take()
	if len(ps) != 1 || ps[0].Type != refcodec.CONNACK || ps[0].ReturnCode != 0 {
		vsched.Failf("harness: CONNECT of %s answered by %s", name, Describe(ps))
		return nil
	}
	return tc
}

// connectOpts is connect with the CONNECT options given by the scenario (client identifier,
// CleanSession, will): for connections that share a client identifier.
func (t *tdWorld) connectOpts(name string, o ConnectOpts) *tdConn {
	c, err := vnet.DialCap(addr, 0, 0)
	if err != nil {
		vsched.Failf("harness: dial: %v", err)
		return nil
	}
	rc := &RawClient{Name: name, W: t.w, Conn: c, vc: c.(*vnet.Conn), AutoAck: true, pendRel: map[uint16]bool{}}
	t.w.Clients = append(t.w.Clients, rc)
	tc := &tdConn{name: name, rc: rc, prefix: fmt.Sprintf("0.1.%d", len(t.order)+1), clean: o.Clean, cid: o.ClientID, hasWill: o.Will != nil}
	t.conns[name] = tc
	t.order = append(t.order, tc)
	rc.Send(ConnectPacket(o))
	t.w.Settle()
	ps := rc.Take()
	if len(ps) != 1 || ps[0].Type != refcodec.CONNACK || ps[0].ReturnCode != 0 {
		vsched.Failf("harness: CONNECT of %s answered by %s", name, Describe(ps))
		return nil
	}
	return tc
}

func (t *tdWorld) subscribe(name, filter string, q byte) {
	c := t.conns[name]
	c.rc.Send(&refcodec.Packet{Type: refcodec.SUBSCRIBE, ID: 1, Topics: [][]byte{[]byte(filter)}, QoSs: []byte{q}})
	t.w.Settle()
	c.rc.Take()
}

// stopReading: from now on the client does not read (pump skips it).
func (t *tdWorld) settleExcept() {
	for i := 0; i < 64; i++ {
		vsched.Quiesce()
		progress := false
		for _, c := range t.order {
			if c.noRead || c.ended {
				continue
			}
			if c.rc.pump() {
				progress = true
			}
		}
		if !progress {
			return
		}
	}
}

// badStream reports a connection whose byte stream from the broker could not be
// parsed into whole well-formed packets (C17 holds for every scenario).
func (t *tdWorld) badStream() bool {
	for _, c := range t.w.Clients {
		if c.Bad != "" {
			vsched.Failf("%s", c.Bad)
			return true
		}
	}
	// a client that reads and has taken everything: the stream must end at a packet boundary
	for _, c := range t.order {
		if !c.noRead && !c.ended && !c.rc.Dead && len(c.rc.rx) > 0 && c.rc.vc.Pending() == 0 {
			vsched.Failf("the stream to %s ends with %d bytes that are no complete packet (%x...)", c.name, len(c.rc.rx), head(c.rc.rx, 16))
			return true
		}
	}
	return false
}

func exemptAny(m map[string]bool) bool {
	for _, v := range m {
		if v {
			return true
		}
	}
	return false
}

// threadsOf returns the library threads still alive under a connection's handler.
func threadsOf(alive []vsched.Parked, prefix string) []vsched.Parked {
	var out []vsched.Parked
	for _, p := range alive {
		if p.ID == prefix || strings.HasPrefix(p.ID, prefix+".") {
			out = append(out, p)
		}
	}
	return out
}

// checkEnded verifies the teardown of every ended connection.
func (t *tdWorld) checkEnded(exempt map[string]bool) {
	alive := LibThreadsAlive()
	impl := t.w.ImplKey()
	// every session in the store belongs to a connection that is still open (all
	// sessions of these scenarios are clean)
	if !exemptAny(exempt) {
		open := 0
		for _, c := range t.order {
			if !c.ended {
				open++
			}
		}
		if n := strings.Count(strings.SplitN(impl, "#", 2)[0], "{"); n > open {
			// (the identifiers are not printed: one the broker made up may be random)
			vsched.Failf("%d connections are open, the session store holds %d (clean) sessions", open, n)
			return
		}
	}
	for _, c := range t.order {
		if !c.ended || exempt[c.name] {
			continue
		}
		if th := threadsOf(alive, c.prefix); len(th) > 0 {
			vsched.Failf("connection %s has ended but %d of its goroutines are still there: %s", c.name, len(th), core.ParkedString(th))
			return
		}
		if c.clean && c.cid != "" && strings.Contains(strings.SplitN(impl, "#", 2)[0], c.cid+"{") {
			vsched.Failf("connection %s (clean session) has ended but its session is still in the store: %s", c.name, impl)
			return
		}
	}
}

type tdScenario struct {
	name string
	// setup builds the situation under the default schedule and returns the
	// ending steps, each executed by the harness thread after Mark().
	run func(t *tdWorld) (ends []func(), exempt map[string]bool, closeServer bool, final func())
}

func bigPub(topic string, n int, salt byte) *refcodec.Packet {
	return &refcodec.Packet{Type: refcodec.PUBLISH, Topic: []byte(topic), Payload: []byte(big(n, salt))}
}

func tdScenarios(thorough bool) []tdScenario {
	var out []tdScenario
	endCauses := []string{"disconnect", "cut", "keepalive", "garbage", "server-close"}
	// (1) idle connection, each end cause
	for _, cause := range append(append([]string{}, endCauses...), "$cut", "$disconnect", "$server-close") {
		cause := cause
		// "$...": publishes on topics starting with '$' came before (the one way a client
		// can make the broker's fan-out fail: whatever that error path holds on to is
		// missing at the teardown)
		dollar := strings.HasPrefix(cause, "$")
		cause = strings.TrimPrefix(cause, "$")
		nm := "idle/" + cause
		if dollar {
			nm = "idle-after-$-publishes/" + cause
		}
		out = append(out, tdScenario{name: nm, run: func(t *tdWorld) ([]func(), map[string]bool, bool, func()) {
			t.connect("W", 0, 65535, false)
			t.subscribe("W", "will/#", 0)
			c := t.connect("C", 0, 10, true)
			t.subscribe("C", "t", 1)
			if dollar {
				c.rc.Send(&refcodec.Packet{Type: refcodec.PUBLISH, Topic: []byte("$SYS/x"), QoS: 1, ID: 9, Payload: []byte("d1")})
				t.conns["W"].rc.Send(&refcodec.Packet{Type: refcodec.PUBLISH, Topic: []byte("$SYS/y"), Payload: []byte("d0")})
				t.settleExcept()
				c.rc.Take()
			}
			t.conns["W"].rc.Take()
			var ends []func()
			closeSrv := false
			switch cause {
			case "disconnect":
				ends = append(ends, func() { c.rc.Send(&refcodec.Packet{Type: refcodec.DISCONNECT}); c.ended = true })
			case "cut":
				ends = append(ends, func() { c.rc.Cut(); c.ended = true })
			case "keepalive":
				ends = append(ends, func() { vsched.Advance(16 * time.Second); c.ended = true })
			case "garbage":
				ends = append(ends, func() { c.rc.SendRaw([]byte{0xf0, 0x00}); c.ended = true })
			case "server-close":
				closeSrv = true
				ends = append(ends, func() { c.ended = true; t.conns["W"].ended = true })
			}
			final := func() {
				if cause != "server-close" {
					got := t.conns["W"].rc.Take()
					nw := 0
					for _, p := range got {
						if p.Type == refcodec.PUBLISH && string(p.Topic) == "will/c" {
							nw++
						}
					}
					if cause == "disconnect" && nw != 0 {
						vsched.Failf("the will was published after a DISCONNECT")
					}
					if cause != "disconnect" && nw != 1 {
						vsched.Failf("after the connection ended by %s its will was published %d times", cause, nw)
					}
					if strings.Contains(t.w.ImplKey(), "St(") {
						// the subscription tree still has the node of filter "t"
						vsched.Failf("the subscription of the ended connection is still in the topic tree: %s", t.w.ImplKey())
					}
				}
			}
			return ends, nil, closeSrv, final
		}})
	}
	// (1b) a client without a client identifier (the broker makes one up), each end cause
	for _, cause := range endCauses {
		cause := cause
		out = append(out, tdScenario{name: "idle-anonymous/" + cause, run: func(t *tdWorld) ([]func(), map[string]bool, bool, func()) {
			t.connect("W", 0, 65535, false)
			c := t.connect("ANON", 0, 10, false)
			t.subscribe("ANON", "t", 1)
			switch cause {
			case "disconnect":
				return []func(){func() { c.rc.Send(&refcodec.Packet{Type: refcodec.DISCONNECT}); c.ended = true }}, nil, false, nil
			case "cut":
				return []func(){func() { c.rc.Cut(); c.ended = true }}, nil, false, nil
			case "keepalive":
				return []func(){func() { vsched.Advance(16 * time.Second); c.ended = true }}, nil, false, nil
			case "garbage":
				return []func(){func() { c.rc.SendRaw([]byte{0xf0, 0x00}); c.ended = true }}, nil, false, nil
			}
			return []func(){func() { c.ended = true; t.conns["W"].ended = true }}, nil, true, nil
		}})
	}
	// (2) the ending connection's own outbound ring is full (the client stopped reading)
	for _, cause := range endCauses {
		cause := cause
		out = append(out, tdScenario{name: "own-out-ring-full/" + cause, run: func(t *tdWorld) ([]func(), map[string]bool, bool, func()) {
			c := t.connect("C", 512, 10, true)
			t.subscribe("C", "t", 0)
			p := t.connect("P", 0, 65535, false)
			// three 8000-byte messages: the 16 KiB ring towards C fills, P's processor parks on it
			for i := 0; i < 3; i++ {
				p.rc.Send(bigPub("t", 8000, byte(i)))
			}
			t.settleExcept()
			var ends []func()
			closeSrv := false
			exempt := map[string]bool{}
			switch cause {
			case "disconnect":
				ends = append(ends, func() { c.rc.Send(&refcodec.Packet{Type: refcodec.DISCONNECT}); c.ended = true })
			case "cut":
				ends = append(ends, func() { c.rc.Cut(); c.ended = true })
			case "keepalive":
				ends = append(ends, func() { vsched.Advance(16 * time.Second); c.ended = true })
			case "garbage":
				ends = append(ends, func() { c.rc.SendRaw([]byte{0xf0, 0x00}); c.ended = true })
			case "server-close":
				closeSrv = true
				ends = append(ends, func() { c.ended = true; p.ended = true })
			}
			// afterwards P must be usable again: a ping round trip
			final := func() {
				if cause == "server-close" {
					return
				}
				p.rc.Take()
				p.rc.Send(&refcodec.Packet{Type: refcodec.PINGREQ})
				t.settleExcept()
				if ps := p.rc.Take(); !hasType(ps, refcodec.PINGRESP) {
					vsched.Failf("after the blocking subscriber ended (%s), the publisher that was held up by it does not answer a PINGREQ: %s", cause, Describe(ps))
				}
			}
			return ends, exempt, closeSrv, final
		}})
	}
	// (2b) the ending connection's own processor is parked on its own full outgoing ring: the
	//      client subscribed to a topic it publishes on itself and stopped reading
	for _, cause := range []string{"keepalive", "cut", "server-close"} {
		cause := cause
		out = append(out, tdScenario{name: "self-blocked/" + cause, run: func(t *tdWorld) ([]func(), map[string]bool, bool, func()) {
			w := t.connect("W", 0, 65535, false)
			t.subscribe("W", "will/#", 0)
			c := t.connect("C", 512, 10, true)
			t.subscribe("C", "own", 0)
			for i := 0; i < 3; i++ {
				c.rc.Send(bigPub("own", 8000, byte(i)))
			}
			t.settleExcept()
			w.rc.Take()
			var ends []func()
			closeSrv := false
			switch cause {
			case "cut":
				ends = append(ends, func() { c.rc.Cut(); c.ended = true })
			case "keepalive":
				ends = append(ends, func() { vsched.Advance(16 * time.Second); c.ended = true })
			case "server-close":
				closeSrv = true
				ends = append(ends, func() { c.ended = true; w.ended = true })
			}
			final := func() {
				if cause == "server-close" {
					return
				}
				nw := len(publishesOn(w.rc.Take(), "will/c"))
				if nw != 1 {
					vsched.Failf("the connection (which had stopped reading, its own processor waiting for room in its outgoing ring) ended by %s; its will was published %d times", cause, nw)
				}
			}
			return ends, nil, closeSrv, final
		}})
	}
	// (3) publisher ends while its processor is parked on a third party's full ring;
	//     it is exempt until that third party ends too
	for _, order := range []string{"P-then-C", "C-then-P"} {
		order := order
		out = append(out, tdScenario{name: "held-up-publisher/cut-" + order, run: func(t *tdWorld) ([]func(), map[string]bool, bool, func()) {
			c := t.connect("C", 512, 65535, false)
			t.subscribe("C", "t", 0)
			p := t.connect("P", 0, 65535, true)
			for i := 0; i < 5; i++ {
				p.rc.Send(bigPub("t", 8000, byte(i)))
			}
			t.settleExcept()
			cutP := func() { p.rc.Cut(); p.ended = true }
			cutC := func() { c.rc.Cut(); c.ended = true }
			if order == "P-then-C" {
				return []func(){cutP, cutC}, nil, false, nil
			}
			return []func(){cutC, cutP}, nil, false, nil
		}})
	}
	// (3a) a held-up publisher has pipelined its own end (DISCONNECT, or a packet of a
	//      reserved type) with more than a read block of further data behind it: when
	//      the stalled subscriber goes away, the publisher's processor works off the
	//      backlog and ends the connection by itself while its receiver is parked for
	//      room in the full incoming ring
	for _, how := range []string{"disconnect", "garbage"} {
		how := how
		out = append(out, tdScenario{name: "held-up-publisher/own-" + how + "-with-backlog-behind-it", run: func(t *tdWorld) ([]func(), map[string]bool, bool, func()) {
			w := t.connect("W", 0, 65535, false)
			t.subscribe("W", "will/#", 0)
			c := t.connect("C", 512, 65535, false)
			t.subscribe("C", "t", 0)
			p := t.connect("P", 0, 65535, true)
			w.rc.Take()
			var wire []byte
			for i := 0; i < 3; i++ {
				wire = append(wire, refcodec.Encode(bigPub("t", 8000, byte(i)))...)
			}
			if how == "disconnect" {
				wire = append(wire, refcodec.Encode(&refcodec.Packet{Type: refcodec.DISCONNECT})...)
			} else {
				wire = append(wire, 0xf0, 0x00)
			}
			for i := 0; i < 2; i++ {
				wire = append(wire, refcodec.Encode(bigPub("nobody", 8000, byte(10+i)))...)
			}
			p.rc.SendRaw(wire)
			t.settleExcept()
			final := func() {
				nw := len(publishesOn(w.rc.Take(), "will/p"))
				want := 0
				if how == "garbage" {
					want = 1
				}
				if nw != want {
					vsched.Failf("the publisher ended by %s; its will was published %d times, expected %d", how, nw, want)
				}
			}
			return []func(){func() { c.rc.Cut(); c.ended = true; p.ended = true }}, nil, false, final
		}})
	}
	// (3b) many publishers held up by one stalled subscriber that connected last,
	//      then Server.Close: stopping the publishers can only finish once the
	//      subscriber is being stopped as well, however many publishers wait
	for _, npub := range []int{2, 5, 9} {
		npub := npub
		if !thorough && npub != 5 {
			continue
		}
		out = append(out, tdScenario{name: fmt.Sprintf("%d-publishers-held-up-by-one-subscriber/server-close", npub), run: func(t *tdWorld) ([]func(), map[string]bool, bool, func()) {
			var pubs []*tdConn
			for i := 0; i < npub; i++ {
				pubs = append(pubs, t.connect(fmt.Sprintf("P%d", i), 0, 65535, false))
			}
			c := t.connect("C", 512, 65535, false)
			t.subscribe("C", "t", 0)
			// fill C's outgoing ring, then one more message from every publisher: each
			// publisher's processor parks on C's ring
			for i := 0; i < 2; i++ {
				pubs[0].rc.Send(bigPub("t", 8000, byte(i)))
			}
			t.settleExcept()
			for i, p := range pubs {
				p.rc.Send(bigPub("t", 4000, byte(10+i)))
			}
			t.settleExcept()
			return []func(){func() {
				c.ended = true
				for _, p := range pubs {
					p.ended = true
				}
			}}, nil, true, nil
		}})
	}
	// (4) cross-blocked pair: each one's processor is parked on the other's full ring
	for _, order := range []string{"A-then-B", "B-then-A", "server-close"} {
		order := order
		out = append(out, tdScenario{name: "cross-blocked/" + order, run: func(t *tdWorld) ([]func(), map[string]bool, bool, func()) {
			a := t.connect("A", 512, 65535, false)
			b := t.connect("B", 512, 65535, false)
			t.subscribe("A", "ta", 0)
			t.subscribe("B", "tb", 0)
			for i := 0; i < 3; i++ {
				a.rc.Send(bigPub("tb", 8000, byte(i)))
				b.rc.Send(bigPub("ta", 8000, byte(i)))
			}
			t.settleExcept()
			cutA := func() { a.rc.Cut(); a.ended = true }
			cutB := func() { b.rc.Cut(); b.ended = true }
			switch order {
			case "A-then-B":
				return []func(){cutA, cutB}, nil, false, nil
			case "B-then-A":
				return []func(){cutB, cutA}, nil, false, nil
			}
			return []func(){func() { a.ended = true; b.ended = true }}, nil, true, nil
		}})
	}
	// (6) the connection ends while a partial packet sits in the inbound ring
	for _, part := range []int{1, 2, 7} {
		for _, cause := range []string{"cut", "keepalive", "server-close"} {
			part, cause := part, cause
			out = append(out, tdScenario{name: fmt.Sprintf("partial-packet-%d-bytes/%s", part, cause), run: func(t *tdWorld) ([]func(), map[string]bool, bool, func()) {
				t.connect("W", 0, 65535, false)
				t.subscribe("W", "will/#", 0)
				c := t.connect("C", 0, 10, true)
				t.subscribe("C", "t", 1)
				t.conns["W"].rc.Take()
				wire := refcodec.Encode(&refcodec.Packet{Type: refcodec.PUBLISH, Topic: []byte("t"), QoS: 1, ID: 9, Payload: []byte("never-complete")})
				c.rc.SendRaw(wire[:part])
				t.settleExcept()
				final := func() {
					if cause == "server-close" {
						return
					}
					nw := 0
					for _, p := range t.conns["W"].rc.Take() {
						if p.Type == refcodec.PUBLISH && string(p.Topic) == "will/c" {
							nw++
						}
					}
					if nw != 1 {
						vsched.Failf("the connection ended (%s) with %d bytes of an incomplete packet received; its will was published %d times", cause, part, nw)
					}
				}
				switch cause {
				case "cut":
					return []func(){func() { c.rc.Cut(); c.ended = true }}, nil, false, final
				case "keepalive":
					return []func(){func() { vsched.Advance(16 * time.Second); c.ended = true }}, nil, false, final
				}
				return []func(){func() { c.ended = true; t.conns["W"].ended = true }}, nil, true, final
			}})
		}
	}
	// (5) a packet larger than the ring can ever take (ring size minus one read block)
	for _, sz := range []int{9000, 12000, 16000} {
		for _, cause := range []string{"cut", "keepalive", "server-close"} {
			sz, cause := sz, cause
			out = append(out, tdScenario{name: fmt.Sprintf("oversized-packet-%d/%s", sz, cause), run: func(t *tdWorld) ([]func(), map[string]bool, bool, func()) {
				c := t.connect("C", 0, 10, false)
				// the packet arrives in TCP segments of 5000 bytes
				wire := refcodec.Encode(bigPub("t", sz, 1))
				for len(wire) > 0 {
					n := 5000
					if n > len(wire) {
						n = len(wire)
					}
					c.rc.SendRaw(wire[:n])
					wire = wire[n:]
					t.settleExcept()
				}
				switch cause {
				case "cut":
					return []func(){func() { c.rc.Cut(); c.ended = true }}, nil, false, nil
				case "keepalive":
					return []func(){func() { vsched.Advance(16 * time.Second); c.ended = true }}, nil, false, nil
				}
				return []func(){func() { c.ended = true }}, nil, true, nil
			}})
		}
	}
	// (n) two live connections of ONE persistent session (the broker does not close the older
	// one): the newer one subscribes a filter the older never had, so the shared session
	// lists a filter for which the older connection holds nothing in the tree.  The older
	// connection ends (cut / keep-alive expiry / garbage): its teardown is complete all the
	// same - goroutines gone, its will published once - and the newer connection goes on
	// being served; then the newer one ends too.
	for _, cause := range []string{"cut", "keepalive", "garbage"} {
		cause := cause
		out = append(out, tdScenario{name: "shared-persistent-session/older-" + cause, run: func(t *tdWorld) ([]func(), map[string]bool, bool, func()) {
			t.connect("W", 0, 65535, false)
			t.subscribe("W", "will/#", 0)
			a1 := t.connectOpts("A1", ConnectOpts{ClientID: "x", Clean: false, KeepAlive: 10, Will: &Will{"will/a1", "gone:a1", 0, false}})
			if a1 == nil {
				return nil, nil, false, nil
			}
			t.subscribe("A1", "t/a", 1)
			a2 := t.connectOpts("A2", ConnectOpts{ClientID: "x", Clean: false, KeepAlive: 65535, Will: &Will{"will/a2", "gone:a2", 0, false}})
			if a2 == nil {
				return nil, nil, false, nil
			}
			t.subscribe("A2", "t/b", 1)
			t.conns["W"].rc.Take()
			var ends []func()
			switch cause {
			case "cut":
				ends = append(ends, func() { a1.rc.Cut(); a1.ended = true })
			case "keepalive":
				ends = append(ends, func() { vsched.Advance(16 * time.Second); a1.ended = true })
			case "garbage":
				ends = append(ends, func() { a1.rc.SendRaw([]byte{0xf0, 0x00}); a1.ended = true })
			}
			wills := func(topic string) int {
				n := 0
				for _, p := range t.conns["W"].rc.Take() {
					if p.Type == refcodec.PUBLISH && string(p.Topic) == topic {
						n++
					}
				}
				return n
			}
			final := func() {
				if n := wills("will/a1"); n != 1 {
					vsched.Failf("the older of two connections of one persistent session ended by %s: its will was published %d times", cause, n)
					return
				}
				// the newer connection is served as before
				t.conns["W"].rc.Send(&refcodec.Packet{Type: refcodec.PUBLISH, Topic: []byte("t/b"), Payload: []byte("for-a2")})
				a2.rc.Send(&refcodec.Packet{Type: refcodec.PINGREQ})
				t.settleExcept()
				got := a2.rc.Take()
				if !hasType(got, refcodec.PINGRESP) || len(publishesOn(got, "t/b")) != 1 {
					vsched.Failf("after the older connection of its session ended the newer one received %s (a PINGRESP and one PUBLISH on t/b were due)", Describe(got))
					return
				}
				a2.rc.Cut()
				a2.ended = true
				t.settleExcept()
				if n := wills("will/a2"); n != 1 {
					vsched.Failf("the newer connection was cut: its will was published %d times", n)
					return
				}
				if th := threadsOf(LibThreadsAlive(), a2.prefix); len(th) > 0 {
					vsched.Failf("connection A2 has ended but %d of its goroutines are still there: %s", len(th), core.ParkedString(th))
				}
			}
			// (the persistent session stays in the store: the session count of checkEnded is for clean sessions)
			return ends, map[string]bool{"persistent-session-kept": true}, false, final
		}})
	}

	return out
}

// C16: complete teardown in bounded time.
func C16(c *core.Ctx) {
	dev := 1
	if c.Thorough() {
		dev = 2
	}
	c.Rep.Bound = fmt.Sprintf("SCHED: end cause (DISCONNECT, cut, keep-alive expiry in virtual time, garbage packet, Server.Close) x buffer condition (idle, with and without a client identifier; own outbound ring full with a client that stopped reading; publisher held up by a third party's full ring (cut, or its own pipelined DISCONNECT / reserved packet with a backlog behind it); 2/5/9 publishers held up by one stalled subscriber that connected last, then Server.Close; cross-blocked pair; packet larger than the ring can take; partial packet in the inbound ring) x order of the ends; plus (default schedule) every hostile byte stream of C05 as the last bytes of a connection, then a cut; set-up under the default schedule, from the first ending action on every schedule that deviates from the default schedule at <= %d points", dev)
	c.Rep.Rule = "oracle at quiescence (reached without further environment action = bounded time): the goroutines of every ended connection are gone, its clean session is out of the store, its subscription out of the topic tree, its will published (not after DISCONNECT), Server.Close has returned and then no library goroutine remains; a publisher that was held up by the ended subscriber answers a PINGREQ again"
	for _, sc := range tdScenarios(c.Thorough()) {
		if !c.Mine() {
			continue
		}
		if c.Expired() || c.HasViolation() {
			return
		}
		sc := sc
		body := func() {
			t := newTD()
			ends, exempt, closeSrv, final := sc.run(t)
			if vsched.Failed() {
				return
			}
			vsched.Mark()
			closed := false
			for _, e := range ends {
				e()
			}
			if closeSrv {
				vsched.Go("closer", func() {
					t.w.Svr.Close()
					closed = true
				})
			}
			t.settleExcept()
			if closeSrv && !closed {
				vsched.Failf("Server.Close has not returned: %s", core.ParkedString(vsched.Alive()))
				return
			}
			t.checkEnded(exempt)
			if vsched.Failed() {
				return
			}
			if closeSrv {
				if alive := LibThreadsAlive(); len(alive) > 0 {
					vsched.Failf("after Server.Close %d library goroutines remain: %s", len(alive), core.ParkedString(alive))
					return
				}
			}
			if final != nil {
				final()
			}
			vsched.Logf("ok")
		}
		st := c.RunSched(explore.SchedOpts{Name: sc.name, Bound: -1, DevBound: dev, Cache: true, UseMark: true, Body: body, MaxPoints: 100000, Check: schedCheck},
			func(v *explore.Violation) string { return "C16 " + sc.name + " :: " + violClass(v.Message) })
		if st != nil {
			c.Rep.Sample(map[string]interface{}{"scenario": sc.name, "deviations": dev, "executions": st.Executions, "states": st.States})
		}
	}
	if c.HasViolation() || c.Expired() {
		return
	}
	c16closeVsConnect(c, dev)
	if c.HasViolation() || c.Expired() {
		return
	}
	c16handshakeCut(c, dev)
	if c.HasViolation() || c.Expired() {
		return
	}
	wsScenarios(c, "C16", dev)
	if c.HasViolation() || c.Expired() {
		return
	}
	c16hostile(c)
}

// c16closeVsConnect: Server.Close races a client that is just connecting.
// Close must return; once the new client has gone as well, no goroutine of the
// library remains and nothing of the connection is left in the stores.
func c16closeVsConnect(c *core.Ctx, dev int) {
	for _, v := range []string{"dial+CONNECT", "dial+CONNECT+SUBSCRIBE", "dial only"} {
		if !c.Mine() {
			continue
		}
		if c.Expired() || c.HasViolation() {
			return
		}
		v := v
		name := "Server.Close || " + v
		body := func() {
			t := newTD()
			a := t.connect("A", 0, 65535, false)
			t.subscribe("A", "t", 1)
			if vsched.Failed() {
				return
			}
			vsched.Mark()
			closed := false
			vsched.Go("closer", func() {
				t.w.Svr.Close()
				closed = true
			})
			a.ended = true
			var nc *RawClient
			vsched.Go("client-N", func() {
				rc, err := t.w.Dial("N")
				if err != nil {
					return // the listener was closed already
				}
				nc = rc
				rc.Dead = true // nobody pumps it: this thread owns it
				if v == "dial only" {
					return
				}
				wire := refcodec.Encode(ConnectPacket(ConnectOpts{ClientID: "n", Clean: true, KeepAlive: 65535}))
				if v == "dial+CONNECT+SUBSCRIBE" {
					wire = append(wire, refcodec.Encode(&refcodec.Packet{Type: refcodec.SUBSCRIBE, ID: 4, Topics: [][]byte{[]byte("t")}, QoSs: []byte{0}})...)
				}
				rc.Conn.Write(wire)
			})
			t.settleExcept()
			if !closed {
				vsched.Failf("Server.Close has not returned: %s", core.ParkedString(vsched.Alive()))
				return
			}
			// the new client gives up
			if nc != nil {
				nc.Conn.Close()
			}
			t.settleExcept()
			if alive := LibThreadsAlive(); len(alive) > 0 {
				vsched.Failf("after Server.Close and the end of every connection %d library goroutines remain: %s", len(alive), core.ParkedString(alive))
				return
			}
			impl := t.w.ImplKey()
			if strings.Contains(strings.SplitN(impl, "#", 2)[0], "n{") {
				vsched.Failf("the clean session of the connection that raced Server.Close is still in the store: %s", impl)
				return
			}
			vsched.Logf("ok")
		}
		st := c.RunSched(explore.SchedOpts{Name: name, Bound: -1, DevBound: dev + 1, Cache: true, UseMark: true, Body: body, MaxPoints: 100000, Check: schedCheck},
			func(v *explore.Violation) string { return "C16 " + name + " :: " + violClass(v.Message) })
		if st != nil {
			c.Rep.Sample(map[string]interface{}{"scenario": name, "deviations": dev + 1, "executions": st.Executions, "states": st.States})
		}
	}
}

// c16handshakeCut: a client sends its CONNECT and is gone before the CONNACK can be
// written (the write fails with "broken pipe"), or right after it.  Either way the
// connection has ended: no goroutine of it remains, a clean session is not kept, the
// will is published exactly once (the CONNECT was accepted), and the broker goes on
// serving the witness.
func c16handshakeCut(c *core.Ctx, dev int) {
	for _, v := range []struct {
		name  string
		clean bool
		anon  bool
	}{{"clean session", true, false}, {"persistent session", false, false}, {"no client identifier", true, true}} {
		if !c.Mine() {
			continue
		}
		if c.Expired() || c.HasViolation() {
			return
		}
		v := v
		name := "CONNECT, gone before the CONNACK (" + v.name + ", with a will)"
		body := func() {
			t := newTD()
			wt := t.connect("W", 0, 65535, false)
			if wt == nil {
				return
			}
			t.subscribe("W", "will/#", 0)
			x, err := t.w.Dial("X")
			if err != nil || vsched.Failed() {
				return
			}
			x.Dead = true
			vsched.Mark()
			o := ConnectOpts{ClientID: "x", Clean: v.clean, KeepAlive: 65535, Will: &Will{"will/x", "gone:x", 0, false}}
			if v.anon {
				o.ClientID = ""
			}
			x.Conn.Write(refcodec.Encode(ConnectPacket(o)))
			x.Conn.Close()
			t.settleExcept()
			if alive := threadsOf(LibThreadsAlive(), "0.1.2"); len(alive) > 0 {
				vsched.Failf("the connection ended during its handshake but %d of its goroutines are still there: %s", len(alive), core.ParkedString(alive))
				return
			}
			impl := t.w.ImplKey()
			store := strings.SplitN(impl, "#", 2)[0]
			if v.clean {
				// W's session is the only one that may be there
				if n := strings.Count(store, "{"); n > 1 {
					vsched.Failf("a CleanSession=1 connection (%s) that ended before its CONNACK could be written left its session in the store: 1 connection is open, the store holds %d sessions", v.name, n)
					return
				}
			}
			n := 0
			for _, pk := range wt.rc.Take() {
				if pk.Type == refcodec.PUBLISH && string(pk.Topic) == "will/x" && string(pk.Payload) == "gone:x" {
					n++
				}
			}
			if n != 1 {
				// the broker accepted the CONNECT (it tried to answer with code 0, or did):
				// the will is stored with the connection from then on [MQTT-3.1.2-8]
				vsched.Failf("the will of a connection whose CONNECT was accepted and whose client was gone before (or right after) the CONNACK was published %d times", n)
				return
			}
			// the witness is still served
			wt.rc.Send(&refcodec.Packet{Type: refcodec.PINGREQ})
			t.settleExcept()
			if ps := wt.rc.Take(); len(ps) != 1 || ps[0].Type != refcodec.PINGRESP {
				vsched.Failf("after a connection ended during its handshake the witness' PINGREQ is answered by %s", Describe(ps))
				return
			}
			if t.badStream() {
				return
			}
			vsched.Logf("ok will=%d", n)
		}
		st := c.RunSched(explore.SchedOpts{Name: name, Bound: -1, DevBound: dev + 1, Cache: true, UseMark: true, Body: body, MaxPoints: 100000, Check: schedCheck},
			func(v *explore.Violation) string { return "C16 " + name + " :: " + violClass(v.Message) })
		if st != nil {
			c.Rep.Sample(map[string]interface{}{"scenario": name, "deviations": dev + 1, "executions": st.Executions, "states": st.States})
		}
	}
}

// c05handshakeStall: a client with a will vanishes between its CONNECT and the CONNACK while
// a subscriber of the will topic has stopped reading and its outgoing ring is full, so the
// will cannot be delivered for the time being.  That holds up the vanished connection only:
// another client that connects now is accepted, and publishes between healthy clients go on.
func c05handshakeStall(c *core.Ctx, dev int) {
	if !c.Mine() {
		return
	}
	if c.Expired() || c.HasViolation() {
		return
	}
	name := "CONNECT with a will, gone before the CONNACK, while a subscriber of the will topic is stalled with a full ring; then a new client connects"
	body := func() {
		t := newTD()
		wt := t.connect("W", 0, 65535, false)
		if wt == nil {
			return
		}
		t.subscribe("W", "ok/#", 0)
		p := t.connect("P", 0, 65535, false)
		// S subscribes to the will topic and to a topic P floods, and stops reading
		st := t.connect("S", 600, 65535, false)
		if p == nil || st == nil {
			return
		}
		st.rc.Send(&refcodec.Packet{Type: refcodec.SUBSCRIBE, ID: 1, Topics: [][]byte{[]byte("will/#"), []byte("flood")}, QoSs: []byte{0, 0}})
		t.settleExcept()
		for i := 0; i < 3; i++ {
			p.rc.Send(bigPub("flood", 8000, byte(i)))
			t.settleExcept()
		}
		if vsched.Failed() {
			return
		}
		x, err := t.w.Dial("X")
		if err != nil {
			return
		}
		x.Dead = true
		vsched.Mark()
		x.Conn.Write(refcodec.Encode(ConnectPacket(ConnectOpts{ClientID: "x", Clean: true, KeepAlive: 65535, Will: &Will{"will/x", big(9000, 9), 0, false}})))
		x.Conn.Close()
		t.settleExcept()
		// a new client
		n, err := t.w.Dial("N")
		if err != nil {
			vsched.Failf("harness: dial: %v", err)
			return
		}
		nc := &tdConn{name: "N", rc: n, prefix: "0.1.5", clean: true, cid: "n"}
		t.conns["N"] = nc
		t.order = append(t.order, nc)
		n.Send(ConnectPacket(ConnectOpts{ClientID: "n", Clean: true, KeepAlive: 65535}))
		t.settleExcept()
		if ps := n.Take(); len(ps) != 1 || ps[0].Type != refcodec.CONNACK || ps[0].ReturnCode != 0 {
			vsched.Failf("a will that cannot be delivered yet (its subscriber stopped reading) keeps a new client from connecting: its CONNECT was answered by %s", Describe(ps))
			return
		}
		n.Send(&refcodec.Packet{Type: refcodec.PUBLISH, Topic: []byte("ok/1"), Payload: []byte("still-served")})
		t.settleExcept()
		if k := len(publishesOn(wt.rc.Take(), "ok/1")); k != 1 {
			vsched.Failf("the witness received %d copies of a publish of the new client", k)
			return
		}
		if t.badStream() {
			return
		}
		vsched.Logf("ok")
	}
	st := c.RunSched(explore.SchedOpts{Name: name, Bound: -1, DevBound: dev, Cache: true, UseMark: true, Body: body, MaxPoints: 100000, Check: schedCheck},
		func(v *explore.Violation) string { return "C05 " + name + " :: " + violClass(v.Message) })
	if st != nil {
		c.Rep.Sample(map[string]interface{}{"scenario": name, "deviations": dev, "executions": st.Executions, "states": st.States})
	}
}

func init() { core.Register("C16", C16) }
