package broker

import (
	"fmt"
	"strings"

	"github.com/mdzio/go-mqtt/message"
	"github.com/mdzio/go-mqtt/service"

	"github.com/mdzio/go-mqtt/verifrt/vsched"
	"verif/engine/explore"
	"verif/harness/core"
	"verif/models/refcodec"
)

// c05poison: an attacker sends an odd (but decodable, or almost decodable)
// CONNECT that names the victim's client identifier, is answered or closed,
// and goes away.  Whatever the broker made of that CONNECT, the victim must
// then be able to connect (CleanSession 0 and 1), subscribe and receive, and
// no goroutine of the broker may panic: a session left half built under the
// victim's identifier is exactly the kind of harm C05 excludes.
func c05poison(c *core.Ctx) {
	if c.Replay != nil && !strings.HasPrefix(c.Replay.Scenario, "poison:") {
		return
	}
	type odd struct {
		name string
		pkt  func() []byte
	}
	mk := func(f func(p *refcodec.Packet)) func() []byte {
		return func() []byte {
			p := ConnectPacket(ConnectOpts{ClientID: "o", Clean: false, KeepAlive: 60, Will: &Will{"w/t", "bye", 1, false}, User: "u", Pass: "p"})
			f(p)
			return refcodec.Encode(p)
		}
	}
	flagsAt := func(b []byte) int { return 2 + 2 + 4 + 1 } // fixed header (2) + "MQTT" string (6) + level (1)
	odds := []odd{
		{"will topic with '+'", mk(func(p *refcodec.Packet) { p.WillTopic = []byte("w/+/t") })},
		{"will topic with '#'", mk(func(p *refcodec.Packet) { p.WillTopic = []byte("w/#") })},
		{"empty will topic", mk(func(p *refcodec.Packet) { p.WillTopic = nil })},
		{"empty will message", mk(func(p *refcodec.Packet) { p.WillMessage = nil })},
		{"will QoS 2 and retain", mk(func(p *refcodec.Packet) { p.WillQoS, p.WillRetain = 2, true })},
		{"will QoS 3", func() []byte { b := mk(func(p *refcodec.Packet) {})(); b[flagsAt(b)] |= 0x18; return b }},
		{"reserved flag set", func() []byte { b := mk(func(p *refcodec.Packet) {})(); b[flagsAt(b)] |= 0x01; return b }},
		{"will QoS without will flag", func() []byte {
			p := ConnectPacket(ConnectOpts{ClientID: "o", Clean: false, KeepAlive: 60})
			b := refcodec.Encode(p)
			b[flagsAt(b)] |= 0x08
			return b
		}},
		{"password without user name", func() []byte {
			p := ConnectPacket(ConnectOpts{ClientID: "o", Clean: false, KeepAlive: 60})
			p.HasPass, p.Pass = true, []byte("p")
			return refcodec.Encode(p)
		}},
		{"protocol level 5", mk(func(p *refcodec.Packet) { p.Level = 5 })},
		{"protocol name MQIsdp level 4", mk(func(p *refcodec.Packet) { p.ProtoName = "MQIsdp" })},
		{"keep-alive 0, clean session", mk(func(p *refcodec.Packet) { p.KeepAlive, p.CleanSess = 0, true })},
		// a CONNECT is not read through the ring, so its will may be larger than any
		// packet the broker can forward (16 KiB rings here)
		{"a will message of 20000 bytes", mk(func(p *refcodec.Packet) { p.WillMessage = []byte(big(20000, 3)) })},
		{"a retained will message of 20000 bytes", mk(func(p *refcodec.Packet) { p.WillMessage, p.WillRetain = []byte(big(20000, 5)), true })},
		{"a will message of 16384 bytes", mk(func(p *refcodec.Packet) { p.WillMessage = []byte(big(16384, 4)) })},
		{"topic-like bytes in the user name", mk(func(p *refcodec.Packet) { p.User = []byte("#/+\x00") })},
	}
	n := 0
	for _, od := range odds {
		for _, stay := range []string{"cut", "disconnect", "stays"} {
			for _, clean := range []bool{false, true} {
				n++
				name := fmt.Sprintf("poison: CONNECT with %s naming the victim's client id, attacker %s, victim connects with CleanSession=%v", od.name, stay, clean)
				if c.Replay != nil {
					if c.Replay.Scenario != name {
						continue
					}
				} else if c.NShards > 1 && n%c.NShards != c.Shard {
					continue
				}
				if c.Expired() || c.HasViolation() {
					return
				}
				od, stay, clean := od, stay, clean
				body := func() {
					t := newTD()
					p := t.connect("P", 0, 65535, false)
					// a bystander that sees everything the broker publishes, wills included
					b := t.connect("B", 0, 65535, false)
					t.subscribe("B", "#", 1)
					// ... and an in-process one (it is handed message objects, not packets: what does
					// not encode never reaches a network client, but would reach this one)
					var inproc []string
					cb := service.OnPublishFunc(func(m *message.PublishMessage) error {
						inproc = append(inproc, fmt.Sprintf("%q=%dB", m.Topic(), len(m.Payload())))
						if len(m.Topic()) == 0 || strings.ContainsAny(string(m.Topic()), "+#\x00") {
							vsched.Failf("an in-process subscriber of '#' was handed a message with the topic name %q (payload %d bytes)", m.Topic(), len(m.Payload()))
						}
						return nil
					})
					t.w.Svr.Subscribe("#", 1, &cb)
					// two small retained messages, on either side of the attacker's will topic in any
					// order the retained tree may be walked in
					p.rc.Send(&refcodec.Packet{Type: refcodec.PUBLISH, Topic: []byte("keep/1"), Retain: true, Payload: []byte("kept-1")})
					p.rc.Send(&refcodec.Packet{Type: refcodec.PUBLISH, Topic: []byte("x/2"), Retain: true, Payload: []byte("kept-2")})
					t.w.Settle()
					b.rc.Take()
					if vsched.Failed() {
						return
					}
					e, err := t.w.Dial("E")
					if err != nil {
						vsched.Failf("harness: dial: %v", err)
						return
					}
					e.SendRaw(od.pkt())
					t.w.Settle()
					ans := e.Take()
					vsched.Logf("attacker's CONNECT answered by %s, closed=%v", Describe(ans), e.EOF)
					switch stay {
					case "cut":
						e.Cut()
					case "disconnect":
						e.Send(&refcodec.Packet{Type: refcodec.DISCONNECT})
					}
					t.w.Settle()
					if t.badStream() {
						return
					}
					if stay == "stays" && !e.EOF && len(ans) > 0 && ans[0].Type == refcodec.CONNACK && ans[0].ReturnCode == 0 {
						// an accepted connection with the victim's identifier that stays open: two
						// live connections with one identifier are outside the property
						vsched.Logf("ok (accepted and open)")
						return
					}
					v, err := t.w.Dial("V")
					if err != nil {
						vsched.Failf("the victim cannot even dial: %v", err)
						return
					}
					v.Send(ConnectPacket(ConnectOpts{ClientID: "o", Clean: clean, KeepAlive: 65535}))
					t.w.Settle()
					got := v.Take()
					if len(got) != 1 || got[0].Type != refcodec.CONNACK || got[0].ReturnCode != 0 {
						vsched.Failf("after the attacker's CONNECT (answered by %s) the victim's CONNECT was answered by %s (closed=%v)", Describe(ans), Describe(got), v.EOF)
						return
					}
					v.Send(&refcodec.Packet{Type: refcodec.SUBSCRIBE, ID: 3, Topics: [][]byte{[]byte("v/t")}, QoSs: []byte{1}})
					t.w.Settle()
					if got := v.Take(); len(got) != 1 || got[0].Type != refcodec.SUBACK || len(got[0].Codes) != 1 || got[0].Codes[0] != 1 {
						vsched.Failf("the victim's SUBSCRIBE was answered by %s", Describe(got))
						return
					}
					p.rc.Send(&refcodec.Packet{Type: refcodec.PUBLISH, Topic: []byte("v/t"), QoS: 1, ID: 9, Payload: []byte("for the victim")})
					t.w.Settle()
					if ps := publishesOn(v.Take(), "v/t"); len(ps) != 1 || string(ps[0].Payload) != "for the victim" {
						vsched.Failf("the victim received %s on its subscription", Describe(ps))
						return
					}
					if t.badStream() {
						return
					}
					// a client that arrives later and subscribes to everything (retained wills included)
					l := t.connect("L", 0, 65535, false)
					if l == nil {
						return
					}
					l.rc.Send(&refcodec.Packet{Type: refcodec.SUBSCRIBE, ID: 8, Topics: [][]byte{[]byte("#")}, QoSs: []byte{1}})
					t.w.Settle()
					lgot := l.rc.Take()
					if !hasType(lgot, refcodec.SUBACK) || l.rc.EOF {
						vsched.Failf("a client that connected after the attack and subscribed to '#' got %s (closed=%v)", Describe(lgot), l.rc.EOF)
						return
					}
					for _, k := range []string{"keep/1", "x/2"} {
						if ps := publishesOn(lgot, k); len(ps) != 1 || !ps[0].Retain {
							vsched.Failf("a client that connected after the attack and subscribed to '#' did not receive the retained message on %q (it received %s)", k, Describe(lgot))
							return
						}
					}
					l.rc.Send(&refcodec.Packet{Type: refcodec.PINGREQ})
					t.w.Settle()
					if got := l.rc.Take(); !hasType(got, refcodec.PINGRESP) || l.rc.EOF {
						vsched.Failf("the late subscriber's PINGREQ was answered by %s (closed=%v)", Describe(got), l.rc.EOF)
						return
					}
					if ps := publishesOn(b.rc.Take(), "v/t"); len(ps) != 1 || string(ps[0].Payload) != "for the victim" || b.rc.EOF {
						vsched.Failf("the bystander received %s on v/t (closed=%v)", Describe(ps), b.rc.EOF)
						return
					}
					vsched.Logf("ok")
				}
				res := explore.RunDefault(body)
				if c.Replay != nil {
					fmt.Println("replay:", name)
					for _, l := range res.Log {
						fmt.Println("  ", l)
					}
					fmt.Println("  failures:", res.Failures, firstLine(res.Crash))
					c.Rep.Scenarios++
					return
				}
				c.Rep.Executions++
				c.Rep.Evaluations++
				c.Rep.States++
				c.Rep.Nontrivial++
				c.Rep.Transitions += int64(len(res.Points))
				v := ""
				if res.Status == vsched.StCrash {
					v = "a library goroutine panicked (the broker process would exit): " + firstLine(res.Crash)
				} else if res.Status == vsched.StHorizon {
					v = "no quiescence: the broker keeps running without input"
				} else if len(res.Failures) > 0 {
					v = res.Failures[0]
				}
				if v != "" {
					if c.Violate("C05 poison :: "+violClass(v), core.Replay{Scenario: name, Message: v, Log: res.Log, Crash: res.Crash}) {
						return
					}
				}
			}
		}
	}
	c.Rep.Scenarios++
	c.Rep.Sample(map[string]interface{}{"search": "poisoned session", "odd_connects": len(odds), "attacker": []string{"cut", "disconnect", "stays"}, "victim_clean_session": []bool{false, true}})
}
