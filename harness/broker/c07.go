package broker

import (
	"encoding/json"
	"fmt"

	"verif/harness/core"
	"verif/models/refmatch"
)

type subEntry struct {
	f string
	q byte
}

// subPackets enumerates the SUBSCRIBE requests of C07.
func subPackets(thorough bool) [][]subEntry {
	filters := []string{"a", "a/b", "+", "a/#", "#", "a#", "#/a", "a/+b"}
	qoss := []byte{0, 1, 2, 3}
	var out [][]subEntry
	var single []subEntry
	for _, f := range filters {
		for _, q := range qoss {
			single = append(single, subEntry{f, q})
		}
	}
	for _, e := range single {
		out = append(out, []subEntry{e})
	}
	// pairs and triples over a reduced entry set (quick) / all pairs (thorough)
	red := []subEntry{{"a", 1}, {"a/#", 2}, {"+", 0}, {"a#", 1}, {"a/b", 3}, {"#", 2}}
	base := red
	if thorough {
		base = single
	}
	for _, e1 := range base {
		for _, e2 := range base {
			out = append(out, []subEntry{e1, e2})
		}
	}
	for _, e1 := range red {
		for _, e2 := range red {
			for _, e3 := range red {
				out = append(out, []subEntry{e1, e2, e3})
			}
		}
	}
	// lists long enough for the SUBACK's remaining length (2 + n) to need a second length
	// byte (n >= 126), and a SUBSCRIBE of several kilobytes
	for _, n := range []int{125, 126, 127, 128, 300} {
		if !thorough && (n == 127 || n == 128) {
			continue
		}
		l := make([]subEntry, n)
		for i := range l {
			l[i] = subEntry{fmt.Sprintf("t/%d", i), byte(i % 3)}
		}
		out = append(out, l)
		l2 := append([]subEntry{}, l...)
		l2[n-1] = subEntry{"x#", 1}
		out = append(out, l2)
	}
	// long lists
	for _, n := range []int{4, 5, 8, 16} {
		valid := make([]subEntry, n)
		for i := range valid {
			valid[i] = subEntry{fmt.Sprintf("t/%d", i), byte(i % 3)}
		}
		out = append(out, valid)
		for bad := 0; bad < n; bad++ {
			l := append([]subEntry{}, valid...)
			l[bad] = subEntry{"x#", 1}
			out = append(out, l)
			if thorough || bad == 0 || bad == n-1 {
				l2 := append([]subEntry{}, valid...)
				l2[bad].q = 3
				out = append(out, l2)
			}
		}
		same := make([]subEntry, n)
		for i := range same {
			same[i] = subEntry{"a", byte(i % 3)}
		}
		out = append(out, same)
		over := make([]subEntry, n)
		for i := range over {
			over[i] = subEntry{[]string{"a", "a/#", "+", "#"}[i%4], byte((i + 1) % 3)}
		}
		out = append(out, over)
	}
	return out
}

// C07: SUBSCRIBE/UNSUBSCRIBE always acknowledged and effective at the ack.
func C07(c *core.Ctx) {
	c.Rep.Bound = "ENUM x HIST (fourth round: in-process subscribers whose callbacks fail precede the client in every subscriber list; third round: with 24 KiB of the subscriber's own traffic between SUBSCRIBE, probes and UNSUBSCRIBE, so that its 16 KiB ring is overwritten): every SUBSCRIBE with 1 entry over 8 filters (3 invalid) x QoS 0-3, pairs/triples over a reduced set (all pairs in thorough), lists of 4/5/8/16 entries (all valid, one invalid at each position, out-of-range QoS, repeated, overlapping), under server QoS cap 2 and 1; each followed by probe publishes, the matching UNSUBSCRIBE and probes again; plus all orders of sub/unsub/pub on one connection to depth 4/5; SCHED: a client thread publishes a probe the moment the SUBACK / UNSUBACK has arrived (1 and 2 filters), every schedule of the broker goroutines up to 2 (quick) / 3 (thorough) deviations"
	c.Rep.Rule = "per packet: exactly one SUBACK with the same id and one code per entry in order (min(requested, cap) or 0x80) or the connection is closed; probes on a, a/b, b, t/0.. must be delivered according to exactly the granted entries, and not at all after the UNSUBACK; non-trivial = packets with at least one granted entry"
	comps := map[string]bool{"acks": true, "route": true, "closed": true, "stream": true}
	pkts := subPackets(c.Thorough())
	n := 0
	for _, cfg := range []Config{{}, {MaxQos: 1, MaxQosSet: true}, {BufferSize: -1}, {BufferSize: -2}} {
		// third round: the subscriber's own traffic overwrites its incoming ring between the
		// SUBSCRIBE and the probes, and again after the UNSUBSCRIBE (every fifth packet; thorough: all)
		flooded := cfg.BufferSize == -1
		// fourth round: in-process subscribers whose callbacks return an error hold `#` and
		// `a/#` before the SUBSCRIBE arrives, so they precede the client in every subscriber
		// list: a delivery that fails for somebody else is no reason to skip this client
		// (every fifth packet; thorough: all)
		failing := cfg.BufferSize == -2
		cfg.BufferSize = 0
		for pi, pk := range pkts {
			if (flooded || failing) && !c.Thorough() && pi%5 != 0 {
				continue
			}
			n++
			if c.NShards > 1 && n%c.NShards != c.Shard {
				continue
			}
			if c.Expired() || c.HasViolation() {
				return
			}
			sa := Action{Kind: "sub", Client: "S", ID: uint16(100 + pi%1000)}
			ua := Action{Kind: "unsub", Client: "S", ID: uint16(2000 + pi%1000)}
			granted := false
			probeTopics := map[string]bool{"a": true, "a/b": true, "b": true}
			for _, e := range pk {
				sa.Filters = append(sa.Filters, e.f)
				sa.QoSs = append(sa.QoSs, e.q)
				ua.Filters = append(ua.Filters, e.f)
				if refmatch.ValidFilter(e.f) && e.q <= 2 {
					granted = true
				}
				if len(e.f) > 2 && e.f[:2] == "t/" {
					probeTopics[e.f] = true
				}
			}
			var probes []Action
			id := uint16(500)
			for _, t := range []string{"a", "a/b", "b", "t/0", "t/3", "t/15"} {
				if !probeTopics[t] {
					continue
				}
				id++
				if cfg.MaxQosSet {
					// under a lowered cap the probes are QoS 2 exchanges: what arrives shows the
					// GRANTED QoS (min(2, granted)), not just that something arrives
					probes = append(probes, Action{Kind: "pub2", Client: "P", Topic: t, QoS: 2, ID: id, Payload: "probe-" + t})
				} else {
					probes = append(probes, pub("P", t, 1, id, "probe-"+t))
				}
			}
			hist := []Action{conn("P", "p", true), conn("S", "s", true), sa}
			if failing {
				hist = []Action{{Kind: "lsub", Client: "E1", Filters: []string{"#"}, QoSs: []byte{1}}, {Kind: "lsub", Client: "E2", Filters: []string{"a/#"}, QoSs: []byte{0}},
					{Kind: "lsub", Client: "E3", Filters: []string{"t/+"}, QoSs: []byte{2}}, conn("P", "p", true), conn("S", "s", true), sa}
			}
			if flooded {
				hist = append(hist, flood("S")...)
			}
			hist = append(hist, probes...)
			// the UNSUBSCRIBE must list valid filters only to be well-formed; invalid ones are kept: the broker must still answer
			hist = append(hist, ua)
			if flooded {
				hist = append(hist, flood("S")...)
			}
			for i := range probes {
				p2 := probes[i]
				p2.ID += 100
				p2.Payload += "-after"
				hist = append(hist, p2)
			}
			name := fmt.Sprintf("packet[%d]", pi)
			if cfg.MaxQosSet {
				name += "-maxqos1"
			}
			if flooded {
				name += "-flooded"
			}
			if failing {
				name += "-failing-local-subscribers"
			}
			spec := &HistSpec{Name: name, Cfg: cfg, Comps: comps}
			r := spec.RunHistory(hist, false)
			c.Rep.Evaluations++
			c.Rep.Executions++
			c.Rep.Transitions += int64(r.Steps)
			c.Rep.States++
			if granted {
				c.Rep.Nontrivial++
			}
			if r.Violation != "" {
				rr := spec.RunHistory(hist, true)
				in, _ := json.Marshal(sa.String())
				key := fmt.Sprintf("C07 packets :: %s", violClass(r.Violation))
				if c.Violate(key, core.Replay{Scenario: "packets: " + sa.String(), Message: r.Violation, Input: in, Log: tailS(rr.Trace, 60), Crash: rr.Crash}) {
					return
				}
			}
			if r.Note != "" {
				c.Rep.Notes = append(c.Rep.Notes, "packets: out-of-scope mismatch: "+noteClass(r.Note))
			}
			if pi == 40 {
				c.Rep.Sample(map[string]interface{}{"search": "packets", "example": sa.String(), "history_len": len(hist), "packets": len(pkts)})
			}
		}
	}
	c.Rep.Scenarios++
	if c.Replay != nil && len(c.Replay.Scenario) > 8 && c.Replay.Scenario[:8] == "packets:" {
		fmt.Println("replay:", c.Replay.Scenario, "\n ", c.Replay.Message)
		for _, l := range c.Replay.Log {
			fmt.Println(l)
		}
		c.Rep.Scenarios++
		return
	}
	// all orders of subscription changes and publishes on one connection
	ops := []Action{
		sub("S", 1, "a", 1), sub("S", 2, "a/#", 2), {Kind: "sub", Client: "S", ID: 3, Filters: []string{"a", "b#", "+"}, QoSs: []byte{2, 1, 0}},
		unsub("S", 4, "a"), {Kind: "unsub", Client: "S", ID: 5, Filters: []string{"a/#", "+", "nothing"}},
		// a rejected filter that shares its leading level with granted ones (same packet and earlier packets)
		{Kind: "sub", Client: "S", ID: 8, Filters: []string{"a/b", "a/#/x"}, QoSs: []byte{1, 1}},
		pub("P", "a", 1, 6, "pa"), pub("P", "a/b", 0, 0, "pab"), pub("S", "a", 1, 7, "self"),
		// a subscription to everything, and topics with an empty level where a '#' sits
		// (a trailing '#' matches them like any other level)
		sub("S", 9, "#", 0), pub("P", "/x", 0, 0, "lead-empty"), pub("P", "a//x", 0, 0, "inner-empty"),
		// a held filter named again with a QoS that is none: refused (0x80), what is held stays
		{Kind: "sub", Client: "S", ID: 10, Filters: []string{"a", "c"}, QoSs: []byte{3, 0}},
	}
	depth := 4
	if c.Thorough() {
		depth = 5
	}
	seq := &HistSpec{Name: "orders", Ops: ops, Depth: depth, Dedup: false, Comps: comps, Prefix: []Action{conn("P", "p", true), conn("S", "s", true)}}
	seq.Search(c)
	if c.HasViolation() || c.Expired() {
		return
	}
	c07sched(c)
}

func init() { core.Register("C07", C07) }
