package broker

import (
	"fmt"
	"strings"

	"github.com/mdzio/go-mqtt/verifrt/vsched"
	"verif/engine/explore"
	"verif/harness/core"
	"verif/models/refcodec"
)

// c01pressure: a subscriber that lags behind.  The subscriber stops reading;
// a publisher sends more than the subscriber's outgoing ring (16 KiB) and its
// socket take, so the broker has to wait for room; then the subscriber reads
// again.  Every message must reach it, once, intact and in order, and the
// publisher gets every acknowledgement - waiting for a slow consumer is not a
// reason to drop anything.
func c01pressure(c *core.Ctx) {
	if c.Replay != nil && !strings.HasPrefix(c.Replay.Scenario, "slow-subscriber:") {
		return
	}
	n := 0
	for _, qos := range []byte{0, 1, 2} {
		for _, size := range []int{3026, 8000, 100} {
			for _, count := range []int{8, 30} {
				if size*count < 20000 || size*count > 100000 {
					continue
				}
				n++
				name := fmt.Sprintf("slow-subscriber: %d publishes of %d bytes at QoS %d towards a subscriber that does not read, which then reads", count, size, qos)
				if c.Replay != nil {
					if c.Replay.Scenario != name {
						continue
					}
				} else if c.NShards > 1 && n%c.NShards != c.Shard {
					continue
				}
				if c.Expired() || c.HasViolation() {
					return
				}
				qos, size, count := qos, size, count
				body := func() {
					t := newTD()
					s := t.connect("S", 512, 65535, false)
					t.subscribe("S", "t", 2)
					p := t.connect("P", 0, 65535, false)
					if vsched.Failed() {
						return
					}
					for i := 0; i < count; i++ {
						p.rc.Send(&refcodec.Packet{Type: refcodec.PUBLISH, Topic: []byte("t"), QoS: qos, ID: uint16(100 + i), Payload: []byte(big(size, byte(i)))})
						t.settleExcept()
						if qos == 2 {
							// release what was acknowledged so far
							for _, a := range p.rc.Take() {
								if a.Type == refcodec.PUBREC {
									p.rc.Send(&refcodec.Packet{Type: refcodec.PUBREL, ID: a.ID})
								}
							}
							t.settleExcept()
						}
					}
					// the subscriber reads again (and acknowledges)
					s.noRead = false
					for i := 0; i < 8; i++ {
						t.settleExcept()
						if qos == 2 {
							for _, a := range p.rc.Take() {
								if a.Type == refcodec.PUBREC {
									p.rc.Send(&refcodec.Packet{Type: refcodec.PUBREL, ID: a.ID})
								}
							}
						}
					}
					if t.badStream() {
						return
					}
					got := publishesOn(s.rc.Take(), "t")
					if len(got) != count {
						vsched.Failf("the subscriber, once it read again, received %d of the %d publishes", len(got), count)
						return
					}
					for i, g := range got {
						if string(g.Payload) != big(size, byte(i)) || g.QoS != qos {
							vsched.Failf("delivery %d to the slow subscriber is not publish %d (QoS %d, %d bytes): %s", i+1, i+1, qos, size, g)
							return
						}
					}
					if p.rc.EOF || s.rc.EOF {
						vsched.Failf("a connection was closed (publisher: %v, subscriber: %v)", p.rc.EOF, s.rc.EOF)
						return
					}
					p.rc.Send(&refcodec.Packet{Type: refcodec.PINGREQ})
					t.settleExcept()
					if ps := p.rc.Take(); !hasType(ps, refcodec.PINGRESP) {
						vsched.Failf("the publisher does not get a PINGRESP after the congestion: %s", Describe(ps))
						return
					}
					vsched.Logf("ok")
				}
				res := explore.RunDefault(body)
				if c.Replay != nil {
					fmt.Println("replay:", name)
					for _, l := range res.Log {
						fmt.Println("  ", l)
					}
					fmt.Println("  failures:", res.Failures, firstLine(res.Crash))
					c.Rep.Scenarios++
					return
				}
				c.Rep.Executions++
				c.Rep.Evaluations++
				c.Rep.States++
				c.Rep.Nontrivial++
				c.Rep.Transitions += int64(len(res.Points))
				v := ""
				if res.Status == vsched.StCrash {
					v = "a library goroutine panicked: " + firstLine(res.Crash)
				} else if res.Status == vsched.StHorizon {
					v = "no quiescence"
				} else if len(res.Failures) > 0 {
					v = res.Failures[0]
				}
				if v != "" {
					if c.Violate("C01 slow-subscriber :: "+violClass(v), core.Replay{Scenario: name, Message: v, Log: res.Log, Crash: res.Crash}) {
						return
					}
				}
			}
		}
	}
	c.Rep.Scenarios++
}
