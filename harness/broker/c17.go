package broker

import (
	"fmt"
	"net"
	"sort"
	"strings"

	"github.com/mdzio/go-mqtt/message"
	"github.com/mdzio/go-mqtt/service"
	"github.com/mdzio/go-mqtt/topics"
	"github.com/mdzio/go-mqtt/verifrt/vnet"
	"github.com/mdzio/go-mqtt/verifrt/vsched"
	"verif/engine/explore"
	"verif/harness/core"
	"verif/models/refcodec"
)

func schedCheck(r *vsched.Result) explore.Verdict {
	if r.Status == vsched.StCrash {
		return explore.Verdict{Violation: "a library goroutine panicked: " + firstLine(r.Crash), Outcome: "crash"}
	}
	if len(r.Failures) > 0 {
		return explore.Verdict{Violation: r.Failures[0], Outcome: "fail"}
	}
	out := ""
	if len(r.Log) > 0 {
		out = r.Log[len(r.Log)-1]
	}
	return explore.Verdict{Outcome: out}
}

// c17stream: one writer, many messages of varying sizes through one service
// peer, several laps round the 16 KiB outgoing ring (default schedule).  The
// outgoing path keeps per-connection scratch state (a wrap buffer that only
// grows), so what a wrapping packet looks like on the wire may depend on the
// packets that wrapped before it.
func c17stream(c *core.Ctx) { streamLaps(c, "C17") }

func streamLaps(c *core.Ctx, prop string) {
	patterns := map[string][]int{
		"mixed":      {6000, 6000, 8000, 6000, 6000, 1000, 3000, 200},
		"decreasing": {8000, 7000, 5000, 3000, 2000, 1200, 700, 300, 100, 20},
		"increasing": {20, 100, 300, 700, 1200, 2000, 3000, 5000, 7000, 8000},
		"primes":     {4099, 1031, 6011, 257, 7919, 67, 2053, 5003},
		"tiny":       {1, 2, 3, 5, 8, 13, 21, 34, 55, 89, 144, 233},
	}
	names := []string{"mixed", "decreasing", "increasing", "primes", "tiny"}
	// each pattern twice: with a reader that takes every message at once, and with a slow
	// reader behind a 700-byte pipe that reads only when the writer is stuck (the ring is
	// full whenever a packet wraps)
	var runs []string
	for _, n := range names {
		runs = append(runs, n, n+"/slow-reader")
	}
	for ni, pn := range runs {
		if c.NShards > 1 && ni%c.NShards != c.Shard {
			continue
		}
		if c.Replay != nil && c.Replay.Scenario != "stream "+pn {
			continue
		}
		if c.Expired() || c.HasViolation() {
			return
		}
		slow := strings.HasSuffix(pn, "/slow-reader")
		sizes := patterns[strings.TrimSuffix(pn, "/slow-reader")]
		laps := 4
		if c.Thorough() {
			laps = 12
		}
		body := func() {
			service.VerifResetGlobals()
			message.VerifSetPacketIDCounter(0)
			topics.VerifResetProviders()
			ln, err := vnet.Listen("tcp", addr)
			if err != nil {
				vsched.Failf("harness: %v", err)
				return
			}
			var cconn net.Conn
			if slow {
				cconn, _ = vnet.DialCap(addr, 700, 0)
			} else {
				cconn, _ = vnet.Dial("tcp", addr)
			}
			sconn, _ := ln.Accept()
			peer, err := service.VerifNewPeer(cconn, true, 16384, 600, "peer", nil)
			if err != nil {
				vsched.Failf("harness: %v", err)
				return
			}
			rd := &RawClient{Name: "reader", Conn: sconn, vc: sconn.(*vnet.Conn), pendRel: map[uint16]bool{}}
			sent := 0
			k := 0
			if slow {
				total := 0
				for total < laps*16384 {
					n := sizes[k%len(sizes)]
					total += n + 20
					k++
				}
				nmsg := k
				done := false
				vsched.Go("writer", func() {
					for i := 0; i < nmsg; i++ {
						n := sizes[i%len(sizes)]
						m := message.NewPublishMessage()
						m.SetTopic([]byte("s"))
						m.SetPayload([]byte(fmt.Sprintf("%06d:%s", i, big(n, byte(i)))))
						if err := peer.Publish(m, nil); err != nil {
							vsched.Failf("publish %d failed: %v", i, err)
							return
						}
					}
					done = true
				})
				// read only when nothing moves any more: the writer is parked on a full ring
				for i := 0; i < 400000; i++ {
					vsched.Quiesce()
					if !rd.pump() {
						if done {
							break
						}
						vsched.Failf("nothing moves although the writer has %d messages to go", nmsg-len(rd.Packets))
						return
					}
					if rd.Bad != "" {
						vsched.Failf("after %d packets: %s", len(rd.Packets), rd.Bad)
						return
					}
				}
			} else {
				for sent < laps*16384 {
					n := sizes[k%len(sizes)]
					m := message.NewPublishMessage()
					m.SetTopic([]byte("s"))
					m.SetPayload([]byte(fmt.Sprintf("%06d:%s", k, big(n, byte(k)))))
					if err := peer.Publish(m, nil); err != nil {
						vsched.Failf("publish %d failed: %v", k, err)
						return
					}
					sent += m.Len()
					k++
					for i := 0; i < 32; i++ {
						vsched.Quiesce()
						if !rd.pump() {
							break
						}
					}
					if rd.Bad != "" {
						vsched.Failf("after message %d (%d payload bytes, %d bytes written in all): %s", k-1, n, sent, rd.Bad)
						return
					}
				}
			}
			if len(rd.rx) > 0 {
				vsched.Failf("the stream ends with %d bytes of an incomplete packet", len(rd.rx))
				return
			}
			got := rd.Take()
			if len(got) != k {
				vsched.Failf("%d messages were written, %d packets arrived", k, len(got))
				return
			}
			for i, p := range got {
				n := sizes[i%len(sizes)]
				if p.Type != refcodec.PUBLISH || string(p.Topic) != "s" || string(p.Payload) != fmt.Sprintf("%06d:%s", i, big(n, byte(i))) {
					vsched.Failf("packet %d on the stream is not message %d as it was written", i, i)
					return
				}
			}
			vsched.Logf("ok %d", k)
		}
		res := explore.RunDefault(body)
		if c.Replay != nil {
			fmt.Println("replay: stream", pn, res.Failures, firstLine(res.Crash))
			c.Rep.Scenarios++
			return
		}
		c.Rep.Executions++
		c.Rep.States++
		c.Rep.Scenarios++
		c.Rep.Transitions += int64(len(res.Points))
		v := ""
		if res.Status == vsched.StCrash {
			v = "a library goroutine panicked: " + firstLine(res.Crash)
		} else if len(res.Failures) > 0 {
			v = res.Failures[0]
		}
		if v != "" {
			if c.Violate(prop+" stream "+pn+" :: "+violClass(v), core.Replay{Scenario: "stream " + pn, Message: v, Log: res.Log}) {
				return
			}
		}
	}
}

// narrowPeer: several goroutines deliver to one connection at once.
func c17narrow(c *core.Ctx) {
	type scen struct {
		writers int
		each    int
		roll    int  // bytes pushed through the out ring first (cursor position)
		size    int  // payload size of the concurrent messages
		ping    bool // a PINGREQ arrives on the connection at the same time (its answer is one more producer)
	}
	var scs []scen
	rolls := []int{0, 16384 - 10}
	if c.Thorough() {
		rolls = []int{0, 16384 - 60, 16384 - 10}
	}
	for _, roll := range rolls {
		for _, size := range []int{1, 100} {
			scs = append(scs, scen{2, 1, roll, size, false}, scen{2, 2, roll, size, false})
			if size == 100 && (roll > 0 || c.Thorough()) {
				scs = append(scs, scen{1, 1, roll, size, true})
			}
			if c.Thorough() {
				scs = append(scs, scen{3, 1, roll, size, false}, scen{2, 1, roll, size, true})
			}
		}
	}
	for _, sc := range scs {
		if !c.Mine() {
			continue
		}
		if c.Expired() || c.HasViolation() {
			return
		}
		sc := sc
		name := fmt.Sprintf("peer writers=%d each=%d preroll=%d payload=%d", sc.writers, sc.each, sc.roll, sc.size)
		if sc.ping {
			name += " +PINGREQ"
		}
		body := func() {
			service.VerifResetGlobals()
			message.VerifSetPacketIDCounter(0)
			topics.VerifResetProviders()
			ln, err := vnet.Listen("tcp", addr)
			if err != nil {
				vsched.Failf("harness: %v", err)
				return
			}
			cconn, _ := vnet.Dial("tcp", addr)
			sconn, _ := ln.Accept()
			peer, err := service.VerifNewPeer(cconn, true, 16384, 600, "peer", nil)
			if err != nil {
				vsched.Failf("harness: %v", err)
				return
			}
			rd := &RawClient{Name: "reader", Conn: sconn, vc: sconn.(*vnet.Conn), pendRel: map[uint16]bool{}}
			settle := func() {
				for i := 0; i < 32; i++ {
					vsched.Quiesce()
					if !rd.pump() {
						return
					}
				}
			}
			// move the out ring's cursors
			left := sc.roll
			for left > 0 {
				n := left
				if n > 8000 {
					n = 8000
				}
				over := 7 // fixed header (1+2) + topic length (2) + topic "r" ... adjusted below
				pl := n - over
				if pl < 1 {
					pl = 1
				}
				m := message.NewPublishMessage()
				m.SetTopic([]byte("r"))
				m.SetPayload([]byte(big(pl, 1)))
				// make the packet exactly n bytes long
				for m.Len() > n && pl > 1 {
					pl--
					m.SetPayload([]byte(big(pl, 1)))
				}
				for m.Len() < n {
					pl++
					m.SetPayload([]byte(big(pl, 1)))
				}
				if err := peer.Publish(m, nil); err != nil {
					vsched.Failf("harness: preroll publish: %v", err)
					return
				}
				left -= m.Len()
				settle()
			}
			rd.Take()
			vsched.Mark()
			if sc.ping {
				// the peer answers it from its processor goroutine
				sconn.Write([]byte{0xC0, 0x00})
			}
			for wi := 0; wi < sc.writers; wi++ {
				wi := wi
				vsched.Go(fmt.Sprintf("writer%d", wi), func() {
					for k := 0; k < sc.each; k++ {
						m := message.NewPublishMessage()
						m.SetTopic([]byte(fmt.Sprintf("w/%d", wi)))
						m.SetPayload([]byte(fmt.Sprintf("%d:%d:%s", wi, k, big(sc.size, byte(wi)))))
						if err := peer.Publish(m, nil); err != nil {
							vsched.Failf("publish failed: %v", err)
						}
					}
				})
			}
			settle()
			if rd.Bad != "" {
				vsched.Failf("%s", rd.Bad)
				return
			}
			if len(rd.rx) > 0 {
				vsched.Failf("the stream ends with %d bytes of an incomplete packet", len(rd.rx))
				return
			}
			next := map[int]int{}
			pings := 0
			for _, p := range rd.Take() {
				if p.Type == refcodec.PINGRESP && sc.ping {
					pings++
					continue
				}
				if p.Type != refcodec.PUBLISH {
					vsched.Failf("unexpected %s on the stream", p)
					return
				}
				var wi, k int
				var rest string
				parts := strings.SplitN(string(p.Payload), ":", 3)
				if len(parts) != 3 {
					vsched.Failf("payload %q is not one the writers sent", short(string(p.Payload)))
					return
				}
				fmt.Sscanf(parts[0], "%d", &wi)
				fmt.Sscanf(parts[1], "%d", &k)
				rest = parts[2]
				if rest != big(sc.size, byte(wi)) || string(p.Topic) != fmt.Sprintf("w/%d", wi) {
					vsched.Failf("a packet of writer %d arrived with a corrupted topic or payload", wi)
					return
				}
				if k != next[wi] {
					vsched.Failf("writer %d: message %d arrived where %d was due (order within one publisher)", wi, k, next[wi])
					return
				}
				next[wi]++
			}
			for wi := 0; wi < sc.writers; wi++ {
				if next[wi] != sc.each {
					vsched.Failf("writer %d: %d of %d messages arrived", wi, next[wi], sc.each)
					return
				}
			}
			if sc.ping && pings != 1 {
				vsched.Failf("the PINGREQ was answered %d times", pings)
				return
			}
			vsched.Logf("ok")
		}
		// one message per writer: every interleaving; more: preemption-bounded
		bound := -1
		if sc.ping {
			// five threads (receiver, processor, sender, writer, harness): preemption-bounded
			bound = 2
		}
		if sc.writers*sc.each > 2 {
			bound = 2
			if c.Thorough() {
				bound = 3
			}
		}
		st := c.RunSched(explore.SchedOpts{Name: name, Bound: bound, Cache: true, UseMark: true, Body: body, MaxExecs: 200000, FallbackBound: 3, MaxPoints: 50000, Check: schedCheck},
			func(v *explore.Violation) string { return "C17 " + name + " :: " + violClass(v.Message) })
		if st != nil {
			c.Rep.Sample(map[string]interface{}{"scenario": name, "bound": st.Bound, "executions": st.Executions, "states": st.States})
		}
	}
}

// c17broker: two publishers, two subscribers, the real broker.
func c17broker(c *core.Ctx) {
	type scen struct {
		qos  byte
		each int
	}
	scs := []scen{{0, 2}, {1, 2}, {1, 1}}
	if c.Thorough() {
		scs = append(scs, scen{2, 1}, scen{0, 3})
	}
	bound, dev := 1, 1
	if c.Thorough() {
		bound, dev = 2, 2
	}
	for _, sc := range scs {
		if c.Expired() || c.HasViolation() {
			return
		}
		sc := sc
		dev := dev
		if sc.each == 1 && dev < 2 {
			dev = 2
		}
		name := fmt.Sprintf("broker 2 publishers x %d messages at QoS %d, 2 subscribers", sc.each, sc.qos)
		body := func() {
			h := NewHarness(Config{})
			for _, a := range []Action{conn("S1", "s1", true), conn("S2", "s2", true), sub("S1", 1, "t", 2), sub("S2", 2, "t", 1), conn("P1", "p1", true), conn("P2", "p2", true)} {
				if mm := h.Step(a); len(mm) > 0 {
					vsched.Failf("harness: %s", mm[0].Msg)
					return
				}
			}
			h.byName["S1"].AutoAck = false
			h.byName["S2"].AutoAck = false
			vsched.Mark()
			for pi, pn := range []string{"P1", "P2"} {
				pi, pn := pi, pn
				rc := h.byName[pn]
				vsched.Go("publisher-"+pn, func() {
					for k := 0; k < sc.each; k++ {
						p := &refcodec.Packet{Type: refcodec.PUBLISH, Topic: []byte("t"), QoS: sc.qos, ID: uint16(10*(pi+1) + k), Payload: []byte(fmt.Sprintf("%d:%d", pi, k))}
						rc.Conn.Write(refcodec.Encode(p))
					}
					if sc.qos == 2 {
						// answer every PUBREC with PUBREL
						buf := make([]byte, 4096)
						var rx []byte
						rels := 0
						for rels < sc.each {
							n, err := rc.Conn.Read(buf)
							rx = append(rx, buf[:n]...)
							pk, rest, _ := refcodec.Split(rx)
							rx = append([]byte(nil), rest...)
							for _, p := range pk {
								if p.Type == refcodec.PUBREC {
									rc.Conn.Write(refcodec.Encode(&refcodec.Packet{Type: refcodec.PUBREL, ID: p.ID}))
									rels++
								}
							}
							if err != nil {
								return
							}
						}
					}
				})
			}
			h.W.Settle()
			for _, sn := range []string{"S1", "S2"} {
				s := h.byName[sn]
				if s.Bad != "" {
					vsched.Failf("%s", s.Bad)
					return
				}
				if len(s.rx) > 0 {
					vsched.Failf("the stream to %s ends inside a packet", sn)
					return
				}
				next := map[int]int{}
				for _, p := range s.Take() {
					if p.Type != refcodec.PUBLISH {
						continue
					}
					var pi, k int
					if n, _ := fmt.Sscanf(string(p.Payload), "%d:%d", &pi, &k); n != 2 || string(p.Topic) != "t" {
						vsched.Failf("%s received a PUBLISH nobody sent: %s", sn, p)
						return
					}
					if k != next[pi] {
						vsched.Failf("%s: message %d of publisher %d arrived where %d was due", sn, k, pi+1, next[pi])
						return
					}
					next[pi]++
				}
				var got []string
				for pi := 0; pi < 2; pi++ {
					got = append(got, fmt.Sprint(next[pi]))
					if next[pi] != sc.each {
						vsched.Failf("%s received %d of %d messages of publisher %d", sn, next[pi], sc.each, pi+1)
						return
					}
				}
				sort.Strings(got)
			}
			for _, pn := range []string{"P1", "P2"} {
				if h.byName[pn].Bad != "" {
					vsched.Failf("%s", h.byName[pn].Bad)
					return
				}
			}
			vsched.Logf("ok")
		}
		// one scenario, all workers: the schedule tree is split among them
		st := c.RunSched(explore.SchedOpts{Name: name, Bound: bound, Cache: true, UseMark: true, Body: body, MaxPoints: 100000, Check: schedCheck, Shard: c.Shard, NShards: c.NShards, DevBound: dev},
			func(v *explore.Violation) string { return "C17 " + name + " :: " + violClass(v.Message) })
		if st != nil {
			c.Rep.Sample(map[string]interface{}{"scenario": name, "bound": st.Bound, "executions": st.Executions, "states": st.States})
		}
	}
}

// c17oddIDs: a peer that uses packet identifier 0 (which MQTT forbids and the
// library's decoders accept).  Whatever the broker makes of such packets -
// answer them with identifier 0, or end the connection - what it writes is
// whole packets: the answers to the packets in front, in order, each complete.
func c17oddIDs(c *core.Ctx) {
	name := "broker: requests with packet identifier 0 between ordinary ones"
	dev := 1
	if c.Thorough() {
		dev = 2
	}
	body := func() {
		t := newTD()
		x := t.connect("X", 0, 65535, false)
		if vsched.Failed() {
			return
		}
		reqs := []*refcodec.Packet{
			{Type: refcodec.PUBLISH, Topic: []byte("t"), QoS: 1, ID: 0, Payload: []byte("a")},
			{Type: refcodec.PUBLISH, Topic: []byte("t"), QoS: 1, ID: 7, Payload: []byte("b")},
			{Type: refcodec.PUBLISH, Topic: []byte("t"), QoS: 2, ID: 0, Payload: []byte("c")},
			{Type: refcodec.PUBREL, ID: 0},
			{Type: refcodec.UNSUBSCRIBE, ID: 0, Topics: [][]byte{[]byte("x")}},
			{Type: refcodec.SUBSCRIBE, ID: 0, Topics: [][]byte{[]byte("y")}, QoSs: []byte{1}},
			{Type: refcodec.PUBLISH, Topic: []byte("t"), QoS: 1, ID: 8, Payload: []byte("d")},
			{Type: refcodec.PINGREQ},
		}
		want := []byte{refcodec.PUBACK, refcodec.PUBACK, refcodec.PUBREC, refcodec.PUBCOMP, refcodec.UNSUBACK, refcodec.SUBACK, refcodec.PUBACK, refcodec.PINGRESP}
		wantID := []uint16{0, 7, 0, 0, 0, 0, 8, 0}
		var wire []byte
		for _, r := range reqs {
			wire = append(wire, refcodec.Encode(r)...)
		}
		vsched.Mark()
		x.rc.Conn.Write(wire)
		t.settleExcept()
		if t.badStream() {
			return
		}
		got := x.rc.Take()
		for i, g := range got {
			if i >= len(want) || g.Type != want[i] || (g.Type != refcodec.PINGRESP && g.ID != wantID[i]) {
				vsched.Failf("answer %d on the connection is %s; the requests were %s", i+1, g, Describe(reqs))
				return
			}
		}
		if len(got) < len(want) && !x.rc.EOF && x.rc.ReadErr == "" {
			vsched.Failf("the broker answered %d of %d requests and keeps the connection open: %s", len(got), len(want), Describe(got))
			return
		}
		vsched.Logf("ok %d", len(got))
	}
	st := c.RunSched(explore.SchedOpts{Name: name, Bound: -1, DevBound: dev, Cache: true, UseMark: true, Body: body, MaxPoints: 100000, Check: schedCheck, Shard: c.Shard, NShards: c.NShards},
		func(v *explore.Violation) string { return "C17 " + name + " :: " + violClass(v.Message) })
	if st != nil && c.Shard == 0 {
		c.Rep.Sample(map[string]interface{}{"scenario": name, "deviations": dev, "executions": st.Executions, "states": st.States})
	}
}

// c17clientDisconnect: the client role.  The application publishes (QoS 0, so
// Publish returns as soon as the packet is in the outgoing ring) and calls
// Disconnect at once.  What the server reads until the end of the connection
// is whole packets: the publishes or a prefix of them, a DISCONNECT if any at a
// packet boundary; the connection may end inside a packet, but nothing may be
// written into the middle of one.
func c17clientDisconnect(c *core.Ctx) {
	dev := 2
	if c.Thorough() {
		dev = 3
	}
	for _, sizes := range [][]int{{8000, 8000, 8000}, {100}, {8150, 8150}} {
		if c.Expired() || c.HasViolation() {
			return
		}
		sizes := sizes
		name := fmt.Sprintf("client: Publish %v bytes (QoS 0), then Disconnect at once", sizes)
		body := func() {
			w := NewClientWorld()
			if !w.Connected("cid") {
				return
			}
			w.Srv.Take()
			vsched.Mark()
			vsched.Go("app", func() {
				for i, n := range sizes {
					if _, err := w.Issue("pub0", []string{"t"}, nil, big(n, byte(i+1))); err != nil {
						return
					}
				}
				w.Cl.Disconnect()
			})
			// the server reads to the end
			var rx []byte
			buf := make([]byte, 65536)
			for {
				n, err := w.Srv.Conn.Read(buf)
				rx = append(rx, buf[:n]...)
				if err != nil {
					break
				}
			}
			vsched.Quiesce()
			pkts, rest, perr := refcodec.Split(rx)
			if perr != nil {
				vsched.Failf("what the client wrote is not a sequence of packets: after %d whole packets the stream goes on with %x... (%d bytes in all)", len(pkts), head(rest, 12), len(rx))
				return
			}
			k := 0
			for i, p := range pkts {
				switch {
				case p.Type == refcodec.PUBLISH && k < len(sizes) && len(p.Payload) == sizes[k] && string(p.Payload) == big(sizes[k], byte(k+1)):
					k++
				case p.Type == refcodec.DISCONNECT && i == len(pkts)-1 && len(rest) == 0:
				default:
					vsched.Failf("packet %d of the client's stream is %s (published: %v bytes, then Disconnect)", i+1, p, sizes)
					return
				}
			}
			if len(rest) > 0 {
				// the connection ended inside a packet: it has to be the next publish
				if k >= len(sizes) || rest[0] != 0x30 {
					vsched.Failf("the client's stream ends with %d bytes that begin no publish of the application: %x...", len(rest), head(rest, 12))
					return
				}
			}
			vsched.Logf("ok %d/%d %d", k, len(sizes), len(rest))
		}
		st := c.RunSched(explore.SchedOpts{Name: name, Bound: -1, DevBound: dev, Cache: true, UseMark: true, Body: body, MaxPoints: 100000, Check: schedCheck, Shard: c.Shard, NShards: c.NShards},
			func(v *explore.Violation) string { return "C17 " + name + " :: " + violClass(v.Message) })
		if st != nil && c.Shard == 0 {
			c.Rep.Sample(map[string]interface{}{"scenario": name, "deviations": dev, "executions": st.Executions, "states": st.States})
		}
	}
}

// blockPayload makes a QoS 0 PUBLISH on topic "big" exactly 8192 bytes long
// (one read block): 1 type byte + 2 length bytes + 2 + 3 topic bytes + payload.
const blockPayload = 8192 - 1 - 2 - 2 - 3

// c17wrap: one publisher sends three 8000-byte messages back to back (its
// incoming ring wraps while the first is being delivered); the subscriber must
// receive them intact and in order.
func c17wrap(c *core.Ctx) {
	dev := 1
	if c.Thorough() {
		dev = 2
	}
	name := "broker 1 publisher x 3 back-to-back 8192-byte packets (incoming ring wraps during delivery)"
	body := func() {
		t := newTD()
		p := t.connect("P", 0, 65535, false)
		s := t.connect("S", 0, 65535, false)
		t.subscribe("S", "big", 0)
		if vsched.Failed() {
			return
		}
		vsched.Mark()
		var wire []byte
		for k := 0; k < 3; k++ {
			wire = append(wire, refcodec.Encode(bigPub("big", blockPayload, byte(k)))...)
		}
		p.rc.Conn.Write(wire)
		t.settleExcept()
		if s.rc.Bad != "" {
			vsched.Failf("%s", s.rc.Bad)
			return
		}
		k := 0
		for _, pk := range s.rc.Take() {
			if pk.Type != refcodec.PUBLISH {
				continue
			}
			if string(pk.Topic) != "big" || string(pk.Payload) != big(blockPayload, byte(k)) {
				vsched.Failf("message %d arrived with a corrupted topic or payload (or out of order)", k)
				return
			}
			k++
		}
		if k != 3 {
			vsched.Failf("%d of 3 messages arrived", k)
			return
		}
		vsched.Logf("ok")
	}
	st := c.RunSched(explore.SchedOpts{Name: name, Bound: -1, DevBound: dev, Cache: true, UseMark: true, Body: body, MaxPoints: 100000, Check: schedCheck, Shard: c.Shard, NShards: c.NShards},
		func(v *explore.Violation) string { return "C17 wrap :: " + violClass(v.Message) })
	if st != nil && c.Shard == 0 {
		c.Rep.Sample(map[string]interface{}{"scenario": name, "deviations": dev, "executions": st.Executions, "states": st.States})
	}
}

// c17window: one publisher, one topic, one QoS level, many messages in flight: the
// inbound QoS 2 queue (16 slots, grows, wraps) and the subscriber's outbound queues
// must not reorder them.  Window shapes: `done` exchanges completed one by one, then
// PUBLISH x a, PUBREL for the first r of them, PUBLISH x b, then the remaining PUBRELs
// in order (QoS 1: the same numbers of publishes, acknowledged by the broker at once).
// Default schedule; the subscriber acknowledges everything.
func c17window(c *core.Ctx) {
	type shape struct{ done, a, r, b int }
	var shapes []shape
	for _, done := range []int{0, 3} {
		for _, a := range []int{10, 16, 17} {
			for _, r := range []int{0, 4} {
				for _, b := range []int{0, 11, 20} {
					shapes = append(shapes, shape{done, a, r, b})
				}
			}
		}
	}
	n := 0
	for _, q := range []byte{2, 1} {
		for _, sh := range shapes {
			n++
			if c.NShards > 1 && n%c.NShards != c.Shard {
				continue
			}
			if c.Expired() || c.HasViolation() {
				return
			}
			if !c.Thorough() && q == 1 && (sh.r != 0 || sh.done != 0) {
				continue
			}
			q, sh := q, sh
			name := fmt.Sprintf("window: QoS %d, %d completed, then %d in flight, %d released, %d more, rest released in order", q, sh.done, sh.a, sh.r, sh.b)
			var viol string
			body := func() {
				t := newTD()
				p := t.connect("P", 0, 65535, false)
				sub := t.connect("S", 0, 65535, false)
				t.subscribe("S", "w", q)
				if vsched.Failed() {
					return
				}
				p.rc.AutoAck = true
				id := uint16(0)
				var want []string
				pub := func() uint16 {
					id++
					pl := fmt.Sprintf("m%03d", id)
					want = append(want, pl)
					p.rc.Send(&refcodec.Packet{Type: refcodec.PUBLISH, Topic: []byte("w"), QoS: q, ID: id, Payload: []byte(pl)})
					t.settleExcept()
					return id
				}
				rel := func(k uint16) {
					if q == 2 {
						p.rc.Send(&refcodec.Packet{Type: refcodec.PUBREL, ID: k})
						t.settleExcept()
					}
				}
				for i := 0; i < sh.done; i++ {
					rel(pub())
				}
				first := id + 1
				for i := 0; i < sh.a; i++ {
					pub()
				}
				for i := 0; i < sh.r; i++ {
					rel(first + uint16(i))
				}
				for i := 0; i < sh.b; i++ {
					pub()
				}
				for k := first + uint16(sh.r); k <= id; k++ {
					rel(k)
				}
				t.settleExcept()
				if sub.rc.Bad != "" || p.rc.Bad != "" {
					vsched.Failf("%s%s", sub.rc.Bad, p.rc.Bad)
					return
				}
				var got []string
				for _, pk := range sub.rc.Take() {
					if pk.Type == refcodec.PUBLISH && string(pk.Topic) == "w" {
						got = append(got, string(pk.Payload))
					}
				}
				if strings.Join(got, " ") != strings.Join(want, " ") {
					vsched.Failf("one publisher, one topic, QoS %d: published %s; the subscriber received %s", q, strings.Join(want, " "), strings.Join(got, " "))
				}
			}
			res := explore.RunDefault(body)
			c.Rep.Executions++
			c.Rep.Transitions += int64(len(res.Points))
			c.Rep.States++
			if res.Status == vsched.StCrash {
				viol = "a library goroutine panicked: " + firstLine(res.Crash)
			} else if len(res.Failures) > 0 {
				viol = res.Failures[0]
			}
			if viol != "" {
				if c.Violate("C17 window :: "+violClass(viol), core.Replay{Scenario: name, Message: viol}) {
					return
				}
			}
		}
	}
	c.Rep.Scenarios++
}

// smallChunkBody: the sender goroutine is stuck in conn.Write with a SMALL chunk (it picked
// up the only message there was; the peer reads through a 50-byte pipe), the ring fills up
// behind it with 1000-byte messages, and a message that needs more room than the small chunk
// will free parks in the wait for ring space.  When the peer reads on, the sender commits the
// small chunk and wakes the producer - with too little room for its message: it has to wait
// again.  pre: messages sent and read completely before, so that the episode happens at
// another place of the ring (and on a later lap).  Returns the body and a pointer to the
// verdict text ("" = fine).
func smallChunkBody(pre []int, small, fill, bigMsg int) func() {
	return func() {
		service.VerifResetGlobals()
		message.VerifSetPacketIDCounter(0)
		topics.VerifResetProviders()
		ln, err := vnet.Listen("tcp", addr)
		if err != nil {
			vsched.Failf("harness: %v", err)
			return
		}
		cconn, _ := vnet.DialCap(addr, 50, 0)
		sconn, _ := ln.Accept()
		peer, err := service.VerifNewPeer(cconn, true, 16384, 600, "peer", nil)
		if err != nil {
			vsched.Failf("harness: %v", err)
			return
		}
		rd := &RawClient{Name: "reader", Conn: sconn, vc: sconn.(*vnet.Conn), pendRel: map[uint16]bool{}}
		var want []string
		publish := func(n int) bool {
			i := len(want)
			pl := fmt.Sprintf("%06d:%s", i, big(n, byte(i)))
			want = append(want, pl)
			m := message.NewPublishMessage()
			m.SetTopic([]byte("s"))
			m.SetPayload([]byte(pl))
			if err := peer.Publish(m, nil); err != nil {
				vsched.Failf("publish %d failed: %v", i, err)
				return false
			}
			return true
		}
		drain := func(until func() bool) bool {
			for i := 0; i < 400000; i++ {
				vsched.Quiesce()
				if !rd.pump() {
					if until() {
						return true
					}
					vsched.Failf("nothing moves although %d of %d messages have not arrived", len(want)-len(rd.Packets), len(want))
					return false
				}
				if rd.Bad != "" {
					vsched.Failf("after %d packets: %s", len(rd.Packets), rd.Bad)
					return false
				}
			}
			return false
		}
		for _, n := range pre {
			if !publish(n) || !drain(func() bool { return true }) {
				return
			}
		}
		if !publish(small) {
			return
		}
		vsched.Quiesce() // the sender has picked the small message up and waits for the peer
		vsched.Mark()
		done := false
		nfill := fill
		vsched.Go("writer", func() {
			for i := 0; i < nfill; i++ {
				if !publish(1000) {
					return
				}
			}
			if publish(bigMsg) {
				done = true
			}
		})
		if !drain(func() bool { return done }) {
			return
		}
		if len(rd.rx) > 0 {
			vsched.Failf("the stream ends with %d bytes of an incomplete packet", len(rd.rx))
			return
		}
		got := rd.Take()
		if len(got) != len(want) {
			vsched.Failf("%d messages were written, %d packets arrived", len(want), len(got))
			return
		}
		for i, p := range got {
			if p.Type != refcodec.PUBLISH || string(p.Topic) != "s" || string(p.Payload) != want[i] {
				vsched.Failf("packet %d on the stream is not message %d as it was written", i, i)
				return
			}
		}
		vsched.Logf("ok %d", len(want))
	}
}

type smallChunkCase struct {
	name                string
	pre                 []int
	small, fill, bigMsg int
}

func smallChunkCases(thorough bool) []smallChunkCase {
	var out []smallChunkCase
	pres := map[string][]int{"ring start": nil, "second lap": {6000, 6000, 6000, 6000}, "mid ring": {5000}, "near the ring end": {6000, 6000, 1500}}
	names := []string{"ring start", "second lap", "mid ring", "near the ring end"}
	for _, pn := range names {
		for _, small := range []int{100, 700} {
			for _, bigMsg := range []int{2800, 9000} {
				if !thorough && (small == 700) != (bigMsg == 9000) {
					continue
				}
				// as many 1000-byte messages as fit behind the small one, and one fewer
				fit := (16384 - (small + 20)) / 1012
				for _, fill := range []int{fit, fit - 1} {
					out = append(out, smallChunkCase{fmt.Sprintf("sender stuck with %d bytes at %s, %d x 1000 bytes behind it, then %d bytes", small, pn, fill, bigMsg), pres[pn], small, fill, bigMsg})
				}
			}
		}
	}
	return out
}

// c17smallChunk: see smallChunkBody (default schedule; C18 explores the same bodies under
// deviations with the race detector).
func c17smallChunk(c *core.Ctx) { smallChunk(c, "C17") }

func smallChunk(c *core.Ctx, prop string) {
	for ni, sc := range smallChunkCases(c.Thorough()) {
		if c.NShards > 1 && ni%c.NShards != c.Shard {
			continue
		}
		name := "small-chunk: " + sc.name
		if c.Replay != nil && c.Replay.Scenario != name {
			continue
		}
		if c.Expired() || c.HasViolation() {
			return
		}
		res := explore.RunDefault(smallChunkBody(sc.pre, sc.small, sc.fill, sc.bigMsg))
		if c.Replay != nil {
			fmt.Println("replay:", name, res.Failures, firstLine(res.Crash))
			c.Rep.Scenarios++
			return
		}
		c.Rep.Executions++
		c.Rep.States++
		c.Rep.Scenarios++
		c.Rep.Transitions += int64(len(res.Points))
		v := ""
		if res.Status == vsched.StCrash {
			v = "a library goroutine panicked: " + firstLine(res.Crash)
		} else if len(res.Failures) > 0 {
			v = res.Failures[0]
		} else if res.Status == vsched.StHorizon {
			v = "harness: the execution did not finish within the point limit"
		}
		if v != "" {
			if c.Violate(prop+" small-chunk :: "+violClass(v), core.Replay{Scenario: name, Message: v, Log: res.Log}) {
				return
			}
		}
	}
}

// C17: whole packets, per-publisher order.
func C17(c *core.Ctx) {
	c.Rep.Bound = "(stream, default schedule) one writer, five size patterns, 4 (quick) / 12 (thorough) laps round the outgoing ring, each with a prompt reader and with a slow reader behind a 700-byte pipe (every wrap happens on a full ring); the sender stuck with a small chunk while the ring fills behind it and a larger message waits for room (4 ring positions, 2 chunk sizes, 2 message sizes, ring full / one message short of full); SCHED: (narrow) 2-3 goroutines publishing 1-2 messages each through one service peer whose out ring was pre-rolled so that a packet wraps, all interleavings for one message per goroutine, <= 2 (quick) / 3 (thorough) preemptions otherwise; (broker) 2 raw publishers x 1-3 messages at QoS 0/1/2 to 2 subscribers through the real broker, every schedule that deviates from the default (run-until-blocked, lowest thread first) schedule at <= 1 (quick) / 2 (thorough) scheduling points, after a default-schedule set-up"
	c.Rep.Rule = "oracle at quiescence: every connection's byte stream parses under the strict reference codec into whole packets, each message arrives exactly once with intact topic and payload, and the sequence numbers of each publisher arrive in order at each subscriber"
	c17stream(c)
	if c.HasViolation() || c.Expired() {
		return
	}
	c17smallChunk(c)
	if c.HasViolation() || c.Expired() {
		return
	}
	c17narrow(c)
	if c.HasViolation() {
		return
	}
	c17broker(c)
	if c.HasViolation() {
		return
	}
	c17wrap(c)
	if c.HasViolation() {
		return
	}
	c17oddIDs(c)
	if c.HasViolation() {
		return
	}
	c17window(c)
	if c.HasViolation() {
		return
	}
	// a retained message replaced while a subscriber's processor holds the old one for
	// delivery (shared with C08): the stream to that subscriber stays whole packets
	c08schedFor(c, "C17", "full outgoing ring subscribes")
	if c.HasViolation() {
		return
	}
	// every remaining length 5..300 on three paths into a connection's outgoing ring
	// (forwarded as received, encoded from the fields, re-encoded after a QoS downgrade)
	framingSweep(c, "C17")
	if c.HasViolation() {
		return
	}
	c17clientDisconnect(c)
}

func init() {
	core.Register("C17", C17)
	core.RegisterExtra("C14", func(c *core.Ctx) {
		streamLaps(c, "C14")
		if c.HasViolation() || c.Expired() {
			return
		}
		smallChunk(c, "C14")
	})
}
