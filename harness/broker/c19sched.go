package broker

import (
	"fmt"
	"time"

	"github.com/mdzio/go-mqtt/verifrt/vsched"
	"verif/engine/explore"
	"verif/harness/core"
	"verif/models/refcodec"
)

// c19sched: the keep-alive a connection is held to is the one of its own
// CONNECT.  Two handshakes with one client identifier (CleanSession=0, so they
// share the stored session) overlap, one negotiating 1 s and one 60 s; under
// every schedule of the broker's goroutines (within the deviation bound), after
// 2 s of silence the 1 s connection has been dropped with its will published,
// and the 60 s connection is still there and answers a PINGREQ.
func c19sched(c *core.Ctx) {
	dev := 2
	if c.Thorough() {
		dev = 3
	}
	for _, firstShort := range []bool{true, false} {
		if c.Expired() || c.HasViolation() {
			return
		}
		firstShort := firstShort
		ka, kb := uint16(1), uint16(60)
		if !firstShort {
			ka, kb = 60, 1
		}
		name := fmt.Sprintf("two overlapping handshakes with one client id, keep-alive %d s and %d s, then 2 s of silence", ka, kb)
		body := func() {
			t := newTD()
			w := t.connect("W", 0, 65535, false)
			t.subscribe("W", "will/#", 0)
			a, err := t.w.Dial("A")
			if err != nil {
				vsched.Failf("harness: dial: %v", err)
				return
			}
			b, err := t.w.Dial("B")
			if err != nil || vsched.Failed() {
				return
			}
			w.rc.Take()
			vsched.Mark()
			a.Conn.Write(refcodec.Encode(ConnectPacket(ConnectOpts{ClientID: "x", Clean: false, KeepAlive: ka, Will: &Will{"will/a", "a is gone", 0, false}})))
			b.Conn.Write(refcodec.Encode(ConnectPacket(ConnectOpts{ClientID: "x", Clean: false, KeepAlive: kb, Will: &Will{"will/b", "b is gone", 0, false}})))
			t.w.Settle()
			if ga, gb := a.Take(), b.Take(); !hasType(ga, refcodec.CONNACK) || !hasType(gb, refcodec.CONNACK) {
				vsched.Failf("the two CONNECTs were answered by %s and %s", Describe(ga), Describe(gb))
				return
			}
			vsched.Advance(2 * time.Second)
			t.w.Settle()
			short, long, shortName, longName, shortWill, longWill := a, b, "A", "B", "will/a", "will/b"
			if !firstShort {
				short, long, shortName, longName, shortWill, longWill = b, a, "B", "A", "will/b", "will/a"
			}
			got := w.rc.Take()
			if !short.EOF && short.ReadErr == "" {
				vsched.Failf("connection %s negotiated a keep-alive of 1 s and has been silent for 2 s: it is still open", shortName)
				return
			}
			if n := len(publishesOn(got, shortWill)); n != 1 {
				vsched.Failf("connection %s (keep-alive 1 s) was silent for 2 s; its will was published %d times", shortName, n)
				return
			}
			if long.EOF || long.ReadErr != "" || len(publishesOn(got, longWill)) != 0 {
				vsched.Failf("connection %s negotiated a keep-alive of 60 s and was dropped after 2 s of silence (closed=%v, will published %d times)", longName, long.EOF || long.ReadErr != "", len(publishesOn(got, longWill)))
				return
			}
			long.Send(&refcodec.Packet{Type: refcodec.PINGREQ})
			t.w.Settle()
			if ps := long.Take(); !hasType(ps, refcodec.PINGRESP) {
				vsched.Failf("connection %s (keep-alive 60 s) does not answer a PINGREQ after 2 s: %s", longName, Describe(ps))
				return
			}
			if t.badStream() {
				return
			}
			vsched.Logf("ok")
		}
		st := c.RunSched(explore.SchedOpts{Name: name, Bound: -1, DevBound: dev, Cache: true, UseMark: true, Body: body, MaxPoints: 100000, Check: schedCheck, Shard: c.Shard, NShards: c.NShards},
			func(v *explore.Violation) string { return "C19 " + name + " :: " + violClass(v.Message) })
		if st != nil && c.Shard == 0 {
			c.Rep.Sample(map[string]interface{}{"scenario": name, "deviations": dev, "executions": st.Executions, "states": st.States})
		}
	}
}
