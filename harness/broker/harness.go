package broker

import (
	"fmt"
	"runtime"
	"sort"
	"strings"
	"time"

	"github.com/mdzio/go-mqtt/message"
	"github.com/mdzio/go-mqtt/service"
	"github.com/mdzio/go-mqtt/verifrt/vsched"
	"verif/models/refcodec"
	"verif/models/refmatch"
)

// Action is one step of a history.
type Action struct {
	Kind    string // connect sub unsub pub pubrel disconnect cut ping raw advance lpub lsub lunsub
	Client  string
	Opts    ConnectOpts
	ID      uint16
	Filters []string
	QoSs    []byte
	Topic   string
	Payload string
	QoS     byte
	Retain  bool
	Dup     bool
	Raw     []byte
	RawDesc string
	D       time.Duration
	// Pad: the packet of a pub / pubrel action is sent with that many extra bytes in its
	// remaining-length field (accepted by the library, so it has to be treated like the packet it is)
	Pad int
	// Expect of a "connectraw" action: accept | code1 | code2 | code4 | close | code1-or-close | pending
	Expect string
}

func (a Action) String() string {
	switch a.Kind {
	case "connect":
		w := ""
		if a.Opts.Will != nil {
			w = fmt.Sprintf(",will=%s/%q/q%d/r%v", a.Opts.Will.Topic, short(a.Opts.Will.Payload), a.Opts.Will.QoS, a.Opts.Will.Retain)
		}
		return fmt.Sprintf("%s:connect(%s,clean=%v,ka=%d%s)", a.Client, a.Opts.ClientID, a.Opts.Clean, a.Opts.KeepAlive, w)
	case "sub":
		var fs []string
		for i, f := range a.Filters {
			fs = append(fs, fmt.Sprintf("%s@%d", f, a.QoSs[i]))
		}
		return fmt.Sprintf("%s:sub(%d,%s)", a.Client, a.ID, strings.Join(fs, ","))
	case "unsub":
		return fmt.Sprintf("%s:unsub(%d,%s)", a.Client, a.ID, strings.Join(a.Filters, ","))
	case "pub":
		if a.Pad > 0 {
			return fmt.Sprintf("%s:pub(%s,q%d,r%v,dup=%v,id=%d,%s,length field padded by %d)", a.Client, a.Topic, a.QoS, a.Retain, a.Dup, a.ID, short(a.Payload), a.Pad)
		}
		return fmt.Sprintf("%s:pub(%s,q%d,r%v,dup=%v,id=%d,%s)", a.Client, a.Topic, a.QoS, a.Retain, a.Dup, a.ID, short(a.Payload))
	case "pubrel":
		if a.Pad > 0 {
			return fmt.Sprintf("%s:pubrel(%d, length field padded by %d)", a.Client, a.ID, a.Pad)
		}
		return fmt.Sprintf("%s:pubrel(%d)", a.Client, a.ID)
	case "pub2":
		return fmt.Sprintf("%s:pub+rel(%s,q2,r%v,id=%d,%s)", a.Client, a.Topic, a.Retain, a.ID, short(a.Payload))
	case "raw":
		return fmt.Sprintf("%s:raw(%s)", a.Client, a.RawDesc)
	case "connectraw":
		return fmt.Sprintf("%s:first-packet(%s => %s)", a.Client, a.RawDesc, a.Expect)
	case "send":
		return fmt.Sprintf("%s:send(%s)", a.Client, a.RawDesc)
	case "advance":
		return fmt.Sprintf("advance(%v)", a.D)
	case "lpub":
		return fmt.Sprintf("server.Publish(%s,q%d,r%v,%s)", a.Topic, a.QoS, a.Retain, short(a.Payload))
	case "lsub":
		return fmt.Sprintf("server.Subscribe(%s,%s,q%d)", a.Client, a.Filters[0], a.QoSs[0])
	case "lunsub":
		return fmt.Sprintf("server.Unsubscribe(%s,%s)", a.Client, a.Filters[0])
	}
	return fmt.Sprintf("%s:%s", a.Client, a.Kind)
}

// Harness couples a world with the model.
type Harness struct {
	W        *World
	M        *Model
	byName   map[string]*RawClient
	localFn  map[string]*service.OnPublishFunc
	localGot map[string][]*refcodec.Packet
	// pending QoS 2 exchanges whose hand-over was allowed early (see pubrel)
	Mism []Mismatch
	Now  int64 // virtual nanoseconds since the start
	// wills of connections replaced by a reconnect under the same client name
	oldWills []*Will
	hostile  map[string]bool
	// StrictSubClose: a SUBSCRIBE/UNSUBSCRIBE answered by closing the connection is
	// acceptable (C07 says so) — always true; kept for clarity
}

// NewHarness builds world and model.
func NewHarness(cfg Config) *Harness {
	mq := byte(2)
	if cfg.MaxQosSet {
		mq = cfg.MaxQos
	}
	m := NewModel(mq, cfg.Authenticator != "mockFailure")
	if cfg.Authenticator == SelectiveAuth {
		m.authFn = selectiveOK
	}
	return &Harness{W: NewWorld(cfg), M: m, byName: map[string]*RawClient{},
		localFn: map[string]*service.OnPublishFunc{}, localGot: map[string][]*refcodec.Packet{}}
}

func (h *Harness) client(name string) *RawClient { return h.byName[name] }

// endConn updates the model for the end of a connection and returns the will
// fan-out (nil for a clean DISCONNECT).
func (h *Harness) endConn(c *mconn, abnormal bool) map[string]Delivery {
	if !c.open {
		return nil
	}
	c.open = false
	var out map[string]Delivery
	if c.accepted {
		if c.clean {
			if h.M.sessions[c.cid] == c.sess {
				delete(h.M.sessions, c.cid)
			}
		}
		// subscriptions of the ended connection stop receiving at once; the will
		// is published after that
		if abnormal && c.will != nil {
			out = h.M.fanout("will", c.will.Topic, c.will.Payload, c.will.QoS, "")
			h.M.applyRetain(c.will.Topic, c.will.Payload, c.will.QoS, c.will.Retain)
		}
	}
	return out
}

func addDeliveries(exps map[string]*Exp, ds map[string]Delivery) {
	for name, d := range ds {
		e := exps[name]
		if e == nil {
			e = &Exp{}
			exps[name] = e
		}
		e.Deliveries = append(e.Deliveries, d)
	}
}

func exp(exps map[string]*Exp, name string) *Exp {
	e := exps[name]
	if e == nil {
		e = &Exp{}
		exps[name] = e
	}
	return e
}

// touch records client activity for the keep-alive model.
func (h *Harness) touch(name string) {
	if c := h.M.conns[name]; c != nil {
		c.lastRecv = h.Now
	}
}

// Step performs one action on the real broker and on the model, lets the
// system settle and compares everything every receiver got.
func (h *Harness) Step(a Action) []Mismatch {
	if a.Kind == "pub2" {
		// macro: a complete QoS 2 exchange
		a1 := a
		a1.Kind = "pub"
		mm := h.Step(a1)
		if len(mm) > 0 {
			return mm
		}
		return h.Step(Action{Kind: "pubrel", Client: a.Client, ID: a.ID})
	}
	// raw bytes from a peer nobody has authenticated: what the broker allocates on their
	// behalf is bounded by the largest packet MQTT 3.1.1 knows (256 MiB)
	var allocBefore uint64
	rawBytes := a.Kind == "connectraw" || a.Kind == "hostile-dial" || a.Kind == "hostile" || a.Kind == "send" || a.Kind == "raw"
	if rawBytes {
		var ms runtime.MemStats
		runtime.ReadMemStats(&ms)
		allocBefore = ms.TotalAlloc
	}
	exps := map[string]*Exp{}
	var altClose []string // clients for which "closed instead of answered" is acceptable
	var either []string   // connections whose keep-alive is in the grey zone between K and 1.5 K
	var mayExs []*q2ex    // QoS 2 exchanges that may (but need not yet) be handed on by this action
	m := h.M
	if a.Client != "" && a.Kind != "advance" {
		h.touch(a.Client)
	}
	mc := m.conns[a.Client]
	rc := h.byName[a.Client]
	switch a.Kind {
	case "connect":
		c, err := h.W.Dial(a.Client)
		if err != nil {
			return []Mismatch{{"harness", "dial failed: " + err.Error()}}
		}
		h.byName[a.Client] = c
		name := a.Client
		c.OnSend = func() { h.touch(name) }
		c.Send(ConnectPacket(a.Opts))
		if old := m.conns[a.Client]; old != nil && old.will != nil {
			h.oldWills = append(h.oldWills, old.will)
		}
		nc := &mconn{name: a.Client, cid: a.Opts.ClientID, clean: a.Opts.Clean, will: a.Opts.Will, open: true, keepAlive: a.Opts.KeepAlive, qos2in: map[uint16]*q2ex{}, lastRecv: h.Now}
		m.conns[a.Client] = nc
		e := exp(exps, a.Client)
		e.Comp = "acks"
		e.Desc = "answer to CONNECT"
		if !m.authOK(a.Opts.User, a.Opts.Pass) {
			e.Must = []*refcodec.Packet{{Type: refcodec.CONNACK, ReturnCode: 4}}
			e.MustClose = true
			nc.open = false
			nc.will = nil
			break
		}
		nc.accepted = true
		sp := false
		if a.Opts.Clean {
			nc.sess = &msession{subs: map[string]byte{}}
			m.sessions[a.Opts.ClientID] = nc.sess
		} else if s, ok := m.sessions[a.Opts.ClientID]; ok {
			nc.sess = s
			sp = true
		} else {
			nc.sess = &msession{subs: map[string]byte{}}
			m.sessions[a.Opts.ClientID] = nc.sess
		}
		e.Must = []*refcodec.Packet{{Type: refcodec.CONNACK, SessionPresent: sp}}
	case "sub":
		p := &refcodec.Packet{Type: refcodec.SUBSCRIBE, ID: a.ID, QoSs: a.QoSs}
		for _, f := range a.Filters {
			p.Topics = append(p.Topics, []byte(f))
		}
		rc.Send(p)
		e := exp(exps, a.Client)
		e.Comp = "acks"
		e.Desc = "answer to SUBSCRIBE"
		ack := &refcodec.Packet{Type: refcodec.SUBACK, ID: a.ID}
		retained := map[string]*Delivery{}
		for i, f := range a.Filters {
			q := a.QoSs[i]
			if !refmatch.ValidFilter(f) || q > 2 {
				ack.Codes = append(ack.Codes, 0x80)
				continue
			}
			g := minb(q, m.maxQos)
			ack.Codes = append(ack.Codes, g)
			mc.sess.subs[f] = g
			for t, r := range m.retained {
				if refmatch.Matches(f, t) {
					d := retained[t]
					if d == nil {
						d = &Delivery{Comp: "retained", Topic: t, Payload: r.payload, Min: 1, QoS: map[byte]bool{}, Retain: true}
						retained[t] = d
					}
					d.Max++
					d.QoS[minb(r.qos, g)] = true
				}
			}
		}
		e.Must = []*refcodec.Packet{ack}
		for _, d := range retained {
			e.Deliveries = append(e.Deliveries, *d)
		}
		altClose = append(altClose, a.Client)
	case "unsub":
		p := &refcodec.Packet{Type: refcodec.UNSUBSCRIBE, ID: a.ID}
		for _, f := range a.Filters {
			p.Topics = append(p.Topics, []byte(f))
			delete(mc.sess.subs, f)
		}
		rc.Send(p)
		e := exp(exps, a.Client)
		e.Comp = "acks"
		e.Desc = "answer to UNSUBSCRIBE"
		e.Must = []*refcodec.Packet{{Type: refcodec.UNSUBACK, ID: a.ID}}
		altClose = append(altClose, a.Client)
	case "pub":
		p := &refcodec.Packet{Type: refcodec.PUBLISH, Topic: []byte(a.Topic), Payload: []byte(a.Payload), QoS: a.QoS, Retain: a.Retain, Dup: a.Dup, ID: a.ID, PadLength: a.Pad}
		rc.Send(p)
		e := exp(exps, a.Client)
		e.Comp = "acks"
		switch a.QoS {
		case 0:
			m.applyRetain(a.Topic, a.Payload, 0, a.Retain)
			addDeliveries(exps, m.fanout("route", a.Topic, a.Payload, 0, ""))
		case 1:
			e.Desc = "answer to PUBLISH QoS 1"
			e.Must = []*refcodec.Packet{{Type: refcodec.PUBACK, ID: a.ID}}
			m.applyRetain(a.Topic, a.Payload, 1, a.Retain)
			addDeliveries(exps, m.fanout("route", a.Topic, a.Payload, 1, ""))
		case 2:
			e.Desc = "answer to PUBLISH QoS 2"
			e.Must = []*refcodec.Packet{{Type: refcodec.PUBREC, ID: a.ID}}
			// a PUBLISH is a repetition while the exchange with its identifier is open; once that
			// exchange was completed by PUBCOMP the identifier is free again, even if its message
			// still waits behind an older exchange: the PUBLISH starts a new exchange then
			if ex, dup := mc.qos2in[a.ID]; !dup || ex.released {
				nx := &q2ex{pkt: p}
				mc.qos2in[a.ID] = nx
				mc.qos2order = append(mc.qos2order, nx)
			}
		}
	case "pubrel":
		rc.Send(&refcodec.Packet{Type: refcodec.PUBREL, ID: a.ID, PadLength: a.Pad})
		e := exp(exps, a.Client)
		e.Comp = "acks"
		e.Desc = "answer to PUBREL"
		e.Must = []*refcodec.Packet{{Type: refcodec.PUBCOMP, ID: a.ID}}
		if ex, ok := mc.qos2in[a.ID]; ok && !ex.released {
			ex.released = true
			// the queue of exchanges is a FIFO: an exchange must be handed on once
			// its PUBREL and those of all exchanges opened earlier are processed; it
			// may be handed on as soon as its own PUBREL is (never before)
			for len(mc.qos2order) > 0 && mc.qos2order[0].released {
				hd := mc.qos2order[0]
				if mc.qos2in[hd.pkt.ID] == hd {
					delete(mc.qos2in, hd.pkt.ID)
				}
				mc.qos2order = mc.qos2order[1:]
				if !hd.delivered {
					m.applyRetain(string(hd.pkt.Topic), string(hd.pkt.Payload), 2, hd.pkt.Retain)
					addDeliveries(exps, m.fanout("route", string(hd.pkt.Topic), string(hd.pkt.Payload), 2, ""))
				}
			}
			if cur, still := mc.qos2in[a.ID]; still && cur == ex {
				for name, d := range m.fanout("route", string(ex.pkt.Topic), string(ex.pkt.Payload), 2, "") {
					d.Min = 0
					d.Tag = ex
					addDeliveries(exps, map[string]Delivery{name: d})
				}
				mayExs = append(mayExs, ex)
			}
		}
	case "ping":
		rc.Send(&refcodec.Packet{Type: refcodec.PINGREQ})
		e := exp(exps, a.Client)
		e.Comp = "acks"
		e.Desc = "answer to PINGREQ"
		e.Must = []*refcodec.Packet{{Type: refcodec.PINGRESP}}
	case "disconnect":
		rc.Send(&refcodec.Packet{Type: refcodec.DISCONNECT})
		exp(exps, a.Client).MustClose = true
		h.endConn(mc, false)
	case "cut":
		rc.Cut()
		addDeliveries(exps, h.endConn(mc, true))
	case "raw":
		rc.SendRaw(a.Raw)
		exp(exps, a.Client).MustClose = true
		addDeliveries(exps, h.endConn(mc, true))
	case "advance":
		vsched.Advance(a.D)
		h.Now += int64(a.D)
		var names []string
		for n := range m.conns {
			names = append(names, n)
		}
		sort.Strings(names)
		for _, n := range names {
			c := m.conns[n]
			if !c.open {
				continue
			}
			if !c.accepted {
				// CONNECT not complete: the connect timeout (2 s) applies from the dial
				if h.Now-c.dialed > int64(2*time.Second) {
					exp(exps, n).MustClose = true
					c.open = false
				}
				continue
			}
			k := int64(c.keepAlive) * int64(time.Second)
			if c.keepAlive == 0 {
				// keep-alive 0 switches the mechanism off in MQTT; this broker applies its
				// minimum of 30 s instead (no listed property speaks about K = 0, so that
				// policy is taken as it is)
				k = 30 * int64(time.Second)
			}
			gap := h.Now - c.lastRecv
			switch {
			case gap*2 > 3*k:
				exp(exps, n).MustClose = true
				addDeliveries(exps, h.endConn(c, true))
			case gap >= k:
				either = append(either, n)
			}
		}
	case "connectraw":
		c, err := h.W.Dial(a.Client)
		if err != nil {
			return []Mismatch{{"harness", "dial failed: " + err.Error()}}
		}
		h.byName[a.Client] = c
		name := a.Client
		c.OnSend = func() { h.touch(name) }
		c.SendRaw(a.Raw)
		nc := &mconn{name: a.Client, open: true, qos2in: map[uint16]*q2ex{}, lastRecv: h.Now, dialed: h.Now}
		m.conns[a.Client] = nc
		e := exp(exps, a.Client)
		e.Comp = "connect"
		e.Desc = "answer to the first packet"
		switch a.Expect {
		case "code1", "code2", "code4":
			e.Must = []*refcodec.Packet{{Type: refcodec.CONNACK, ReturnCode: a.Expect[4] - '0'}}
			e.MustClose = true
			nc.open = false
		case "close":
			e.MustClose = true
			nc.open = false
		case "code1-or-close":
			e.MustClose = true
			e.MayCodes = map[byte]bool{1: true}
			nc.open = false
		case "code2-or-close":
			// never accepted: refused with code 2 (or 4 when the authenticator refuses
			// everybody and is asked first) or closed without an answer
			e.MustClose = true
			e.MayCodes = map[byte]bool{2: true}
			if !m.auth {
				e.MayCodes[4] = true
			}
			nc.open = false
		case "accept", "accept-or-code2":
			// a CONNECT the model accepts (fields in a.Opts)
			if !m.auth {
				e.Must = []*refcodec.Packet{{Type: refcodec.CONNACK, ReturnCode: 4}}
				e.MustClose = true
				nc.open = false
				break
			}
			if a.Expect == "accept-or-code2" {
				// decided after the fact
				e.MayCodes = map[byte]bool{2: true, 0: true}
				nc.open = false
				e.MayClose = true
				break
			}
			nc.accepted = true
			nc.cid, nc.clean, nc.will, nc.keepAlive = a.Opts.ClientID, a.Opts.Clean, a.Opts.Will, a.Opts.KeepAlive
			nc.sess = &msession{subs: map[string]byte{}}
			m.sessions[nc.cid] = nc.sess
			e.Must = []*refcodec.Packet{{Type: refcodec.CONNACK}}
		case "pending":
			// incomplete CONNECT: nothing may happen until the connect timeout
		default:
			return []Mismatch{{"harness", "connectraw cannot expect " + a.Expect}}
		}
	case "halfping2":
		// the second byte of a PINGREQ whose first byte was sent earlier
		rc.SendRaw([]byte{0x00})
		e := exp(exps, a.Client)
		e.Comp = "acks"
		e.Desc = "answer to PINGREQ sent in two pieces"
		e.Must = []*refcodec.Packet{{Type: refcodec.PINGRESP}}
	case "hostile-dial":
		// the attacker's first bytes on a fresh connection; nothing is demanded of it
		c, err := h.W.Dial(a.Client)
		if err != nil {
			return []Mismatch{{"harness", "dial failed: " + err.Error()}}
		}
		h.byName[a.Client] = c
		c.AutoAck = false
		if len(a.Raw) > 0 {
			c.SendRaw(a.Raw)
		}
		m.conns[a.Client] = &mconn{name: a.Client, qos2in: map[uint16]*q2ex{}}
	case "hostile":
		// from now on the model does not care about this connection any more
		if mc != nil && mc.open {
			h.endConn(mc, false)
			if mc.sess != nil && h.M.sessions[mc.cid] == mc.sess {
				delete(h.M.sessions, mc.cid)
			}
		}
		rc.AutoAck = false
		if h.hostile == nil {
			h.hostile = map[string]bool{}
		}
		h.hostile[a.Client] = true
		rc.SendRaw(a.Raw)
	case "hostile-cut":
		rc.Cut()
	case "cutraw":
		rc.Cut()
		if mc != nil {
			mc.open = false
		}
	case "send":
		// bytes on a connection that was not accepted: no effect, no answer
		rc.SendRaw(a.Raw)
		if mc != nil && mc.open && !mc.accepted && a.Expect == "close" {
			exp(exps, a.Client).MustClose = true
			mc.open = false
		}
	case "lsub":
		fn := h.localFn[a.Client]
		if fn == nil {
			name := a.Client
			f := service.OnPublishFunc(func(msg *message.PublishMessage) error {
				h.localGot[name] = append(h.localGot[name], &refcodec.Packet{Type: refcodec.PUBLISH, Topic: append([]byte(nil), msg.Topic()...),
					Payload: append([]byte(nil), msg.Payload()...), QoS: msg.QoS(), Retain: msg.Retain(), ID: 1})
				if strings.HasPrefix(name, "E") {
					// an application callback that fails: its business, nobody else's
					return fmt.Errorf("callback of %s failed", name)
				}
				return nil
			})
			fn = &f
			h.localFn[a.Client] = fn
		}
		err := h.W.Svr.Subscribe(a.Filters[0], a.QoSs[0], fn)
		if !refmatch.ValidFilter(a.Filters[0]) {
			if err == nil {
				return []Mismatch{{"acks", "Server.Subscribe accepted an invalid filter"}}
			}
			break
		}
		if err != nil {
			return []Mismatch{{"acks", "Server.Subscribe failed: " + err.Error()}}
		}
		if m.local[a.Client] == nil {
			m.local[a.Client] = map[string]byte{}
		}
		g := minb(a.QoSs[0], m.maxQos)
		m.local[a.Client][a.Filters[0]] = g
		e := exp(exps, "local:"+a.Client)
		for t, r := range m.retained {
			if refmatch.Matches(a.Filters[0], t) {
				e.Deliveries = append(e.Deliveries, Delivery{Comp: "retained", Topic: t, Payload: r.payload, Min: 1, Max: 1, QoS: map[byte]bool{minb(r.qos, g): true}, Retain: true})
			}
		}
	case "lunsub":
		h.W.Svr.Unsubscribe(a.Filters[0], h.localFn[a.Client])
		if m.local[a.Client] != nil {
			delete(m.local[a.Client], a.Filters[0])
		}
	case "lpub":
		msg := message.NewPublishMessage()
		msg.SetTopic([]byte(a.Topic))
		msg.SetPayload([]byte(a.Payload))
		msg.SetQoS(a.QoS)
		msg.SetRetain(a.Retain)
		if err := h.W.Svr.Publish(msg); err != nil {
			return []Mismatch{{"route", "Server.Publish failed: " + err.Error()}}
		}
		m.applyRetain(a.Topic, a.Payload, a.QoS, a.Retain)
		addDeliveries(exps, m.fanout("route", a.Topic, a.Payload, a.QoS, ""))
	default:
		return []Mismatch{{"harness", "unknown action " + a.Kind}}
	}
	h.W.Settle()
	if rawBytes {
		var ms runtime.MemStats
		runtime.ReadMemStats(&ms)
		if d := ms.TotalAlloc - allocBefore; d > 320<<20 {
			return []Mismatch{{"alloc", fmt.Sprintf("%d bytes from %s made the broker allocate %d MiB (the largest MQTT 3.1.1 packet has 256 MiB; a process with less memory to spare dies with an unrecoverable out-of-memory error)", len(a.Raw), a.Client, d>>20)}}
		}
	}
	// a request may be answered by closing the connection instead (C07)
	for _, name := range altClose {
		c := h.byName[name]
		if c.EOF && !hasType(c.Packets[c.seen:], exps[name].Must[0].Type) {
			e := exps[name]
			e.Must = nil
			e.Deliveries = nil
			e.MustClose = true
			addDeliveries(exps, h.endConn(m.conns[name], true))
			// the will fan-out happened before we looked: nothing more to wait for
		}
	}
	for _, name := range either {
		c := h.byName[name]
		if c.EOF || c.ReadErr != "" {
			exp(exps, name).MustClose = true
			addDeliveries(exps, h.endConn(m.conns[name], true))
		}
	}
	mm := h.compare(exps)
	for _, ex := range mayExs {
		for _, e := range exps {
			for _, d := range e.Deliveries {
				if d.Tag == ex && d.Got > 0 && !ex.delivered {
					ex.delivered = true
					m.applyRetain(string(ex.pkt.Topic), string(ex.pkt.Payload), 2, ex.pkt.Retain)
				}
			}
		}
	}
	return mm
}

func hasType(ps []*refcodec.Packet, t byte) bool {
	for _, p := range ps {
		if p.Type == t {
			return true
		}
	}
	return false
}

func (h *Harness) compare(exps map[string]*Exp) []Mismatch {
	var mm []Mismatch
	var names []string
	for n := range h.byName {
		names = append(names, n)
	}
	sort.Strings(names)
	for _, n := range names {
		c := h.byName[n]
		got := c.Take()
		e := exps[n]
		if mcx := h.M.conns[n]; mcx != nil && !mcx.open && !mcx.accepted && mcx.cid == "" && e == nil {
			continue // an attacker's connection: nothing is demanded
		}
		if mcx := h.M.conns[n]; mcx != nil && !mcx.open && e == nil && h.hostile[n] {
			continue
		}
		mm = append(mm, CompareC(n, got, e, h.classify)...)
		if c.Bad == "" && !c.Dead && len(c.rx) > 0 && c.vc != nil && c.vc.Pending() == 0 {
			// quiescence, everything read: the stream must end at a packet boundary
			c.Bad = fmt.Sprintf("the stream to %s ends with %d bytes that are no complete packet (%x...)", c.Name, len(c.rx), head(c.rx, 16))
			c.rx = nil
		}
		if c.Bad != "" {
			mm = append(mm, Mismatch{"stream", c.Bad})
			c.Bad = ""
		}
		mc := h.M.conns[n]
		closed := c.EOF || c.ReadErr != ""
		switch {
		case e != nil && e.MayClose:
		case e != nil && e.MustClose && !closed && !c.Dead:
			mm = append(mm, Mismatch{"closed", fmt.Sprintf("connection %s is still open, it had to be closed", n)})
		case mc != nil && mc.open && closed:
			mm = append(mm, Mismatch{"closed", fmt.Sprintf("connection %s was closed by the broker although it did nothing wrong", n)})
			// keep the model in step with reality
			h.endConn(mc, true)
		}
	}
	var ln []string
	for n := range h.localFn {
		ln = append(ln, n)
	}
	sort.Strings(ln)
	for _, n := range ln {
		got := h.localGot[n]
		h.localGot[n] = nil
		mm = append(mm, Compare("local:"+n, got, exps["local:"+n])...)
	}
	return mm
}

// classify attributes an unexpected PUBLISH: a will of some connection?
func (h *Harness) classify(p *refcodec.Packet) string {
	for _, c := range h.M.conns {
		if c.will != nil && c.will.Topic == string(p.Topic) && c.will.Payload == string(p.Payload) {
			return "will"
		}
	}
	for _, w := range h.oldWills {
		if w.Topic == string(p.Topic) && w.Payload == string(p.Payload) {
			return "will"
		}
	}
	return ""
}

// localPublish builds a message for Server.Publish.
func localPublish(topic string, q byte, retain bool, payload string) *message.PublishMessage {
	msg := message.NewPublishMessage()
	msg.SetTopic([]byte(topic))
	msg.SetPayload([]byte(payload))
	msg.SetQoS(q)
	msg.SetRetain(retain)
	return msg
}

// Idle checks that nothing arrives without an action.
func (h *Harness) Idle() []Mismatch {
	h.W.Settle()
	return h.compare(map[string]*Exp{})
}
