package broker

import (
	"fmt"
	"strings"

	"github.com/mdzio/go-mqtt/verifrt/vsched"
	"verif/engine/explore"
	"verif/harness/codec"
	"verif/harness/core"
	"verif/models/refcodec"
)

// c16hostile: "protocol error" as an end cause, enumerated (default schedule).
// A connection with a clean session and a subscription sends one of the
// hostile byte streams and is then cut; afterwards its goroutines are gone,
// its session is out of the store and its subscription out of the tree, and a
// publish on its filter reaches nobody but the witness.
func c16hostile(c *core.Ctx) {
	if c.Replay != nil && !strings.HasPrefix(c.Replay.Scenario, "hostile-teardown:") {
		return
	}
	streams := codec.HostileStreams(c.Thorough())
	n := 0
	for si, st := range streams {
		n++
		if !c.Thorough() && si%2 != 0 {
			continue
		}
		name := fmt.Sprintf("hostile-teardown: stream %x, then cut", head(st, 32))
		if c.Replay != nil {
			if c.Replay.Scenario != name {
				continue
			}
		} else if c.NShards > 1 && n%c.NShards != c.Shard {
			continue
		}
		if c.Expired() || c.HasViolation() {
			return
		}
		st := st
		body := func() {
			t := newTD()
			w := t.connect("W", 0, 65535, false)
			t.subscribe("W", "t", 0)
			x := t.connect("X", 0, 65535, true)
			t.subscribe("X", "t", 1)
			if vsched.Failed() {
				return
			}
			x.rc.SendRaw(st)
			t.settleExcept()
			x.rc.Cut()
			x.ended = true
			t.settleExcept()
			t.checkEnded(nil)
			if vsched.Failed() {
				return
			}
			// the witness holds "t" at QoS 0, the ended connection held it at QoS 1: the
			// node must list exactly one subscriber, with QoS 0
			if !strings.Contains(strings.SplitN(t.w.ImplKey(), "#", 2)[1], "t(0)") {
				vsched.Failf("the subscription of the ended connection is still in the topic tree: %s", t.w.ImplKey())
				return
			}
			w.rc.Take()
			w.rc.Send(&refcodec.Packet{Type: refcodec.PUBLISH, Topic: []byte("t"), Payload: []byte("after")})
			t.settleExcept()
			if got := publishesOn(w.rc.Take(), "t"); len(got) != 1 {
				vsched.Failf("after the teardown the witness received its own publish %d times", len(got))
			}
		}
		res := explore.RunDefault(body)
		if c.Replay != nil {
			fmt.Println("replay:", name)
			fmt.Println("  failures:", res.Failures, firstLine(res.Crash))
			c.Rep.Scenarios++
			return
		}
		c.Rep.Executions++
		c.Rep.States++
		c.Rep.Transitions += int64(len(res.Points))
		v := ""
		switch {
		case res.Status == vsched.StCrash:
			v = "a library goroutine panicked: " + firstLine(res.Crash)
		case res.Status == vsched.StHorizon:
			v = "no quiescence: the broker keeps running without input"
		case len(res.Failures) > 0:
			v = res.Failures[0]
		}
		if v != "" {
			if c.Violate("C16 hostile-teardown :: "+violClass(v), core.Replay{Scenario: name, Message: v, Log: res.Log, Crash: res.Crash}) {
				return
			}
		}
	}
	c.Rep.Scenarios++
	c.Rep.Sample(map[string]interface{}{"search": "hostile teardown", "streams": len(streams)})
}
