package broker

import (
	"fmt"
	"strings"

	"github.com/mdzio/go-mqtt/verifrt/vsched"
	"verif/engine/explore"
	"verif/harness/codec"
	"verif/harness/core"
	"verif/models/refcodec"
)

// c09hostile: "protocol error" as an end cause, enumerated.  A client with a
// will sends one of the hostile byte streams (every packet of the corpus, its
// truncations and single-byte corruptions) and is then cut.  Whatever the
// stream:
//   - the will is never published more than once;
//   - if no DISCONNECT packet can have been processed (no byte 0xE? starts a
//     packet anywhere in the stream), it is published exactly once, at the
//     latest after the cut;
//   - if the stream is a sequence of ordinary, well-formed client packets up to
//     and including a well-formed DISCONNECT, it is not published at all.
func c09hostile(c *core.Ctx) {
	if c.Replay != nil && !strings.HasPrefix(c.Replay.Scenario, "hostile-end:") {
		return
	}
	streams := codec.HostileStreams(c.Thorough())
	// plus: the beginning of a large PUBLISH (remaining lengths below, at and above what the
	// 16 KiB incoming ring can ever hold complete: ring size minus one 8 KiB read block), cut
	// after 100 bytes, after 8200 bytes and ten bytes before its end.  The connection ends in
	// the middle of a packet: an abnormal end, the will is due.  (Length bytes and payload
	// contain no 0xE? byte, so no DISCONNECT can be seen anywhere.)
	for _, r := range []int{8100, 8400, 12100, 16000, 16500, 40000} {
		full := refcodec.Encode(&refcodec.Packet{Type: refcodec.PUBLISH, Topic: []byte("q"), Payload: []byte(big(r-3, 9))})
		for _, k := range []int{100, 8200, len(full) - 10} {
			if k < len(full) {
				streams = append(streams, full[:k])
			}
		}
	}
	// plus: each stream behind a complete QoS 0 PUBLISH (the processor is busy when it arrives)
	pre := refcodec.Encode(&refcodec.Packet{Type: refcodec.PUBLISH, Topic: []byte("q"), Payload: []byte("d")})
	n := 0
	for si, st := range streams {
		for _, lead := range []bool{false, true} {
			n++
			if lead && si%3 != 0 && !c.Thorough() {
				continue
			}
			name := fmt.Sprintf("hostile-end: stream %x (behind a PUBLISH: %v), then cut", head(st, 32), lead)
			if c.Replay != nil {
				if c.Replay.Scenario != name {
					continue
				}
			} else if c.NShards > 1 && n%c.NShards != c.Shard {
				continue
			}
			if c.Expired() || c.HasViolation() {
				return
			}
			stream := st
			if lead {
				stream = append(append([]byte{}, pre...), st...)
			}
			// classify
			want := -1 // -1: zero or one
			pkts, rest, err := refcodec.Split(st)
			sawDisc, ordinary, anyE := false, true, false
			for _, p := range pkts {
				if p.Type == refcodec.DISCONNECT {
					sawDisc = true
					break
				}
				switch p.Type {
				case refcodec.PUBLISH, refcodec.PINGREQ, refcodec.SUBSCRIBE, refcodec.UNSUBSCRIBE, refcodec.PUBACK, refcodec.PUBREC, refcodec.PUBREL, refcodec.PUBCOMP:
					if !refcodec.WellFormed(p) {
						ordinary = false
					}
				default:
					ordinary = false
				}
			}
			for _, b := range st {
				if b>>4 == 14 {
					anyE = true // could be a DISCONNECT header at some packet boundary the broker sees
				}
			}
			_ = rest
			switch {
			case sawDisc && ordinary && err == nil:
				want = 0
			case !anyE:
				want = 1
			}
			body := func() {
				t := newTD()
				w := t.connect("W", 0, 65535, false)
				t.subscribe("W", "will/#", 1)
				x, e := t.w.Dial("X")
				if e != nil {
					vsched.Failf("harness: dial: %v", e)
					return
				}
				x.Send(ConnectPacket(ConnectOpts{ClientID: "x", Clean: true, KeepAlive: 65535, Will: &Will{"will/x", "x is gone", 1, false}}))
				t.w.Settle()
				x.Take()
				x.SendRaw(stream)
				t.w.Settle()
				closedByBroker := x.EOF
				x.Cut()
				t.w.Settle()
				got := len(publishesOn(w.rc.Take(), "will/x"))
				vsched.Logf("closed by the broker before the cut: %v, wills: %d", closedByBroker, got)
				if got > 1 {
					vsched.Failf("the will was published %d times", got)
					return
				}
				if want >= 0 && got != want {
					vsched.Failf("the will was published %d times, expected %d (stream parses as %s, then %d undecodable bytes)", got, want, Describe(pkts), len(rest))
					return
				}
			}
			res := explore.RunDefault(body)
			if c.Replay != nil {
				fmt.Println("replay:", name)
				for _, l := range res.Log {
					fmt.Println("  ", l)
				}
				fmt.Println("  failures:", res.Failures, firstLine(res.Crash))
				c.Rep.Scenarios++
				return
			}
			c.Rep.Executions++
			c.Rep.Evaluations++
			c.Rep.States++
			if want == 1 {
				c.Rep.Nontrivial++
			}
			c.Rep.Transitions += int64(len(res.Points))
			v := ""
			switch {
			case res.Status == vsched.StCrash:
				v = "a library goroutine panicked: " + firstLine(res.Crash)
			case res.Status == vsched.StHorizon:
				v = "no quiescence: the broker keeps running without input"
			case len(res.Failures) > 0:
				v = res.Failures[0]
			}
			if v != "" {
				if c.Violate("C09 hostile-end :: "+violClass(v), core.Replay{Scenario: name, Message: v, Log: res.Log, Crash: res.Crash}) {
					return
				}
			}
		}
	}
	c.Rep.Scenarios++
	c.Rep.Sample(map[string]interface{}{"search": "hostile end causes", "streams": len(streams), "example": fmt.Sprintf("%x", streams[len(streams)/2])})
}
