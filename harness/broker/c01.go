package broker

import (
	"strings"

	"verif/harness/core"
)

func big(n int, salt byte) string {
	b := make([]byte, n)
	for i := range b {
		b[i] = 'A' + byte((i*7+int(salt)*5+i/251)%26)
	}
	return string(b)
}

func conn(client, cid string, clean bool) Action {
	return Action{Kind: "connect", Client: client, Opts: ConnectOpts{ClientID: cid, Clean: clean, KeepAlive: 60}}
}
func sub(client string, id uint16, f string, q byte) Action {
	return Action{Kind: "sub", Client: client, ID: id, Filters: []string{f}, QoSs: []byte{q}}
}
func unsub(client string, id uint16, f string) Action {
	return Action{Kind: "unsub", Client: client, ID: id, Filters: []string{f}}
}
func pub(client, topic string, q byte, id uint16, payload string) Action {
	return Action{Kind: "pub", Client: client, Topic: topic, QoS: q, ID: id, Payload: payload}
}

// flood: QoS 0 traffic of one client on a topic nobody needs, more than its
// 16 KiB incoming ring holds: whatever the broker kept of that client's earlier
// packets (filters, will, retained payloads, client id) by reference into the
// ring instead of as a copy is overwritten by it.
func flood(client string) []Action {
	return []Action{pub(client, "zz", 0, 0, big(8100, 1)), pub(client, "zz", 0, 0, big(8100, 2)), pub(client, "zz", 0, 0, big(8100, 3))}
}

func pubr(client, topic string, q byte, id uint16, payload string) Action {
	a := pub(client, topic, q, id, payload)
	a.Retain = true
	return a
}

// C01: routing.
func C01(c *core.Ctx) {
	c.Rep.Bound = "HIST: breadth-first over connect/subscribe/unsubscribe/publish/disconnect/cut histories of 2 raw clients + in-process subscriber/publisher, de-duplicated on the model state, depth 4 (quick) / 6 (thorough); default schedule with exact quiescence after every action; SCHED: concurrent Server.Publish calls, two publishers || subscribe, publish || unsubscribe, every schedule deviating from the default at <= 1 (quick) / 2 (thorough) points"
	c.Rep.Rule = "each history is replayed on a fresh real broker (real accept loop, three goroutines per connection) over the in-memory network; after every action everything every client received is compared with the sequential broker model (must/may per receiver); distinct = canonical model states"
	p8k := big(8000, 1)
	ops := []Action{
		conn("A", "a", true), conn("B", "b", true),
		sub("A", 11, "a/+", 1), sub("A", 12, "#", 0), sub("A", 13, "a/b", 2), unsub("A", 14, "a/+"), unsub("A", 15, "#"),
		sub("B", 21, "a/b", 1), sub("B", 22, "a", 2),
		pub("B", "a/b", 0, 0, "p0"), pub("B", "a/b", 1, 31, "p1"), {Kind: "pub2", Client: "B", Topic: "a", QoS: 2, ID: 32, Payload: p8k},
		pub("B", "b", 1, 33, ""), pub("A", "a/b", 2, 0, "x"),
		{Kind: "disconnect", Client: "A"}, {Kind: "cut", Client: "A"},
		{Kind: "lsub", Client: "L", Filters: []string{"a/#"}, QoSs: []byte{1}}, {Kind: "lpub", Topic: "a/b", QoS: 2, Payload: "lp"},
	}
	// "A:pub q2" above is a macro too
	ops[13] = Action{Kind: "pub2", Client: "A", Topic: "a/b", QoS: 2, ID: 16, Payload: "x"}
	depth := 6
	if c.Thorough() {
		depth = 8
	}
	comps := map[string]bool{"route": true, "stream": true}
	spec := &HistSpec{Name: "routing", Cfg: Config{}, Ops: ops, Depth: depth, Dedup: true, Comps: comps, ExtraKey: wrapKey}
	spec.Search(c)
	if c.HasViolation() || c.Expired() {
		return
	}
	// every sequence (no de-duplication) of publishes and subscription changes on a populated broker
	seqOps := []Action{
		pub("B", "a/b", 0, 0, "p0"), pub("B", "a/b", 1, 31, "p1"), {Kind: "pub2", Client: "B", Topic: "a/b", QoS: 2, ID: 32, Payload: "p2"},
		pub("B", "a", 1, 33, p8k), pub("A", "a/b", 1, 17, ""), {Kind: "pub2", Client: "B", Topic: "b/c", QoS: 2, ID: 34, Payload: "nobody"},
		unsub("A", 14, "a/+"), sub("A", 11, "a/+", 2), unsub("B", 23, "a/b"), {Kind: "cut", Client: "A"},
		{Kind: "lpub", Topic: "a/b", QoS: 1, Payload: "lp"}, {Kind: "lunsub", Client: "L", Filters: []string{"a/#"}},
		// retained publishes are forwarded like any other, the empty one that clears the topic included
		pubr("B", "a/b", 0, 0, "r1"), pubr("B", "a/b", 1, 35, ""),
		// '$' is an ordinary character below the first level
		pub("B", "a/$x", 1, 36, "dollar-level"),
		// a PUBLISH the broker sees for the first time although its DUP flag is set (the
		// original was lost on the way): forwarded like any other, also to QoS 0 subscriptions
		{Kind: "pub", Client: "B", Topic: "a/b", QoS: 1, ID: 37, Payload: "dup-first-seen", Dup: true},
		// one UNSUBSCRIBE with several filters, held ones last
		{Kind: "unsub", Client: "A", ID: 19, Filters: []string{"q/1", "q/2", "q/3", "a/+", "#"}},
		// SUBSCRIBEs the broker refuses (0x80) whose filters share their first levels with filters
		// that are held, by the same and by another client: nobody's subscription is disturbed
		sub("B", 25, "a/#/x", 1), sub("A", 18, "a/+bad", 1),
		{Kind: "sub", Client: "B", ID: 26, Filters: []string{"a/b/c#", "a/c"}, QoSs: []byte{1, 1}},
	}
	sd := 3
	if c.Thorough() {
		sd = 4
	}
	seq := &HistSpec{Name: "sequences", Cfg: Config{}, Ops: seqOps, Depth: sd, Dedup: false, Comps: comps,
		Prefix: []Action{
			// an in-process subscriber whose callback returns an error, first in every list it is in
			{Kind: "lsub", Client: "E1", Filters: []string{"a/#"}, QoSs: []byte{1}}, {Kind: "lsub", Client: "E2", Filters: []string{"#"}, QoSs: []byte{0}},
			conn("A", "a", true), conn("B", "b", true), sub("A", 11, "a/+", 1), sub("A", 12, "#", 0), sub("B", 21, "a/b", 2),
			// the in-process subscriber shares its filter with a network client and with a second in-process subscriber
			sub("B", 24, "a/#", 0),
			{Kind: "lsub", Client: "L", Filters: []string{"a/#"}, QoSs: []byte{1}}, {Kind: "lsub", Client: "L2", Filters: []string{"a/#"}, QoSs: []byte{2}}}}
	seq.Search(c)
	if c.HasViolation() || c.Expired() {
		return
	}
	// packet sizes at the limit (ring size minus one 8 KiB read block), both ring configurations
	for _, ring := range []int64{16384, 262144} {
		limit := int(ring) - 8192
		var sizeOps []Action
		for _, total := range []int{limit - 1, limit} {
			// total packet size = 1 + len(varlen) + 2 + len(topic) + payload (QoS 0)
			over := 1 + 3 + 2 + 1
			if total-over < 16384 {
				over = 1 + 2 + 2 + 1
			}
			sizeOps = append(sizeOps, pub("B", "a", 0, 0, big(total-over, 3)))
		}
		s2 := &HistSpec{Name: "size-limit-" + strings.TrimSpace(itoa(int(ring))), Cfg: Config{BufferSize: ring},
			Prefix: []Action{conn("A", "a", true), conn("B", "b", true), sub("A", 1, "a", 0)},
			Ops:    sizeOps, Depth: 2, Dedup: false, Comps: map[string]bool{"route": true, "stream": true}}
		s2.Search(c)
		if c.HasViolation() {
			return
		}
	}
	c01framing(c)
	if c.HasViolation() || c.Expired() {
		return
	}
	c01pressure(c)
	if c.HasViolation() || c.Expired() {
		return
	}
	c01sched(c)
}

// c01framing: a publish for every remaining length 5..300 (and around 16383 would
// be above the packet limit of 16 KiB rings): the length field has boundaries of
// its own (127/128, multiples of 128) that the framing code of the connection
// has to get right before the codec sees the packet.
func c01framing(c *core.Ctx) { framingSweep(c, "C01") }

// framingSweep: publishes with every remaining length 5..300, from the network (forwarded
// byte for byte), through Server.Publish (encoded from the fields) and downgraded on the
// way to a QoS 0 subscription (re-encoded).
func framingSweep(c *core.Ctx, prop string) {
	var hist []Action
	hist = append(hist, conn("A", "a", true), conn("B", "b", true), sub("A", 1, "a/b", 1), conn("Z", "z", true), sub("Z", 2, "a/b", 0))
	n := 0
	flush := func() bool {
		if len(hist) <= 5 {
			return true
		}
		spec := &HistSpec{Name: "framing", Comps: map[string]bool{"route": true, "stream": true, "closed": true, "acks": true}}
		r := spec.RunHistory(hist, false)
		c.Rep.Evaluations++
		c.Rep.Executions++
		c.Rep.States++
		c.Rep.Transitions += int64(r.Steps)
		if r.Violation != "" {
			if c.Violate(prop+" framing :: "+violClass(r.Violation), core.Replay{Scenario: "framing: publishes with remaining lengths " + hist[5].String() + " ...", Message: r.Violation}) {
				return false
			}
		}
		hist = hist[:5]
		return true
	}
	for L := 5; L <= 300; L++ {
		n++
		if c.NShards > 1 && (L/8)%c.NShards != c.Shard {
			continue
		}
		// QoS 0: remaining length = 2 + len("a/b") + payload; QoS 1: two more for the identifier
		hist = append(hist, pub("B", "a/b", 0, 0, big(L-5, byte(L))))
		if L >= 7 {
			hist = append(hist, pub("B", "a/b", 1, uint16(1000+L), big(L-7, byte(L+1))))
			hist = append(hist, Action{Kind: "lpub", Topic: "a/b", QoS: 1, Payload: big(L-7, byte(L+2))})
		}
		hist = append(hist, Action{Kind: "lpub", Topic: "a/b", QoS: 0, Payload: big(L-5, byte(L+3))})
		if L%8 == 7 {
			if !flush() {
				return
			}
		}
	}
	flush()
	c.Rep.Scenarios++
	c.Rep.Sample(map[string]interface{}{"search": "framing", "remaining_lengths": "5..300"})
}

// wrapKey adds how often each connection's traffic has wrapped a 16 KiB ring
// (capped), so that histories that differ only in buffer positions are kept.
func wrapKey(h *Harness) string {
	var ks []string
	for _, c := range h.W.Clients {
		if c.Dead || c.EOF {
			continue
		}
		s, r := c.vc.Totals()
		a, b := s/16384, r/16384
		if a > 2 {
			a = 2
		}
		if b > 2 {
			b = 2
		}
		ks = append(ks, c.Name+":"+itoa(int(a))+"/"+itoa(int(b)))
	}
	return strings.Join(ks, ",")
}

func itoa(n int) string {
	s := ""
	for n > 0 {
		s = string(rune('0'+n%10)) + s
		n /= 10
	}
	if s == "" {
		return "0"
	}
	return s
}

func init() { core.Register("C01", C01) }
