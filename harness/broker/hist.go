package broker

import (
	"encoding/json"
	"fmt"
	"strings"

	"github.com/mdzio/go-mqtt/verifrt/vsched"
	"verif/engine/explore"
	"verif/harness/core"
)

// HistSpec describes a breadth-first search over broker histories.
type HistSpec struct {
	Name   string
	Cfg    Config
	Prefix []Action // executed first in every history (not part of the alphabet)
	Ops    []Action
	Depth  int
	Dedup  bool
	// Comps: mismatches of these components are violations of the property being
	// checked; mismatches of other components end the history (the model no
	// longer describes the broker) and are reported as notes.
	Comps map[string]bool
	// Pre decides whether an action makes sense after a history (default rules
	// when nil: see precond).
	Pre func(hist []Action, a Action) bool
	// After runs extra checks at the end of each history.
	After func(h *Harness) []Mismatch
	// ExtraKey adds implementation-side facts to the canonical state.
	ExtraKey func(h *Harness) string
	// CrashIsViolation: an uncaught panic in a library thread violates this property.
	CrashIsViolation bool
	// KeyOf maps a violation message to the fingerprint of a listed finding ("" = none).
	KeyOf func(violation string) string
}

// tracker follows which clients are connected, for preconditions.
type tracker struct {
	conn map[string]string // client -> cid
}

func track(hist []Action) *tracker {
	t := &tracker{conn: map[string]string{}}
	for _, a := range hist {
		switch a.Kind {
		case "connect":
			t.conn[a.Client] = a.Opts.ClientID
		case "disconnect", "cut", "raw":
			delete(t.conn, a.Client)
		}
	}
	return t
}

func precond(hist []Action, a Action) bool {
	t := track(hist)
	switch a.Kind {
	case "connect":
		if _, on := t.conn[a.Client]; on {
			return false
		}
		for _, cid := range t.conn {
			if cid == a.Opts.ClientID {
				return false // two live connections with one client id: outside the statements
			}
		}
		return true
	case "advance", "lpub", "lsub", "lunsub":
		return true
	}
	_, on := t.conn[a.Client]
	return on
}

// HistResult of one history run.
type HistResult struct {
	Violation string
	Comp      string
	Key       string
	Steps     int
	Note      string
	Crash     string
	Trace     []string
}

// RunHistory executes one history on a fresh broker under the default schedule.
func (s *HistSpec) RunHistory(hist []Action, trace bool) HistResult {
	var out HistResult
	body := func() {
		h := NewHarness(s.Cfg)
		all := append(append([]Action{}, s.Prefix...), hist...)
		for i, a := range all {
			switch a.Kind {
			case "connect", "connectraw", "advance", "lpub", "lsub", "lunsub", "hostile", "hostile-dial", "hostile-cut":
			default:
				// the model may have closed this connection on its own (keep-alive,
				// request answered by closing): the rest of the history is moot
				if mc := h.M.conns[a.Client]; mc == nil || !mc.open {
					out.Key = "DEAD-END"
					return
				}
			}
			mm := h.Step(a)
			out.Steps++
			if trace {
				vsched.Logf("step %d %s -> %d mismatches; model %s", i+1, a, len(mm), h.M.Key())
			}
			for _, m := range mm {
				if trace {
					vsched.Logf("   [%s] %s", m.Comp, m.Msg)
				}
				if s.Comps[m.Comp] || m.Comp == "harness" || m.Comp == "alloc" {
					if out.Violation == "" {
						out.Violation = fmt.Sprintf("after %s: %s", a, m.Msg)
						out.Comp = m.Comp
					}
				} else if out.Note == "" {
					out.Note = fmt.Sprintf("[%s] after %s: %s", m.Comp, a, m.Msg)
				}
			}
			if out.Violation != "" || out.Note != "" {
				return
			}
		}
		if s.After != nil {
			for _, m := range s.After(h) {
				if out.Violation == "" {
					out.Violation = "at the end of the history: " + m.Msg
					out.Comp = m.Comp
				}
			}
		}
		out.Key = h.M.Key() + "|" + h.W.ImplKey()
		if s.ExtraKey != nil {
			out.Key += "|" + s.ExtraKey(h)
		}
	}
	var res *vsched.Result
	if trace {
		res = explore.Replay(body, nil)
	} else {
		res = explore.RunDefault(body)
	}
	out.Trace = res.Log
	switch res.Status {
	case vsched.StCrash:
		out.Crash = res.Crash
		msg := "a library goroutine panicked (the broker process would exit): " + firstLine(res.Crash)
		if s.CrashIsViolation {
			out.Violation = msg
			out.Comp = "crash"
		} else {
			out.Note = "[crash] " + msg
		}
	case vsched.StHorizon:
		// a history needs a few thousand scheduling points; see explore.Sched
		out.Violation = fmt.Sprintf("no quiescence: the broker is still running after %d scheduling points without further input (a goroutine spins, or goroutines keep waking each other)", len(res.Points))
		out.Comp = "harness"
	}
	if len(res.Failures) > 0 && out.Violation == "" {
		out.Violation = res.Failures[0]
		out.Comp = "harness"
	}
	return out
}

func firstLine(s string) string {
	if i := strings.IndexByte(s, '\n'); i >= 0 {
		return s[:i]
	}
	return s
}

// Search runs the BFS and folds results into the report.  keyPrefix is the
// property id used in fingerprints.
func (s *HistSpec) Search(c *core.Ctx) {
	pre := s.Pre
	if pre == nil {
		pre = precond
	}
	acts := func(h []int) []Action {
		out := make([]Action, len(h))
		for i, x := range h {
			out[i] = s.Ops[x]
		}
		return out
	}
	if c.Replay != nil {
		if !strings.HasPrefix(c.Replay.Scenario, s.Name+":") {
			return
		}
		var hist []int
		json.Unmarshal(c.Replay.Input, &hist)
		r := s.RunHistory(acts(hist), true)
		for _, l := range r.Trace {
			fmt.Println(l)
		}
		if r.Crash != "" {
			fmt.Println("CRASH:", r.Crash)
		}
		fmt.Printf("replay: violation=%q note=%q\n", r.Violation, r.Note)
		c.Rep.Scenarios++
		return
	}
	notes := map[string]int{}
	o := explore.HistOpts{Name: s.Name, NOps: len(s.Ops), OpName: func(i int) string { return s.Ops[i].String() },
		MaxDepth: s.Depth, Dedup: s.Dedup, Shard: c.Shard, NShards: c.NShards, Deadline: c.Deadline,
		Enabled: func(h []int, op int) bool { return pre(append(append([]Action{}, s.Prefix...), acts(h)...), s.Ops[op]) },
		Run: func(h []int) (string, string, int) {
			r := s.RunHistory(acts(h), false)
			if r.Note != "" {
				notes[noteClass(r.Note)]++
				return r.Violation, "DIVERGED:" + noteClass(r.Note), r.Steps
			}
			return r.Violation, r.Key, r.Steps
		}}
	for {
		st := explore.Hist(o)
		r := c.Rep
		r.Scenarios++
		r.States += int64(st.States)
		r.Transitions += int64(st.Transitions)
		r.Executions += int64(st.Histories)
		r.Evaluations += int64(st.Histories)
		r.Nontrivial += int64(st.States)
		if !st.Exhaustive {
			r.Exhaustive = false
			r.AddCap(st.CapHit)
		}
		if st.Fixpoint {
			r.Notes = append(r.Notes, fmt.Sprintf("%s: fixpoint at depth %d", s.Name, st.DepthDone))
		} else if st.Exhaustive {
			r.Notes = append(r.Notes, fmt.Sprintf("%s: complete to depth %d", s.Name, st.DepthDone))
		}
		r.Sample(map[string]interface{}{"search": s.Name, "alphabet": len(s.Ops), "depth": st.DepthDone, "states": st.States, "histories": st.Histories,
			"example_ops": opNames(s.Ops, 6)})
		for k, v := range notes {
			r.Notes = append(r.Notes, fmt.Sprintf("%s: %d histories ended by an out-of-scope mismatch: %s", s.Name, v, k))
		}
		if st.Violation == "" {
			return
		}
		hs := explore.HistString(o, st.Hist)
		in, _ := json.Marshal(st.Hist)
		// re-run for the trace
		rr := s.RunHistory(acts(st.Hist), true)
		key := fmt.Sprintf("%s %s :: %s", c.Prop, s.Name, violClass(st.Violation))
		if s.KeyOf != nil {
			if k := s.KeyOf(st.Violation); k != "" {
				key = k
			}
		}
		stop := c.Violate(key, core.Replay{Scenario: s.Name + ": " + hs, Message: st.Violation, Input: in, Log: tailS(rr.Trace, 60), Crash: rr.Crash})
		if stop {
			return
		}
		// a known finding: searching on would hit it again at once; the search
		// for this spec ends here and says so
		r.Notes = append(r.Notes, fmt.Sprintf("%s: search stopped at a listed finding after %d histories", s.Name, st.Histories))
		r.Exhaustive = false
		r.AddCap("stopped at listed finding")
		return
	}
}

func tailS(s []string, n int) []string {
	if len(s) > n {
		return s[len(s)-n:]
	}
	return s
}

func opNames(ops []Action, n int) []string {
	var out []string
	for i, o := range ops {
		if i >= n {
			break
		}
		out = append(out, o.String())
	}
	return out
}

// violClass turns a violation message into a stable fingerprint: the text
// after the action, without quoted strings, digits and packet dumps.
func violClass(s string) string {
	if i := strings.Index(s, ": "); i >= 0 && strings.HasPrefix(s, "after ") {
		s = s[i+2:]
	}
	if i := strings.Index(s, "; it received"); i >= 0 {
		s = s[:i]
	}
	var b strings.Builder
	inq := false
	for _, r := range s {
		switch {
		case r == '"':
			inq = !inq
		case inq:
		case r >= '0' && r <= '9':
		default:
			b.WriteRune(r)
		}
	}
	out := b.String()
	if len(out) > 160 {
		out = out[:160]
	}
	return out
}

func noteClass(s string) string {
	if i := strings.Index(s, "] "); i >= 0 {
		return s[:i+1] + " " + violClass(s[i+2:])
	}
	return violClass(s)
}
