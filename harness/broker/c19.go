package broker

import (
	"fmt"
	"time"

	"verif/harness/core"
)

// C19: keep-alive in virtual time.
func C19(c *core.Ctx) {
	c.Rep.Bound = "SCHED: two overlapping handshakes with one client id and keep-alives 1 s / 60 s, every schedule deviating from the default at <= 2 (quick) / 3 (thorough) points; back-pressure: 24 timed scenarios in which the client keeps sending while the broker cannot take its packets (a subscriber that does not read); HIST over timed histories in virtual time: keep-alive K in {1,2,10} s; actions advance(0.4K / 0.9K / 1.3K / 1.6K), PINGREQ, PUBLISH, first byte of a packet then its second byte; will configured, witness subscribed to '#'; every sequence (no de-duplication) to depth 5 (quick) / 6 (thorough); a second alphabet with PUBLISH packets of exactly 8192 and 8191 bytes (the receiver's read block) and a packet that is never completed (fixed header and part of the body); a third alphabet with advances of 0.05K / 0.25K / 0.97K; silence in the middle of a large PUBLISH (5 announced sizes around the packet limit of the ring x 3 cut points)"
	c.Rep.Rule = "the connection must be open and every PINGREQ answered while all gaps between client transmissions are < K; it must be closed and its will published once a gap exceeds 1.5 K; in between either; no wall-clock time is involved: the clock moves only by the advance actions; non-trivial = histories in which the connection is dropped"
	ks := []int{1, 2, 10}
	for _, k := range ks {
		K := time.Duration(k) * time.Second
		ops := []Action{
			{Kind: "advance", D: K * 4 / 10}, {Kind: "advance", D: K * 9 / 10}, {Kind: "advance", D: K * 13 / 10}, {Kind: "advance", D: K * 16 / 10},
			{Kind: "ping", Client: "X"}, pub("X", "t", 0, 0, "tick"), pub("X", "t", 1, 9, "tick1"),
			{Kind: "send", Client: "X", Raw: []byte{0xC0}, RawDesc: "first byte of PINGREQ"},
			{Kind: "halfping2", Client: "X"},
		}
		depth := 5
		if c.Thorough() {
			depth = 6
		}
		spec := &HistSpec{Name: fmt.Sprintf("keepalive-%ds", k), Ops: ops, Depth: depth, Dedup: false,
			Comps: map[string]bool{"closed": true, "will": true, "acks": true},
			Prefix: []Action{
				{Kind: "connect", Client: "W", Opts: ConnectOpts{ClientID: "w", Clean: true, KeepAlive: 65535}}, sub("W", 1, "#", 1),
				{Kind: "connect", Client: "X", Opts: ConnectOpts{ClientID: "x", Clean: true, KeepAlive: uint16(k), Will: &Will{"will/x", "x is gone", 1, false}}},
			},
			Pre: func(hist []Action, a Action) bool {
				if !precond(hist, a) {
					return false
				}
				// once X was dropped nothing more is interesting
				half, stuck := false, false
				for _, h := range hist {
					switch {
					case h.Kind == "send" && h.Client == "X" && len(h.Raw) > 1:
						stuck = true // a packet that is never completed: the client is silent from here on
					case h.Kind == "send" && h.Client == "X":
						half = true
					case h.Kind == "halfping2":
						half = false
					}
				}
				if a.Client == "X" {
					if stuck {
						return false
					}
					if half {
						return a.Kind == "halfping2"
					}
					return a.Kind != "halfping2"
				}
				return true
			},
			ExtraKey: func(h *Harness) string {
				x := h.M.conns["X"]
				if x == nil || !x.open {
					return "gone"
				}
				return fmt.Sprintf("idle=%d", h.Now-x.lastRecv)
			}}
		spec.Search(c)
		if c.HasViolation() || c.Expired() {
			return
		}
		// packets that fill the receiver's 8 KiB read block exactly (and one byte less):
		// how the bytes are cut into reads must not decide what counts as activity
		if k == 10 {
			continue
		}
		blk := *spec
		blk.Name = fmt.Sprintf("keepalive-blocksize-%ds", k)
		blk.Ops = []Action{
			{Kind: "advance", D: K * 4 / 10}, {Kind: "advance", D: K * 9 / 10}, {Kind: "advance", D: K * 16 / 10},
			{Kind: "ping", Client: "X"},
			pub("X", "t", 0, 0, big(8192-6, 1)), pub("X", "t", 0, 0, big(8191-6, 2)), pub("X", "u", 1, 9, big(8192-8, 3)),
			// a client that dies in the middle of a packet: complete fixed header, part of the body
			{Kind: "send", Client: "X", Raw: append([]byte{0x30, 0x64, 0x00, 0x01, 't'}, []byte("0123456")...), RawDesc: "PUBLISH header announcing 100 bytes, 10 of them"},
		}
		blk.Search(c)
		if c.HasViolation() || c.Expired() {
			return
		}
		// finer timing: a packet shortly after the previous one, then a gap just below K
		// (what counts is the time since the client's last packet, not since anything
		// the broker did with its timers)
		fine := *spec
		fine.Name = fmt.Sprintf("keepalive-fine-timing-%ds", k)
		fine.Ops = []Action{
			{Kind: "advance", D: K * 5 / 100}, {Kind: "advance", D: K * 25 / 100}, {Kind: "advance", D: K * 97 / 100}, {Kind: "advance", D: K * 16 / 10},
			{Kind: "ping", Client: "X"}, pub("X", "t", 0, 0, "tick"),
		}
		fine.Search(c)
		if c.HasViolation() || c.Expired() {
			return
		}
	}
	// the whole range of the 16-bit keep-alive field: values around the powers of two and
	// around 65536/1.2 (the broker allows 1.2 K; arithmetic in a narrow type would wrap there)
	bigKs := []int{255, 256, 32767, 32768, 54613, 54614, 54615, 54620, 60000, 65535}
	for i, k := range bigKs {
		if !c.Thorough() && i%2 == 1 && k != 54614 && k != 65535 {
			continue
		}
		K := time.Duration(k) * time.Second
		depth := 4
		if c.Thorough() {
			depth = 5
		}
		spec := &HistSpec{Name: fmt.Sprintf("keepalive-%ds", k),
			Ops: []Action{{Kind: "advance", D: K * 4 / 10}, {Kind: "advance", D: K * 9 / 10}, {Kind: "advance", D: K * 16 / 10}, {Kind: "ping", Client: "X"}},
			Depth: depth, Dedup: false,
			Comps: map[string]bool{"closed": true, "will": true, "acks": true},
			Prefix: []Action{
				// (the witness is an in-process subscriber: a network witness would need a
				// keep-alive of its own, and the field's maximum is what is examined here)
				{Kind: "lsub", Client: "L", Filters: []string{"will/#"}, QoSs: []byte{1}},
				{Kind: "connect", Client: "X", Opts: ConnectOpts{ClientID: "x", Clean: true, KeepAlive: uint16(k), Will: &Will{"will/x", "x is gone", 1, false}}},
			},
			Pre: func(hist []Action, a Action) bool { return precond(hist, a) },
			ExtraKey: func(h *Harness) string {
				x := h.M.conns["X"]
				if x == nil || !x.open {
					return "gone"
				}
				return fmt.Sprintf("idle=%d", h.Now-x.lastRecv)
			}}
		spec.Search(c)
		if c.HasViolation() || c.Expired() {
			return
		}
	}
	c19pressure(c)
	if c.HasViolation() || c.Expired() {
		return
	}
	c19silentFull(c)
	if c.HasViolation() || c.Expired() {
		return
	}
	c19partialLarge(c)
	if c.HasViolation() || c.Expired() {
		return
	}
	c19sched(c)
}

func init() { core.Register("C19", C19) }
