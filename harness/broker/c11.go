package broker

import (
	"encoding/json"
	"fmt"
	"time"

	"verif/harness/core"
	"verif/models/refcodec"
)

type firstPacket struct {
	desc   string
	raw    []byte
	expect string
	opts   ConnectOpts
}

// connectBytes builds a CONNECT by hand so that illegal field values can be expressed.
func connectBytes(name string, level, flags byte, ka uint16, fields ...[]byte) []byte {
	body := append([]byte{byte(len(name) >> 8), byte(len(name))}, name...)
	body = append(body, level, flags, byte(ka>>8), byte(ka))
	for _, f := range fields {
		body = append(body, byte(len(f)>>8), byte(len(f)))
		body = append(body, f...)
	}
	out := []byte{0x10}
	out = append(out, refcodec.VarLen(len(body))...)
	return append(out, body...)
}

func firstPackets(thorough bool) []firstPacket {
	var out []firstPacket
	// (a) every other packet type
	others := []*refcodec.Packet{
		{Type: refcodec.CONNACK}, {Type: refcodec.PUBLISH, Topic: []byte("r/x"), Payload: []byte("sneak"), Retain: true},
		{Type: refcodec.PUBLISH, Topic: []byte("a"), Payload: []byte("q1"), QoS: 1, ID: 3},
		{Type: refcodec.PUBACK, ID: 1}, {Type: refcodec.PUBREC, ID: 1}, {Type: refcodec.PUBREL, ID: 1}, {Type: refcodec.PUBCOMP, ID: 1},
		{Type: refcodec.SUBSCRIBE, ID: 2, Topics: [][]byte{[]byte("#")}, QoSs: []byte{2}}, {Type: refcodec.SUBACK, ID: 2, Codes: []byte{0}},
		{Type: refcodec.UNSUBSCRIBE, ID: 2, Topics: [][]byte{[]byte("#")}}, {Type: refcodec.UNSUBACK, ID: 2},
		{Type: refcodec.PINGREQ}, {Type: refcodec.PINGRESP}, {Type: refcodec.DISCONNECT},
	}
	for _, p := range others {
		out = append(out, firstPacket{desc: p.String(), raw: refcodec.Encode(p), expect: "close"})
	}
	out = append(out, firstPacket{desc: "reserved type 0", raw: []byte{0x00, 0x00}, expect: "close"},
		firstPacket{desc: "reserved type 15", raw: []byte{0xf0, 0x00}, expect: "close"},
		firstPacket{desc: "CONNECT with remaining length 0", raw: []byte{0x10, 0x00}, expect: "close"},
		firstPacket{desc: "CONNECT with fixed-header flags 1", raw: append([]byte{0x11}, connectBytes("MQTT", 4, 2, 30, []byte("x"))[1:]...), expect: "close"},
		// the broker waits for the announced body; it must give up at the connect timeout at the latest
		firstPacket{desc: "CONNECT announcing 16 MiB and sending nothing", raw: []byte{0x10, 0x80, 0x80, 0x80, 0x08}, expect: "pending"},
		// bytes behind the last field, inside the remaining length
		firstPacket{desc: "CONNECT with three surplus bytes inside its remaining length", raw: func() []byte {
			b := connectBytes("MQTT", 4, 2, 30, []byte("x"))
			b[1] += 3
			return append(b, 0xde, 0xad, 0x01)
		}(), expect: "close"},
		// a remaining-length field of five bytes is no MQTT 3.1.1 packet, whatever it announces
		firstPacket{desc: "CONNECT with a five-byte length field announcing 512 MiB", raw: []byte{0x10, 0x80, 0x80, 0x80, 0x80, 0x02}, expect: "close"},
		firstPacket{desc: "CONNECT with a five-byte length field announcing 12 bytes", raw: append([]byte{0x10, 0x8c, 0x80, 0x80, 0x80, 0x00}, connectBytes("MQTT", 4, 2, 30, []byte("x"))[2:]...), expect: "close"})
	// a protocol level the server does not speak is answered with code 1 whatever follows the
	// level byte: a later version's CONNECT has another layout behind it [MQTT-3.1.2-2]
	v5 := func(level byte, rest []byte) []byte {
		body := append([]byte{0x00, 0x04, 'M', 'Q', 'T', 'T', level}, rest...)
		return append([]byte{0x10, byte(len(body))}, body...)
	}
	out = append(out,
		firstPacket{desc: "MQTT 5 CONNECT with properties (session expiry interval)", raw: v5(5, []byte{0x02, 0x00, 0x1e, 0x05, 0x11, 0x00, 0x00, 0x00, 0x0a, 0x00, 0x02, 'c', '1'}), expect: "code1"},
		firstPacket{desc: "MQTT 5 CONNECT with an empty property list", raw: v5(5, []byte{0x02, 0x00, 0x1e, 0x00, 0x00, 0x02, 'c', '1'}), expect: "code1"},
		firstPacket{desc: "CONNECT with protocol level 9 and an unknown layout behind it", raw: v5(9, []byte{0xff, 0xff, 0xff, 0x01}), expect: "code1"},
		firstPacket{desc: "CONNECT with protocol level 5 that ends with the level byte", raw: v5(5, nil), expect: "code1-or-close"})
	// (b) CONNECT field product
	cid := []byte("c1")
	for _, name := range []string{"MQTT", "MQIsdp", "MQTX", ""} {
		for _, lvl := range []byte{3, 4, 5, 0} {
			ok := (name == "MQTT" && lvl == 4) || (name == "MQIsdp" && lvl == 3)
			exp := "code1-or-close"
			if ok {
				exp = "accept"
			} else if name == "MQTT" && lvl == 5 || name == "MQIsdp" && lvl == 4 || name == "MQTT" && lvl == 0 {
				// a known protocol name with a level the server does not speak
				exp = "code1-or-close"
				if name == "MQTT" && lvl == 5 {
					exp = "code1"
				}
			}
			out = append(out, firstPacket{desc: fmt.Sprintf("CONNECT %q level %d", name, lvl), raw: connectBytes(name, lvl, 2, 30, cid), expect: exp,
				opts: ConnectOpts{ClientID: "c1", Clean: true, KeepAlive: 30}})
		}
	}
	for _, fl := range []struct {
		f    byte
		d    string
		e    string
		will bool
	}{
		{0x03, "reserved flag bit set", "close", false},
		{0x0a, "will QoS 1 without will flag", "close", false},
		{0x22, "will retain without will flag", "close", false},
		{0x1e, "will QoS 3", "close", true},
		{0x42, "password flag without user-name flag", "close", false},
		{0x06, "will flag, QoS 0", "accept", true},
		{0x36, "will flag, QoS 2, retain", "accept", true},
	} {
		fields := [][]byte{cid}
		if fl.f&0x40 != 0 {
			fields = append(fields, []byte("pw"))
		}
		o := ConnectOpts{ClientID: "c1", Clean: true, KeepAlive: 30}
		if fl.will {
			fields = append(fields, []byte("w/t"), []byte("gone"))
			o.Will = &Will{"w/t", "gone", (fl.f >> 3) & 3, fl.f&0x20 != 0}
		}
		out = append(out, firstPacket{desc: "CONNECT " + fl.d, raw: connectBytes("MQTT", 4, fl.f, 30, fields...), expect: fl.e, opts: o})
	}
	ids := []struct {
		id    string
		clean bool
		e     string
	}{
		{"", false, "code2"}, {"", true, "accept"}, {"abcdefghijklmnopqrstuvw", true, "accept"}, {"abcdefghijklmnopqrstuvw", false, "accept"},
		{"abcdefghijklmnopqrstuvwxyz0123456", true, "accept-or-code2"}, {"a\x01b", true, "accept-or-code2"}, {"a b/c+#", true, "accept-or-code2"},
		// a valid UTF-8 identifier outside ASCII: the server's policy, either answer is fine
		{"caf\xc3\xa9", true, "accept-or-code2"},
		// ill-formed UTF-8 is no string at all [MQTT-1.5.3-1]: never accepted
		{"v\xffd", true, "code2-or-close"}, {"trunc\xc3", true, "code2-or-close"}, {"\xed\xa0\x80", true, "code2-or-close"},
	}
	for _, x := range ids {
		fl := byte(0)
		if x.clean {
			fl = 2
		}
		out = append(out, firstPacket{desc: fmt.Sprintf("CONNECT client id %q clean=%v", x.id, x.clean), raw: connectBytes("MQTT", 4, fl, 30, []byte(x.id)), expect: x.e,
			opts: ConnectOpts{ClientID: x.id, Clean: x.clean, KeepAlive: 30}})
	}
	out = append(out, firstPacket{desc: "CONNECT with user and password", raw: connectBytes("MQTT", 4, 0xc2, 30, cid, []byte("user"), []byte("secret")), expect: "accept",
		opts: ConnectOpts{ClientID: "c1", Clean: true, KeepAlive: 30}})
	// (c) every truncation of a valid CONNECT (with will, user, password)
	full := connectBytes("MQTT", 4, 0xf6, 30, cid, []byte("w/t"), []byte("gone"), []byte("user"), []byte("secret"))
	step := 1
	if !thorough {
		step = 3
	}
	for cut := 0; cut < len(full); cut += step {
		out = append(out, firstPacket{desc: fmt.Sprintf("CONNECT cut after %d of %d bytes", cut, len(full)), raw: full[:cut], expect: "pending"})
	}
	// complete frames whose remaining length ends early, at every position of the body
	body := full[2:]
	willEnd := 2 + 4 + 4 + 2 + len(cid) + 2 + 3 + 2 + 4 // up to and including the will message
	for k := 0; k < len(body); k += 1 {
		raw := append([]byte{0x10, byte(k)}, body[:k]...)
		exp := "close"
		if k >= willEnd {
			// the user name / password flags are set but the fields are missing or cut:
			// malformed by the letter; the statement does not say more than "not accepted
			// or closed", so both answers are taken
			exp = "accept-or-code2"
		}
		out = append(out, firstPacket{desc: fmt.Sprintf("CONNECT frame ending after %d of %d body bytes", k, len(body)), raw: raw, expect: exp,
			opts: ConnectOpts{ClientID: "c1", Clean: true, KeepAlive: 30}})
	}
	// length field says less than the fields need
	short := append([]byte{}, full...)
	short[1] -= 5
	out = append(out, firstPacket{desc: "CONNECT whose remaining length ends inside the password", raw: short[:len(short)-5], expect: "close"})
	return out
}

// C11: nothing before an accepted CONNECT.
func C11(c *core.Ctx) {
	c.Rep.Bound = "ENUM x HIST: every packet type as first packet, a CONNECT field product (protocol name x level, reserved/will flag inconsistencies, client identifiers, credentials), every (third) truncation of a valid CONNECT followed by a cut, by more packets or by silence until the connect timeout (virtual time); under an accepting and a rejecting authenticator; each followed by SUBSCRIBE '#' and a retained PUBLISH on the unaccepted connection and by probes through a witness and a later subscriber; SCHED: the CONNACK is the first packet of an accepted connection (resumed session with a publish on its filter at the same time, requests pipelined behind the CONNECT), every schedule with <= 2 (quick) / 3 (thorough) deviations"
	c.Rep.Rule = "oracle: CONNACK code as the statement says (bad protocol name: code 1 or close), closed after any non-zero code or other first packet, witness receives nothing, subscription tree / retained tree / session store unchanged (implementation dump compared), no library goroutine panics; non-trivial = first packets that are rejected"
	comps := map[string]bool{"connect": true, "closed": true, "route": true, "retained": true, "noeffect": true, "stream": true}
	fps := firstPackets(c.Thorough())
	if c.Replay != nil {
		fmt.Println("replay:", c.Replay.Scenario, "\n ", c.Replay.Message)
		for _, l := range c.Replay.Log {
			fmt.Println(l)
		}
		if c.Replay.Crash != "" {
			fmt.Println("CRASH:", c.Replay.Crash)
		}
		c.Rep.Scenarios++
		return
	}
	n := 0
	sneakSub := refcodec.Encode(&refcodec.Packet{Type: refcodec.SUBSCRIBE, ID: 9, Topics: [][]byte{[]byte("#")}, QoSs: []byte{2}})
	sneakPub := refcodec.Encode(&refcodec.Packet{Type: refcodec.PUBLISH, Topic: []byte("r/x"), Payload: []byte("sneak"), Retain: true})
	for _, authn := range []string{"mockSuccess", "mockFailure"} {
		for _, fp := range fps {
			for _, tail := range []string{"more-packets", "cut", "silence"} {
				n++
				if c.NShards > 1 && n%c.NShards != c.Shard {
					continue
				}
				if c.Expired() || c.HasViolation() {
					return
				}
				hist := []Action{
					{Kind: "connect", Client: "W", Opts: ConnectOpts{ClientID: "w", Clean: true, KeepAlive: 65535}},
					sub("W", 1, "#", 2),
					{Kind: "connectraw", Client: "X", Raw: fp.raw, RawDesc: fp.desc, Expect: fp.expect, Opts: fp.opts},
				}
				accepted := fp.expect == "accept" && authn == "mockSuccess"
				if authn == "mockFailure" {
					// the witness itself cannot connect: use probes through the implementation dump only
					hist = hist[2:]
				}
				switch tail {
				case "more-packets":
					if accepted || fp.expect == "accept-or-code2" {
						continue
					}
					if fp.expect == "pending" && len(fp.raw) > 0 {
						// what the following bytes complete the CONNECT to is a different first packet
						continue
					}
					exp := ""
					if fp.expect == "pending" {
						exp = "close" // the bytes complete a malformed CONNECT (or an acceptable one that then reads garbage)
						if len(fp.raw) == 0 {
							exp = "close"
						}
					}
					hist = append(hist, Action{Kind: "send", Client: "X", Raw: append(append([]byte{}, sneakSub...), sneakPub...), RawDesc: "SUBSCRIBE # + retained PUBLISH r/x", Expect: exp})
				case "cut":
					if fp.expect != "pending" {
						continue
					}
					hist = append(hist, Action{Kind: "cutraw", Client: "X"})
				case "silence":
					if fp.expect != "pending" {
						continue
					}
					hist = append(hist, Action{Kind: "advance", D: 1900 * time.Millisecond}, Action{Kind: "advance", D: 200 * time.Millisecond})
				}
				if authn == "mockSuccess" && !accepted {
					// a later subscriber must not see a retained message from the unaccepted connection
					hist = append(hist, Action{Kind: "connect", Client: "Z", Opts: ConnectOpts{ClientID: "z", Clean: true, KeepAlive: 65535}}, sub("Z", 2, "#", 1))
				}
				spec := &HistSpec{Name: "first-packet", Cfg: Config{Authenticator: authn}, Comps: comps, CrashIsViolation: true}
				if (fp.expect != "accept" && fp.expect != "accept-or-code2") || authn == "mockFailure" {
					spec.After = noEffect
				}
				r := spec.RunHistory(hist, false)
				c.Rep.Evaluations++
				c.Rep.Executions++
				c.Rep.States++
				c.Rep.Transitions += int64(r.Steps)
				if fp.expect != "accept" {
					c.Rep.Nontrivial++
				}
				if r.Violation != "" {
					rr := spec.RunHistory(hist, true)
					in, _ := json.Marshal(map[string]interface{}{"first_packet": fmt.Sprintf("%x", fp.raw), "then": tail, "authenticator": authn})
					key := fmt.Sprintf("C11 %s/%s :: %s", fpClass(fp), tail, violClass(r.Violation))
					if c.Violate(key, core.Replay{Scenario: fmt.Sprintf("first packet %s, then %s, authenticator %s", fp.desc, tail, authn), Message: r.Violation, Input: in, Log: tailS(rr.Trace, 40), Crash: rr.Crash}) {
						return
					}
				}
				if r.Note != "" {
					c.Rep.Notes = append(c.Rep.Notes, "out-of-scope mismatch: "+noteClass(r.Note))
				}
				if n == 30 {
					c.Rep.Sample(map[string]interface{}{"first_packet": fp.desc, "bytes": fmt.Sprintf("%x", fp.raw), "then": tail, "authenticator": authn, "expect": fp.expect})
				}
			}
		}
	}
	c.Rep.Scenarios++
	c11victim(c, comps)
	if c.HasViolation() || c.Expired() {
		return
	}
	c11odd(c)
	if c.HasViolation() || c.Expired() {
		return
	}
	c11sched(c)
	if c.HasViolation() || c.Expired() {
		return
	}
	dev := 1
	if c.Thorough() {
		dev = 2
	}
	wsScenarios(c, "C11", dev)
}

// c11victim: a rejected CONNECT that names somebody else's client identifier
// must not touch that client's session (selective authenticator).
func c11victim(c *core.Ctx, comps map[string]bool) {
	evil := func(clean bool, w *Will) Action {
		return Action{Kind: "connect", Client: "E", Opts: ConnectOpts{ClientID: "o", Clean: clean, KeepAlive: 60, User: "evil", Pass: "x", Will: w}}
	}
	owner := Action{Kind: "connect", Client: "O", Opts: ConnectOpts{ClientID: "o", Clean: false, KeepAlive: 600}}
	// a user whose credentials the authenticator knows: right password, wrong password, none -
	// on fresh connections, in any order (what was accepted once does not vouch for the next CONNECT)
	admin := func(client, pass string) Action {
		return Action{Kind: "connect", Client: client, Opts: ConnectOpts{ClientID: "adm-" + client, Clean: true, KeepAlive: 600, User: "admin", Pass: pass}}
	}
	ops := []Action{
		owner, sub("O", 1, "t", 1), {Kind: "disconnect", Client: "O"}, {Kind: "cut", Client: "O"},
		evil(true, nil), evil(false, &Will{"w/evil", "planted", 1, false}), evil(false, nil),
		pub("W", "t", 1, 9, "probe"),
	}
	credOps := []Action{admin("G", "secret"), admin("H", "wrong"), admin("I", ""), {Kind: "disconnect", Client: "G"}, {Kind: "cut", Client: "G"}}
	comps2 := map[string]bool{}
	for k := range comps {
		comps2[k] = true
	}
	comps2["acks"], comps2["will"] = true, true
	depth := 6
	if c.Thorough() {
		depth = 7
	}
	spec := &HistSpec{Name: "rejected-connect-with-foreign-id", Cfg: Config{Authenticator: SelectiveAuth}, Ops: ops, Depth: depth, Dedup: false, Comps: comps2, CrashIsViolation: true,
		Prefix: []Action{{Kind: "connect", Client: "W", Opts: ConnectOpts{ClientID: "w", Clean: true, KeepAlive: 65535}}, sub("W", 2, "#", 1)},
		Pre: func(hist []Action, a Action) bool {
			// the rejected connection never becomes a live one: it may use the owner's id while the owner is online
			refused := func(x Action) bool {
				return x.Client == "E" || x.Client == "H" || x.Client == "I"
			}
			if refused(a) {
				return true
			}
			var h2 []Action
			for _, x := range hist {
				if !refused(x) {
					h2 = append(h2, x)
				}
			}
			return precond(h2, a)
		}}
	spec.Search(c)
	if c.HasViolation() || c.Expired() {
		return
	}
	cred := &HistSpec{Name: "credentials-history", Cfg: Config{Authenticator: SelectiveAuth}, Ops: credOps, Depth: 5, Dedup: false, Comps: comps2, CrashIsViolation: true,
		Prefix: spec.Prefix, Pre: spec.Pre}
	cred.Search(c)
}

func fpClass(fp firstPacket) string {
	if len(fp.desc) > 11 && fp.desc[:11] == "CONNECT cut" {
		return "truncated CONNECT"
	}
	if len(fp.desc) > 13 && fp.desc[:13] == "CONNECT frame" {
		return "short CONNECT frame"
	}
	return fp.desc
}

// noEffect: the only sessions are those of the witness and the later
// subscriber, the subscription tree holds only their '#', nothing is retained.
func noEffect(h *Harness) []Mismatch {
	k := h.W.ImplKey()
	want := map[string]bool{
		"#S()R()": true, // nobody connected (rejecting authenticator)
	}
	_ = want
	for _, bad := range []string{"r(", "sneak", "c1{", "x("} {
		if containsStr(k, bad) {
			return []Mismatch{{"noeffect", fmt.Sprintf("the unaccepted connection left traces in the broker state: %s", k)}}
		}
	}
	return nil
}

func containsStr(s, sub string) bool {
	for i := 0; i+len(sub) <= len(s); i++ {
		if s[i:i+len(sub)] == sub {
			return true
		}
	}
	return false
}

func init() { core.Register("C11", C11) }
