package broker

import (
	"fmt"
	"strings"
	"time"

	"github.com/mdzio/go-mqtt/verifrt/vsched"
	"verif/engine/explore"
	"verif/harness/core"
	"verif/models/refcodec"
)

// c19pressure: a client that keeps sending is not disconnected for inactivity
// even while the broker cannot take its packets.  A subscriber to the
// publisher's topic stops reading; the publisher (keep-alive K) publishes until
// the subscriber's outgoing ring and its own incoming ring at the broker are
// full, so its receiver goroutine waits for room in the ring instead of
// reading the socket.  The publisher goes on sending a PINGREQ every 0.5 K or
// 0.9 K for up to 4 K of virtual time; then the subscriber reads again and the
// congestion dissolves.  At no point may the publisher be dropped or its will
// be published, and in the end every PINGREQ is answered.
func c19pressure(c *core.Ctx) {
	if c.Replay != nil && !strings.HasPrefix(c.Replay.Scenario, "back-pressure:") {
		return
	}
	n := 0
	for _, k := range []int{1, 10} {
		for _, fillers := range []int{4, 5, 6} {
			for _, tenths := range []int{5, 9} {
				for _, rounds := range []int{2, 4} {
					n++
					name := fmt.Sprintf("back-pressure: keep-alive %d s, %d publishes of 8000 bytes towards a subscriber that does not read, then %d PINGREQs %d/10 K apart, then the subscriber reads", k, fillers, rounds, tenths)
					if c.Replay != nil {
						if c.Replay.Scenario != name {
							continue
						}
					} else if c.NShards > 1 && n%c.NShards != c.Shard {
						continue
					}
					if c.Expired() || c.HasViolation() {
						return
					}
					K := time.Duration(k) * time.Second
					k, fillers, tenths, rounds := k, fillers, tenths, rounds
					body := func() {
						t := newTD()
						w := t.connect("W", 0, 65535, false)
						t.subscribe("W", "will/#", 0)
						s := t.connect("S", 512, 65535, false)
						t.subscribe("S", "t", 0)
						p := t.connect("P", 0, uint16(k), true)
						if vsched.Failed() {
							return
						}
						for i := 0; i < fillers; i++ {
							p.rc.Send(bigPub("t", 8000, byte(i)))
							t.settleExcept()
						}
						alive := func(when string) bool {
							t.settleExcept()
							if ws := publishesOn(w.rc.Take(), "will/p"); len(ws) > 0 || p.rc.EOF || p.rc.ReadErr != "" {
								vsched.Failf("%s the publisher, which has sent a packet at least every %d/10 K, was dropped (connection closed: %v, will published: %d times)", when, tenths, p.rc.EOF || p.rc.ReadErr != "", len(ws))
								return false
							}
							return true
						}
						for i := 0; i < rounds; i++ {
							vsched.Advance(K * time.Duration(tenths) / 10)
							p.rc.Send(&refcodec.Packet{Type: refcodec.PINGREQ})
							if !alive(fmt.Sprintf("during the congestion (after %d PINGREQs)", i+1)) {
								return
							}
						}
						// the subscriber reads again
						s.noRead = false
						if !alive("after the congestion dissolved") {
							return
						}
						vsched.Advance(K * time.Duration(tenths) / 10)
						p.rc.Send(&refcodec.Packet{Type: refcodec.PINGREQ})
						if !alive("one interval after the congestion dissolved") {
							return
						}
						got := 0
						for _, pk := range p.rc.Take() {
							if pk.Type == refcodec.PINGRESP {
								got++
							}
						}
						if got != rounds+1 {
							vsched.Failf("the publisher sent %d PINGREQs and received %d PINGRESPs", rounds+1, got)
							return
						}
						if ps := publishesOn(s.rc.Take(), "t"); len(ps) != fillers {
							vsched.Failf("the subscriber received %d of the %d publishes once it read again", len(ps), fillers)
							return
						}
						if t.badStream() {
							return
						}
						vsched.Logf("ok")
					}
					res := explore.RunDefault(body)
					if c.Replay != nil {
						fmt.Println("replay:", name)
						for _, l := range res.Log {
							fmt.Println("  ", l)
						}
						fmt.Println("  failures:", res.Failures, firstLine(res.Crash))
						c.Rep.Scenarios++
						return
					}
					c.Rep.Executions++
					c.Rep.Evaluations++
					c.Rep.States++
					c.Rep.Nontrivial++
					c.Rep.Transitions += int64(len(res.Points))
					v := ""
					if res.Status == vsched.StCrash {
						v = "a library goroutine panicked: " + firstLine(res.Crash)
					} else if res.Status == vsched.StHorizon {
						v = "no quiescence"
					} else if len(res.Failures) > 0 {
						v = res.Failures[0]
					}
					if v != "" {
						if c.Violate("C19 back-pressure :: "+violClass(v), core.Replay{Scenario: name, Message: v, Log: res.Log, Crash: res.Crash}) {
							return
						}
					}
				}
			}
		}
	}
	c.Rep.Scenarios++
	c.Rep.Sample(map[string]interface{}{"search": "back-pressure", "keep_alive_s": []int{1, 10}, "fillers": []int{4, 5, 6}, "ping_interval_tenths_of_K": []int{5, 9}, "rounds": []int{2, 4}})
}

// KnownSilentFull is the fingerprint of the listed finding about a silent client
// whose receiver goroutine waits for room in the incoming ring.
const KnownSilentFull = "C19 keep-alive not enforced while the receiver waits for room in the incoming ring"

// c19silentFull: a client that has stopped reading *and* filled its own incoming
// ring at the broker (it subscribed to a topic it publishes on; its processor
// waits for room in its outgoing ring, so nothing leaves the incoming ring),
// then goes silent.  After 1.6 K it has to be disconnected and its will
// published.  The library does that as long as its receiver goroutine is reading
// the socket (fix 31); with the incoming ring full the receiver waits in
// waitForWriteSpace, where no deadline runs: the listed finding KnownSilentFull,
// recognised by exactly that state (connection open, receiver parked on the
// ring's condition variable).
func c19silentFull(c *core.Ctx) {
	for _, fillers := range []int{3, 6} {
		name := fmt.Sprintf("silent client that stopped reading, %d publishes of 8000 bytes to a topic it is subscribed to itself, then 1.6 K of silence", fillers)
		if c.Replay != nil && c.Replay.Scenario != name {
			continue
		}
		if c.Replay == nil && c.NShards > 1 && c.Shard != 0 {
			return
		}
		fillers := fillers
		parkedOnRing := false
		body := func() {
			parkedOnRing = false
			t := newTD()
			w := t.connect("W", 0, 65535, false)
			t.subscribe("W", "will/#", 0)
			x := t.connect("C", 512, 10, true)
			t.subscribe("C", "own", 0)
			if vsched.Failed() {
				return
			}
			for i := 0; i < fillers; i++ {
				x.rc.Send(bigPub("own", 8000, byte(i)))
				t.settleExcept()
			}
			w.rc.Take()
			vsched.Advance(16 * time.Second)
			t.settleExcept()
			nw := len(publishesOn(w.rc.Take(), "will/c"))
			var lib []vsched.Parked
			for _, p := range threadsOf(LibThreadsAlive(), x.prefix) {
				lib = append(lib, p)
				if strings.Contains(p.Name, "receiver") && (p.Kind == vsched.KCondWait || p.Kind == vsched.KCondWake) {
					parkedOnRing = true
				}
			}
			if nw != 1 || len(lib) > 0 {
				vsched.Failf("the client negotiated a keep-alive of 10 s and has been silent for 16 s: its will was published %d times, %d goroutines of its connection are still there: %s", nw, len(lib), core.ParkedString(lib))
			}
		}
		res := explore.RunDefault(body)
		c.Rep.Executions++
		c.Rep.Evaluations++
		c.Rep.States++
		c.Rep.Transitions += int64(len(res.Points))
		if c.Replay != nil {
			fmt.Println("replay:", name, "\n  failures:", res.Failures, firstLine(res.Crash))
			c.Rep.Scenarios++
			return
		}
		v := ""
		if res.Status == vsched.StCrash {
			v = "a library goroutine panicked: " + firstLine(res.Crash)
		} else if len(res.Failures) > 0 {
			v = res.Failures[0]
		}
		if v == "" {
			continue
		}
		key := "C19 silent-full :: " + violClass(v)
		if parkedOnRing && res.Status != vsched.StCrash {
			if c.Known[KnownSilentFull] {
				c.Rep.KnownHits[KnownSilentFull]++
				continue
			}
			key = KnownSilentFull
		}
		if c.Violate(key, core.Replay{Scenario: name, Message: v, Log: res.Log, Crash: res.Crash}) {
			return
		}
	}
	c.Rep.Scenarios++
}

// c19partialLarge: a client that falls silent in the middle of a LARGE packet - the fixed
// header announces a PUBLISH around the size the 16 KiB incoming ring can hold complete (ring
// size minus one 8 KiB read block), part of it arrives (100 bytes; 8200 bytes, which is more
// than the ring takes while the processor waits for the whole packet), then nothing for 1.6 K.
// The broker may refuse the packet at its header; if it does not, the keep-alive must end the
// connection: will published once, no goroutine of the connection left.
func c19partialLarge(c *core.Ctx) {
	n := 0
	for _, r := range []int{8100, 8400, 12100, 16000, 16500} {
		for _, k := range []int{100, 8200, 16380} {
			n++
			if k >= r {
				continue
			}
			name := fmt.Sprintf("silent in the middle of a packet: %d of %d bytes of a PUBLISH, then 1.6 K of silence", k, r+3)
			if c.Replay != nil && c.Replay.Scenario != name {
				continue
			}
			if c.Replay == nil && c.NShards > 1 && n%c.NShards != c.Shard {
				continue
			}
			r, k := r, k
			body := func() {
				t := newTD()
				w := t.connect("W", 0, 65535, false)
				t.subscribe("W", "will/#", 0)
				x := t.connect("C", 0, 10, true)
				if vsched.Failed() {
					return
				}
				full := refcodec.Encode(&refcodec.Packet{Type: refcodec.PUBLISH, Topic: []byte("q"), Payload: []byte(big(r-3, 9))})
				x.rc.SendRaw(full[:k])
				t.settleExcept()
				// (a broker that refuses the packet at its header publishes the will here already)
				nw := len(publishesOn(w.rc.Take(), "will/c"))
				vsched.Advance(16 * time.Second)
				t.settleExcept()
				nw += len(publishesOn(w.rc.Take(), "will/c"))
				lib := threadsOf(LibThreadsAlive(), x.prefix)
				if nw != 1 || len(lib) > 0 {
					vsched.Failf("the client negotiated a keep-alive of 10 s, sent %d bytes of a %d-byte PUBLISH and has been silent for 16 s: its will was published %d times, %d goroutines of its connection are still there: %s", k, len(full), nw, len(lib), core.ParkedString(lib))
				}
			}
			res := explore.RunDefault(body)
			c.Rep.Executions++
			c.Rep.Evaluations++
			c.Rep.States++
			c.Rep.Nontrivial++
			c.Rep.Transitions += int64(len(res.Points))
			if c.Replay != nil {
				fmt.Println("replay:", name, "\n  failures:", res.Failures, firstLine(res.Crash))
				c.Rep.Scenarios++
				return
			}
			v := ""
			if res.Status == vsched.StCrash {
				v = "a library goroutine panicked: " + firstLine(res.Crash)
			} else if len(res.Failures) > 0 {
				v = res.Failures[0]
			}
			if v != "" {
				if c.Violate("C19 partial-large :: "+violClass(v), core.Replay{Scenario: name, Message: v, Log: res.Log, Crash: res.Crash}) {
					return
				}
			}
		}
	}
	c.Rep.Scenarios++
}
