package broker

import (
	"encoding/json"
	"fmt"
	"strings"

	"github.com/mdzio/go-mqtt/verifrt/vsched"
	"verif/engine/explore"
	"verif/harness/core"
	"verif/models/refcodec"
)

// sop is an operation of the sender-side histories: a client API call or an
// acknowledgement from the scripted peer.
type sop struct {
	kind string // api:pub0 api:pub1 api:pub2 api:sub api:unsub api:ping | ack:<type>:<oldest|newest>
}

func (o sop) String() string { return o.kind }

func senderOps() []sop {
	var ops []sop
	for _, k := range []string{"pub0", "pub1", "pub2", "sub", "unsub", "ping"} {
		ops = append(ops, sop{"api:" + k})
	}
	// a QoS 1 publish whose completion callback sends the next QoS 1 publish itself
	ops = append(ops, sop{"api:pub1chain"})
	for _, a := range []string{"PUBACK", "PUBREC", "PUBCOMP", "SUBACK", "UNSUBACK"} {
		ops = append(ops, sop{"ack:" + a + ":oldest"}, sop{"ack:" + a + ":newest"})
	}
	ops = append(ops, sop{"ack:PINGRESP:oldest"})
	return ops
}

// senderOpsPadded: the alphabet plus every acknowledgement (for the oldest
// request awaiting it) with its remaining length written in one byte more than
// necessary; the library's decoders accept that form, so it acknowledges what
// it names.
func senderOpsPadded() []sop {
	ops := senderOps()
	for _, a := range []string{"PUBACK", "PUBREC", "PUBCOMP", "SUBACK", "UNSUBACK", "PINGRESP"} {
		ops = append(ops, sop{"ack:" + a + ":padded"})
	}
	return ops
}

func queueOf(kind string) string {
	switch kind {
	case "pub1", "pub2", "sub", "unsub", "ping":
		return kind
	}
	return ""
}

// senderCheck verifies the completion rules on the request list.
func senderCheck(w *ClientWorld, final bool) string {
	for _, r := range w.Requests {
		if r.Completed > 1 {
			return fmt.Sprintf("the completion callback of request %d (%s, id %d) fired %d times", r.Idx, r.Kind, r.ID, r.Completed)
		}
		if r.CompWrong != "" {
			return fmt.Sprintf("the completion callback of request %d (%s, id %d) %s", r.Idx, r.Kind, r.ID, r.CompWrong)
		}
		if r.Kind != "pub0" && r.Completed == 1 && !r.Acked {
			return fmt.Sprintf("the completion callback of request %d (%s, id %d) fired before its terminal acknowledgement was sent", r.Idx, r.Kind, r.ID)
		}
		if r.Kind == "pub0" && r.Completed != 1 {
			return fmt.Sprintf("the completion callback of the QoS 0 publish (request %d) fired %d times after the call returned", r.Idx, r.Completed)
		}
	}
	if !final {
		return ""
	}
	// at quiescence: due once the ack and those of all earlier requests of the same kind were sent
	blocked := map[string]bool{}
	for _, r := range w.Requests {
		q := queueOf(r.Kind)
		if q == "" {
			continue
		}
		if !r.Acked {
			blocked[q] = true
			continue
		}
		if !blocked[q] && r.Completed != 1 {
			return fmt.Sprintf("the completion callback of request %d (%s, id %d) never fired although its terminal acknowledgement and those of all earlier %s requests were sent", r.Idx, r.Kind, r.ID, r.Kind)
		}
	}
	return ""
}

// inFlightIDs checks identifiers of simultaneously outstanding requests.
func inFlightIDs(w *ClientWorld) string {
	seen := map[uint16]*creq{}
	for _, r := range w.Requests {
		if r.Kind == "pub0" || r.Kind == "ping" || r.Acked {
			continue
		}
		if r.ID == 0 {
			return fmt.Sprintf("request %d (%s) went out with packet identifier 0", r.Idx, r.Kind)
		}
		// identifiers are per direction and shared by all request kinds of a client
		if o := seen[r.ID]; o != nil {
			return fmt.Sprintf("requests %d (%s) and %d (%s) are in flight with the same packet identifier %d", o.Idx, o.Kind, r.Idx, r.Kind, r.ID)
		}
		seen[r.ID] = r
	}
	return ""
}

func runSender(ops []sop, hist []int, trace bool) (viol, key string, steps int) {
	body := func() {
		w := NewClientWorld()
		if !w.Connected("cid") {
			return
		}
		for _, hi := range hist {
			o := ops[hi]
			steps++
			parts := strings.Split(o.kind, ":")
			if parts[0] == "api" {
				kind := parts[1]
				var r *creq
				var err error
				switch kind {
				case "sub":
					r, err = w.Issue("sub", []string{fmt.Sprintf("s/%d", len(w.Requests))}, []byte{1}, "")
				case "unsub":
					r, err = w.Issue("unsub", []string{fmt.Sprintf("s/%d", len(w.Requests))}, nil, "")
				case "ping":
					r, err = w.Issue("ping", nil, nil, "")
				case "pub1chain":
					r, err = w.Issue("pub1", []string{"t"}, nil, fmt.Sprintf("payload-%d-with-a-longer-body", len(w.Requests)))
					r.Chain = "pub1"
				default:
					r, err = w.Issue(kind, []string{"t"}, nil, fmt.Sprintf("payload-%d", len(w.Requests)))
				}
				if err != nil {
					vsched.Failf("%s failed: %v", o, err)
					return
				}
				w.Settle()
				ps := w.Srv.Take()
				if len(ps) != 1 {
					vsched.Failf("%s put %s on the wire", o, Describe(ps))
					return
				}
				r.ID = ps[0].ID
				if v := inFlightIDs(w); v != "" {
					vsched.Failf("after %s: %s", o, v)
					return
				}
			} else {
				typ, which := parts[1], parts[2]
				var cand []*creq
				for _, r := range w.Requests {
					switch typ {
					case "PUBACK":
						if r.Kind == "pub1" && !r.Acked {
							cand = append(cand, r)
						}
					case "PUBREC":
						if r.Kind == "pub2" && !r.RecSent {
							cand = append(cand, r)
						}
					case "PUBCOMP":
						if r.Kind == "pub2" && r.RecSent && !r.Acked {
							cand = append(cand, r)
						}
					case "SUBACK":
						if r.Kind == "sub" && !r.Acked {
							cand = append(cand, r)
						}
					case "UNSUBACK":
						if r.Kind == "unsub" && !r.Acked {
							cand = append(cand, r)
						}
					case "PINGRESP":
						if r.Kind == "ping" && !r.Acked {
							cand = append(cand, r)
						}
					}
				}
				if len(cand) == 0 || (which == "newest" && len(cand) < 2) {
					key = "DEAD-END"
					return
				}
				r := cand[0]
				if which == "newest" {
					r = cand[len(cand)-1]
				}
				var want []*refcodec.Packet
				pad := 0
				if which == "padded" {
					pad = 1
				}
				switch typ {
				case "PUBACK":
					r.Acked = true
					w.ServerSend(&refcodec.Packet{Type: refcodec.PUBACK, ID: r.ID, PadLength: pad})
				case "PUBREC":
					r.RecSent = true
					w.ServerSend(&refcodec.Packet{Type: refcodec.PUBREC, ID: r.ID, PadLength: pad})
					want = []*refcodec.Packet{{Type: refcodec.PUBREL, ID: r.ID}}
				case "PUBCOMP":
					r.Acked = true
					w.ServerSend(&refcodec.Packet{Type: refcodec.PUBCOMP, ID: r.ID, PadLength: pad})
				case "SUBACK":
					r.Acked = true
					w.ServerSend(&refcodec.Packet{Type: refcodec.SUBACK, ID: r.ID, Codes: []byte{1}, PadLength: pad})
				case "UNSUBACK":
					r.Acked = true
					w.ServerSend(&refcodec.Packet{Type: refcodec.UNSUBACK, ID: r.ID, PadLength: pad})
				case "PINGRESP":
					r.Acked = true
					w.ServerSend(&refcodec.Packet{Type: refcodec.PINGRESP, PadLength: pad})
				}
				w.Settle()
				if pad > 0 && (w.Srv.EOF || w.Srv.ReadErr != "") {
					// the library refused that form of the packet (PINGRESP: "expecting 0 in one
					// byte") and ended the connection: a protocol error of the peer, nothing to demand
					key = "DEAD-END"
					return
				}
				wire := w.Srv.Take()
				// requests sent from inside a completion callback show up here
				var rest []*refcodec.Packet
				for _, pk := range wire {
					taken := false
					if pk.Type == refcodec.PUBLISH {
						for _, x := range w.Requests {
							if x.ID == 0 && x.Kind == "pub1" && x.Payload == string(pk.Payload) {
								x.ID = pk.ID
								taken = true
								break
							}
						}
					}
					if !taken {
						rest = append(rest, pk)
					}
				}
				if d := diffWire(rest, want); d != "" {
					vsched.Failf("after %s (request %d, id %d): %s", o, r.Idx, r.ID, d)
					return
				}
				if v := inFlightIDs(w); v != "" {
					vsched.Failf("after %s: %s", o, v)
					return
				}
			}
			if v := senderCheck(w, false); v != "" {
				vsched.Failf("after %s: %s", o, v)
				return
			}
		}
		if v := senderCheck(w, true); v != "" {
			vsched.Failf("%s", v)
			return
		}
		var ks []string
		for _, r := range w.Requests {
			if r.Acked && r.Completed == 1 {
				continue // finished requests do not influence the future
			}
			ks = append(ks, fmt.Sprintf("%s.%v.%v.%d", r.Kind, r.RecSent, r.Acked, r.Completed))
		}
		key = strings.Join(ks, ";") + fmt.Sprintf("|n=%d", len(w.Requests)%4)
	}
	var res *vsched.Result
	if trace {
		res = explore.Replay(body, nil)
	} else {
		res = explore.RunDefault(body)
	}
	if res.Status == vsched.StCrash {
		return "a library goroutine panicked: " + firstLine(res.Crash), "", steps
	}
	if len(res.Failures) > 0 {
		return res.Failures[0], "", steps
	}
	return "", key, steps
}

// C12: sender side (sequential histories here; the interleaving of the sending
// call with the arrival of the acknowledgement is explored by c12sched).
func C12(c *core.Ctx) {
	c.Rep.Bound = "HIST, client role: Publish QoS 0/1/2, Subscribe, Unsubscribe, Ping calls and peer acknowledgements (PUBACK, PUBREC, PUBCOMP, SUBACK, UNSUBACK for the oldest or the newest outstanding request, PINGRESP), BFS de-duplicated on the open-request states to depth 6 (quick) / 8 (thorough), every sequence to depth 4/5, and every sequence to that depth of API calls and acknowledgements whose remaining length is written in one byte more than necessary; SCHED: four outstanding requests acknowledged 2,1,4,3 in one segment; one API call racing its own acknowledgement, all interleavings with <= 2 (quick) / 3 (thorough) preemptions; broker role: two publishers with equal packet ids towards one non-acknowledging subscriber; every sequence to depth 5 (quick) / 6 (thorough) of QoS 1/2 publishes and the subscriber's PUBREC / repeated PUBREC / PUBCOMP / PUBACK for the oldest or newest delivery awaiting it"
	c.Rep.Rule = "every PUBREC is answered by PUBREL with the same id; each completion callback fires exactly once, never before the terminal acknowledgement was sent by the peer, and at quiescence has fired once that acknowledgement and those of all earlier requests of the same kind were sent; identifiers of requests simultaneously in flight are non-zero and pairwise distinct"
	ops := senderOpsPadded()
	nBase := len(senderOps())
	if c.Replay != nil {
		if strings.HasPrefix(c.Replay.Scenario, "sender") && !strings.HasPrefix(c.Replay.Scenario, "sender-race") && !strings.HasPrefix(c.Replay.Scenario, "sender-burst") {
			var hist []int
			json.Unmarshal(c.Replay.Input, &hist)
			fmt.Println("replay:", c.Replay.Scenario)
			v, _, _ := runSender(ops, hist, true)
			fmt.Println("  violation:", v)
			c.Rep.Scenarios++
			return
		}
		c12burst(c)
		c12sched(c)
		c12batches(c)
		c12sameObject(c)
		c12counterWrap(c)
	c12idReuseHeld(c)
		c12failedWrite(c)
		c12broker(c)
		c12brokerFlow(c)
		return
	}
	d1, d2 := 6, 4
	if c.Thorough() {
		d1, d2 = 8, 5
	}
	// third search: every sequence of API calls and acknowledgements with a padded length field
	var padSel []int
	for i, o := range ops {
		switch {
		case i >= nBase, o.kind == "api:pub1", o.kind == "api:pub2", o.kind == "api:sub", o.kind == "api:unsub", o.kind == "api:ping":
			padSel = append(padSel, i)
		}
	}
	for _, s := range []struct {
		name  string
		depth int
		dedup bool
		sel   []int
	}{{"sender", d1, true, nil}, {"sender-sequences", d2, false, nil}, {"sender-padded-acks", d2, false, padSel}} {
		s := s
		mapped := func(h []int) []int {
			if s.sel == nil {
				return h
			}
			out := make([]int, len(h))
			for i, k := range h {
				out[i] = s.sel[k]
			}
			return out
		}
		nops := nBase
		if s.sel != nil {
			nops = len(s.sel)
		}
		o := explore.HistOpts{Name: s.name, NOps: nops, OpName: func(i int) string { return ops[mapped([]int{i})[0]].String() }, MaxDepth: s.depth, Dedup: s.dedup,
			Shard: c.Shard, NShards: c.NShards, Deadline: c.Deadline,
			Run: func(h []int) (string, string, int) { return runSender(ops, mapped(h), false) }}
		st := explore.Hist(o)
		r := c.Rep
		r.Scenarios++
		r.States += int64(st.States)
		r.Transitions += int64(st.Transitions)
		r.Executions += int64(st.Histories)
		r.Evaluations += int64(st.Histories)
		r.Nontrivial += int64(st.States)
		if !st.Exhaustive {
			r.Exhaustive = false
			r.AddCap(st.CapHit)
		}
		r.Notes = append(r.Notes, fmt.Sprintf("%s: complete to depth %d (fixpoint=%v)", s.name, st.DepthDone, st.Fixpoint))
		r.Sample(map[string]interface{}{"search": s.name, "alphabet": len(ops), "depth": st.DepthDone, "states": st.States, "histories": st.Histories})
		if st.Violation != "" {
			in, _ := json.Marshal(mapped(st.Hist))
			if c.Violate("C12 "+s.name+" :: "+violClass(st.Violation), core.Replay{Scenario: s.name + ": " + explore.HistString(o, st.Hist), Message: st.Violation, Input: in}) {
				return
			}
		}
	}
	c12burst(c)
	if c.HasViolation() || c.Expired() {
		return
	}
	c12sched(c)
	c12batches(c)
	c12sameObject(c)
	c12counterWrap(c)
	c12idReuseHeld(c)
	c12failedWrite(c)
	c12broker(c)
	c12brokerFlow(c)
}

// c12burst: N requests of one kind outstanding at once (every N in 1..36, so the
// ack queue is exactly full at 16 and 32 and grows at 17 and 33), then all their
// acknowledgements, oldest or newest first: every completion fires exactly once.
func c12burst(c *core.Ctx) {
	if c.Replay != nil && !strings.HasPrefix(c.Replay.Scenario, "sender-burst") {
		return
	}
	ops := senderOps()
	idx := map[string]int{}
	for i, o := range ops {
		idx[o.kind] = i
	}
	n := 0
	for _, kind := range []string{"pub1", "pub2", "sub", "unsub", "ping"} {
		for _, done := range []int{0, 3, 5} {
			for inflight := 1; inflight <= 36; inflight++ {
				for _, order := range []string{"oldest", "newest"} {
					if kind == "ping" && order == "newest" {
						continue // PINGRESPs carry no identifier: each answers the oldest PINGREQ
					}
					// (after completed requests the queue's head is not 0: it grows while wrapped)
					if done > 0 && (kind == "ping" || (!c.Thorough() && (inflight < 15 || inflight > 20 || order == "newest"))) {
						continue
					}
					n++
					name := fmt.Sprintf("sender-burst: %d x %s outstanding, acknowledged %s first", inflight, kind, order)
					if done > 0 {
						name = fmt.Sprintf("sender-burst: %d x %s completed one by one, then %d outstanding, acknowledged %s first", done, kind, inflight, order)
					}
					if c.Replay != nil {
						if c.Replay.Scenario != name {
							continue
						}
					} else {
						if c.NShards > 1 && n%c.NShards != c.Shard {
							continue
						}
						if !c.Thorough() && (inflight > 33 || (inflight < 14 && inflight%4 != 0)) {
							continue
						}
					}
					if c.Expired() || c.HasViolation() {
						return
					}
					var hist []int
					acks := map[string][]string{"pub1": {"PUBACK"}, "pub2": {"PUBREC", "PUBCOMP"}, "sub": {"SUBACK"}, "unsub": {"UNSUBACK"}, "ping": {"PINGRESP"}}[kind]
					for i := 0; i < done; i++ {
						hist = append(hist, idx["api:"+kind])
						for _, a := range acks {
							hist = append(hist, idx["ack:"+a+":oldest"])
						}
					}
					for i := 0; i < inflight; i++ {
						hist = append(hist, idx["api:"+kind])
					}
					for _, a := range acks {
						for i := 0; i < inflight; i++ {
							hist = append(hist, idx["ack:"+a+":"+order])
						}
					}
					v, _, steps := runSender(ops, hist, c.Replay != nil)
					if c.Replay != nil {
						fmt.Println("replay:", name, "\n  violation:", v)
						c.Rep.Scenarios++
						return
					}
					c.Rep.Executions++
					c.Rep.Evaluations++
					c.Rep.States++
					c.Rep.Nontrivial++
					c.Rep.Transitions += int64(steps)
					if v != "" {
						if c.Violate("C12 sender-burst :: "+violClass(v), core.Replay{Scenario: name, Message: v}) {
							return
						}
					}
				}
			}
		}
	}
	c.Rep.Scenarios++
	c.Rep.Sample(map[string]interface{}{"search": "sender-burst", "kinds": []string{"pub1", "pub2", "sub", "unsub", "ping"}, "outstanding": "1..36 (quick: 4,8,12,14..33)", "orders": []string{"oldest", "newest"}})
}

func init() { core.Register("C12", C12) }
