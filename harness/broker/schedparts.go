package broker

import (
	"fmt"
	"strings"

	"github.com/mdzio/go-mqtt/verifrt/vsched"
	"verif/engine/explore"
	"verif/harness/core"
	"verif/models/refcodec"
)

// publishesOn returns the PUBLISH packets a client received on a topic.
func publishesOn(ps []*refcodec.Packet, topic string) []*refcodec.Packet {
	var out []*refcodec.Packet
	for _, p := range ps {
		if p.Type == refcodec.PUBLISH && string(p.Topic) == topic {
			out = append(out, p)
		}
	}
	return out
}

// c01sched: routing under concurrency.
func c01sched(c *core.Ctx) {
	dev := 1
	if c.Thorough() {
		dev = 2
	}
	type scen struct {
		name string
		body func()
	}
	var scs []scen
	// (a) two goroutines call Server.Publish on different topics at the same time
	scs = append(scs, scen{"concurrent Server.Publish on two topics", func() {
		t := newTD()
		a1 := t.connect("A1", 0, 65535, false)
		a2 := t.connect("A2", 0, 65535, false)
		b1 := t.connect("B1", 0, 65535, false)
		b2 := t.connect("B2", 0, 65535, false)
		t.subscribe("A1", "pa", 1)
		t.subscribe("A2", "pa", 0)
		t.subscribe("B1", "pb", 0)
		t.subscribe("B2", "pb", 2)
		if vsched.Failed() {
			return
		}
		vsched.Mark()
		vsched.Go("publish-a", func() { t.w.Svr.Publish(localPublish("pa", 1, false, "message-a")) })
		vsched.Go("publish-b", func() { t.w.Svr.Publish(localPublish("pb", 2, false, "message-b")) })
		t.settleExcept()
		want := map[string][3]interface{}{"A1": {"pa", "message-a", byte(1)}, "A2": {"pa", "message-a", byte(0)}, "B1": {"pb", "message-b", byte(0)}, "B2": {"pb", "message-b", byte(2)}}
		for _, cc := range []*tdConn{a1, a2, b1, b2} {
			w := want[cc.name]
			var got []*refcodec.Packet
			for _, p := range cc.rc.Take() {
				if p.Type == refcodec.PUBLISH {
					got = append(got, p)
				}
			}
			if len(got) != 1 {
				vsched.Failf("%s holds one subscription on %q and received %d messages: %s", cc.name, w[0], len(got), Describe(got))
				return
			}
			if string(got[0].Topic) != w[0].(string) || string(got[0].Payload) != w[1].(string) || got[0].QoS != w[2].(byte) {
				vsched.Failf("%s (subscribed to %q at QoS %d) received %s", cc.name, w[0], w[2], got[0])
				return
			}
		}
		if t.badStream() {
			return
		}
		vsched.Logf("ok")
	}})
	// (b) two network publishers while a third client subscribes; afterwards the
	// subscription is certainly held
	scs = append(scs, scen{"two publishers || subscribe, then a probe", func() {
		t := newTD()
		p1 := t.connect("P1", 0, 65535, false)
		p2 := t.connect("P2", 0, 65535, false)
		s := t.connect("S", 0, 65535, false)
		o := t.connect("O", 0, 65535, false)
		t.subscribe("O", "other", 1)
		if vsched.Failed() {
			return
		}
		vsched.Mark()
		p1.rc.Conn.Write(refcodec.Encode(&refcodec.Packet{Type: refcodec.PUBLISH, Topic: []byte("t"), QoS: 1, ID: 3, Payload: []byte("one")}))
		s.rc.Conn.Write(refcodec.Encode(&refcodec.Packet{Type: refcodec.SUBSCRIBE, ID: 9, Topics: [][]byte{[]byte("t")}, QoSs: []byte{1}}))
		p2.rc.Conn.Write(refcodec.Encode(&refcodec.Packet{Type: refcodec.PUBLISH, Topic: []byte("t"), QoS: 0, Payload: []byte("two")}))
		t.settleExcept()
		got := s.rc.Take()
		if !hasType(got, refcodec.SUBACK) {
			vsched.Failf("the SUBSCRIBE was not acknowledged: %s", Describe(got))
			return
		}
		seen := map[string]int{}
		for _, p := range publishesOn(got, "t") {
			seen[string(p.Payload)]++
			if (string(p.Payload) == "one" && p.QoS != 1) || (string(p.Payload) == "two" && p.QoS != 0) {
				vsched.Failf("S received %s at the wrong QoS", p)
				return
			}
		}
		for k, n := range seen {
			if n > 1 || (k != "one" && k != "two") {
				vsched.Failf("S received %q %d times", k, n)
				return
			}
		}
		if ps := publishesOn(o.rc.Take(), "t"); len(ps) > 0 {
			vsched.Failf("O, subscribed to another topic only, received %s", Describe(ps))
			return
		}
		p1.rc.Send(&refcodec.Packet{Type: refcodec.PUBLISH, Topic: []byte("t"), QoS: 1, ID: 4, Payload: []byte("probe")})
		t.settleExcept()
		n := 0
		for _, p := range publishesOn(s.rc.Take(), "t") {
			if string(p.Payload) == "probe" && p.QoS == 1 {
				n++
			}
		}
		if n != 1 {
			vsched.Failf("after the SUBACK a publish on the topic was delivered %d times", n)
			return
		}
		vsched.Logf("ok %d", len(seen))
	}})
	// (c) publish || unsubscribe, then a probe that must not arrive
	scs = append(scs, scen{"publish || unsubscribe, then a probe", func() {
		t := newTD()
		p1 := t.connect("P1", 0, 65535, false)
		s := t.connect("S", 0, 65535, false)
		k := t.connect("K", 0, 65535, false)
		t.subscribe("S", "t", 1)
		t.subscribe("K", "t", 0)
		if vsched.Failed() {
			return
		}
		vsched.Mark()
		p1.rc.Conn.Write(refcodec.Encode(&refcodec.Packet{Type: refcodec.PUBLISH, Topic: []byte("t"), QoS: 1, ID: 3, Payload: []byte("one")}))
		s.rc.Conn.Write(refcodec.Encode(&refcodec.Packet{Type: refcodec.UNSUBSCRIBE, ID: 9, Topics: [][]byte{[]byte("t")}}))
		t.settleExcept()
		got := s.rc.Take()
		if !hasType(got, refcodec.UNSUBACK) {
			vsched.Failf("the UNSUBSCRIBE was not acknowledged: %s", Describe(got))
			return
		}
		if n := len(publishesOn(got, "t")); n > 1 {
			vsched.Failf("S received the message %d times", n)
			return
		}
		if n := len(publishesOn(k.rc.Take(), "t")); n != 1 {
			vsched.Failf("K keeps its subscription and received the message %d times", n)
			return
		}
		p1.rc.Send(&refcodec.Packet{Type: refcodec.PUBLISH, Topic: []byte("t"), QoS: 0, Payload: []byte("probe")})
		t.settleExcept()
		if ps := publishesOn(s.rc.Take(), "t"); len(ps) > 0 {
			vsched.Failf("after the UNSUBACK S still received %s", Describe(ps))
			return
		}
		if n := len(publishesOn(k.rc.Take(), "t")); n != 1 {
			vsched.Failf("K received the probe %d times", n)
			return
		}
		if t.badStream() {
			return
		}
		vsched.Logf("ok")
	}})
	// (d) a subscriber that precedes a healthy one in the subscriber list is being torn
	// down while messages are fanned out: the healthy one still gets every message
	for _, q := range []byte{0, 1} {
		q := q
		scs = append(scs, scen{fmt.Sprintf("fan-out past a subscriber that is being torn down (QoS %d)", q), func() {
			t := newTD()
			p1 := t.connect("P1", 0, 65535, false)
			d := t.connect("D", 0, 65535, false)
			s := t.connect("S", 0, 65535, false)
			t.subscribe("D", "t", q)
			t.subscribe("S", "t", q)
			if vsched.Failed() {
				return
			}
			vsched.Mark()
			for k := 0; k < 3; k++ {
				p1.rc.Conn.Write(refcodec.Encode(&refcodec.Packet{Type: refcodec.PUBLISH, Topic: []byte("t"), QoS: q, ID: uint16(30 + k), Payload: []byte(fmt.Sprintf("n%d", k))}))
				if k == 0 {
					d.rc.Cut()
					d.ended = true
				}
			}
			t.settleExcept()
			got := publishesOn(s.rc.Take(), "t")
			if len(got) != 3 {
				vsched.Failf("S holds a matching subscription and received %d of 3 messages while another subscriber was torn down: %s", len(got), Describe(got))
				return
			}
			for k, pk := range got {
				if string(pk.Payload) != fmt.Sprintf("n%d", k) || pk.QoS != q {
					vsched.Failf("S received %s where n%d at QoS %d was due", pk, k, q)
					return
				}
			}
			if t.badStream() {
				return
			}
			vsched.Logf("ok")
		}})
	}
	for _, sc := range scs {
		if c.Expired() || c.HasViolation() {
			return
		}
		sc := sc
		st := c.RunSched(explore.SchedOpts{Name: sc.name, Bound: -1, DevBound: dev, Cache: true, UseMark: true, Body: sc.body, MaxPoints: 100000, Check: schedCheck, Shard: c.Shard, NShards: c.NShards},
			func(v *explore.Violation) string { return "C01 " + sc.name + " :: " + violClass(v.Message) })
		if st != nil && c.Shard == 0 {
			c.Rep.Sample(map[string]interface{}{"scenario": sc.name, "deviations": dev, "executions": st.Executions, "states": st.States})
		}
	}
}

// c08sched: retained updates concurrent to new subscriptions.
func c08sched(c *core.Ctx) { c08schedFor(c, "C08", "") }

// c08schedFor runs the retained-message scenarios (those whose name contains only, if
// given) for a property: C17 shares the ones in which a connection's stream is at stake.
func c08schedFor(c *core.Ctx, prop, only string) {
	dev := 1
	if c.Thorough() {
		dev = 2
	}
	type scen struct {
		name string
		body func()
	}
	old := "old-retained-value-" + big(40, 3)
	checkRetained := func(who string, ps []*refcodec.Packet, allowed map[string]bool) bool {
		for _, p := range publishesOn(ps, "r") {
			if !allowed[string(p.Payload)] {
				vsched.Failf("%s received a message on the retained topic whose payload is neither the old nor the new one: %s", who, p)
				return false
			}
		}
		return true
	}
	var scs []scen
	// (which connection is the older one decides which of them the default schedule serves first)
	for _, q := range []byte{0, 1, 2, 3} {
		q := q
		sFirst := q >= 2
		q = q % 2
		nm := fmt.Sprintf("retained replace || subscribe (QoS %d)", q)
		if sFirst {
			nm = fmt.Sprintf("retained replace || subscribe (QoS %d, the subscriber's connection is the older one)", q)
		}
		scs = append(scs, scen{nm, func() {
			t := newTD()
			var p, s *tdConn
			if sFirst {
				s = t.connect("S", 0, 65535, false)
				p = t.connect("P", 0, 65535, false)
			} else {
				p = t.connect("P", 0, 65535, false)
				s = t.connect("S", 0, 65535, false)
			}
			p.rc.Send(&refcodec.Packet{Type: refcodec.PUBLISH, Topic: []byte("r"), Retain: true, QoS: 1, ID: 1, Payload: []byte(old)})
			t.settleExcept()
			if vsched.Failed() {
				return
			}
			vsched.Mark()
			p.rc.Conn.Write(refcodec.Encode(&refcodec.Packet{Type: refcodec.PUBLISH, Topic: []byte("r"), Retain: true, QoS: q, ID: 2, Payload: []byte("new")}))
			s.rc.Conn.Write(refcodec.Encode(&refcodec.Packet{Type: refcodec.SUBSCRIBE, ID: 5, Topics: [][]byte{[]byte("r")}, QoSs: []byte{1}}))
			t.settleExcept()
			got := s.rc.Take()
			if !hasType(got, refcodec.SUBACK) {
				vsched.Failf("the SUBSCRIBE was not acknowledged: %s", Describe(got))
				return
			}
			if !checkRetained("S", got, map[string]bool{old: true, "new": true}) {
				return
			}
			sawNew, nRetained := false, 0
			for _, pk := range publishesOn(got, "r") {
				if string(pk.Payload) == "new" {
					sawNew = true
				}
				if pk.Retain {
					nRetained++
				}
			}
			if nRetained != 1 {
				vsched.Failf("the new subscription received %d messages with the retain flag, expected exactly one (the old or the new retained message): %s", nRetained, Describe(got))
				return
			}
			if !sawNew {
				vsched.Failf("the subscriber was acknowledged, got the old retained message, and never saw the update that replaced it: %s", Describe(got))
				return
			}
			// a later subscription sees exactly the new retained message
			z := t.connect("Z", 0, 65535, false)
			z.rc.Send(&refcodec.Packet{Type: refcodec.SUBSCRIBE, ID: 6, Topics: [][]byte{[]byte("r")}, QoSs: []byte{1}})
			t.settleExcept()
			zr := publishesOn(z.rc.Take(), "r")
			if len(zr) != 1 || string(zr[0].Payload) != "new" || !zr[0].Retain || zr[0].QoS != q {
				vsched.Failf("a later subscription received %s, expected the new retained message with retain=1 at QoS %d", Describe(zr), q)
				return
			}
			if t.badStream() {
				return
			}
			vsched.Logf("ok")
		}})
	}
	// the retained publish is held up by a stalled subscriber; a new subscription arrives meanwhile
	scs = append(scs, scen{"retained publish held up by a stalled subscriber, new subscription meanwhile", func() {
		t := newTD()
		p := t.connect("P", 0, 65535, false)
		f := t.connect("F", 0, 65535, false)
		x := t.connect("X", 256, 65535, false)
		s := t.connect("S", 0, 65535, false)
		t.subscribe("X", "fill", 0)
		t.subscribe("X", "r", 0)
		p.rc.Send(&refcodec.Packet{Type: refcodec.PUBLISH, Topic: []byte("r"), Retain: true, QoS: 1, ID: 1, Payload: []byte(old)})
		t.settleExcept()
		// fill X's outgoing ring (X does not read)
		for k := 0; k < 2; k++ {
			f.rc.Send(bigPub("fill", 8000, byte(k)))
			t.settleExcept()
		}
		if vsched.Failed() {
			return
		}
		vsched.Mark()
		// P's retained update is forwarded to X first, where there is no room
		p.rc.Send(&refcodec.Packet{Type: refcodec.PUBLISH, Topic: []byte("r"), Retain: true, QoS: 1, ID: 2, Payload: []byte("new-" + big(7000, 4))})
		t.settleExcept()
		s.rc.Send(&refcodec.Packet{Type: refcodec.SUBSCRIBE, ID: 5, Topics: [][]byte{[]byte("r")}, QoSs: []byte{1}})
		t.settleExcept()
		x.rc.Cut()
		x.ended = true
		t.settleExcept()
		got := s.rc.Take()
		if !hasType(got, refcodec.SUBACK) {
			vsched.Failf("the SUBSCRIBE was not acknowledged: %s", Describe(got))
			return
		}
		sawNew := false
		for _, pk := range publishesOn(got, "r") {
			if string(pk.Payload) == "new-"+big(7000, 4) {
				sawNew = true
			} else if string(pk.Payload) != old {
				vsched.Failf("S received a corrupted message on the retained topic: %s", pk)
				return
			}
		}
		if !sawNew {
			vsched.Failf("the subscriber was acknowledged while a retained update was being delivered and never saw that update (neither as retained message nor forwarded): %s", Describe(got))
			return
		}
		if t.badStream() {
			return
		}
		vsched.Logf("ok")
	}})
	// the new subscriber's own outgoing ring is full: its processor has collected the
	// retained message and waits for room for the SUBACK when the update arrives
	// (at QoS 1 the subscriber is sent a copy with an identifier of its own; at QoS 0 the stored
	// message object itself is what its processor holds while it waits)
	for _, rq := range []byte{1, 0} {
		rq := rq
		scs = append(scs, scen{fmt.Sprintf("subscriber with a full outgoing ring subscribes, retained update while its SUBACK waits (QoS %d)", rq), func() {
			t := newTD()
			p := t.connect("P", 0, 65535, false)
			f := t.connect("F", 0, 65535, false)
			s := t.connect("S", 256, 65535, false)
			t.subscribe("S", "fill", 0)
			p.rc.Send(&refcodec.Packet{Type: refcodec.PUBLISH, Topic: []byte("r"), Retain: true, QoS: rq, ID: 1, Payload: []byte(old)})
			t.settleExcept()
			for k := 0; k < 2; k++ {
				f.rc.Send(bigPub("fill", 8000, byte(k)))
				t.settleExcept()
			}
			// 16018 of 16384 bytes are taken; 359 more leave room for the SUBACK but not
			// for the retained message
			f.rc.Send(bigPub("fill", 350, 9))
			t.settleExcept()
			if vsched.Failed() {
				return
			}
			vsched.Mark()
			s.rc.Send(&refcodec.Packet{Type: refcodec.SUBSCRIBE, ID: 5, Topics: [][]byte{[]byte("r")}, QoSs: []byte{rq}})
			t.settleExcept()
			p.rc.Send(&refcodec.Packet{Type: refcodec.PUBLISH, Topic: []byte("r"), Retain: true, QoS: rq, ID: 2, Payload: []byte("new")})
			t.settleExcept()
			// now the subscriber reads (its pipe holds 256 bytes at a time)
			s.noRead = false
			for i := 0; i < 8; i++ {
				t.settleExcept()
			}
			if t.badStream() {
				return
			}
			got := s.rc.Take()
			if !hasType(got, refcodec.SUBACK) {
				vsched.Failf("the SUBSCRIBE was not acknowledged: %s", Describe(got))
				return
			}
			if !checkRetained("S", got, map[string]bool{old: true, "new": true}) {
				return
			}
			sawNew, nRetained := false, 0
			for _, pk := range publishesOn(got, "r") {
				if string(pk.Payload) == "new" {
					sawNew = true
				}
				if pk.Retain {
					nRetained++
				}
			}
			if nRetained != 1 || !sawNew {
				vsched.Failf("the new subscription received %d messages with the retain flag and saw the update: %v: %s", nRetained, sawNew, Describe(publishesOn(got, "r")))
				return
			}
			// the subscription was in the tree when the update was accepted: it is forwarded, too
			if n := len(publishesOn(got, "r")); n != 2 {
				vsched.Failf("the subscriber (subscribed before the update was accepted) received %d messages on the retained topic, expected the retained one and the forwarded update: %s", n, Describe(publishesOn(got, "r")))
				return
			}
			if t.badStream() {
				return
			}
			vsched.Logf("ok")
		}})
	}
	// the retained publish is forwarded to a subscriber that is being torn down
	scs = append(scs, scen{"retained publish || teardown of an existing subscriber", func() {
		t := newTD()
		p := t.connect("P", 0, 65535, false)
		s1 := t.connect("S1", 0, 65535, false)
		t.subscribe("S1", "r", 1)
		if vsched.Failed() {
			return
		}
		vsched.Mark()
		s1.rc.Cut()
		s1.ended = true
		p.rc.Conn.Write(refcodec.Encode(&refcodec.Packet{Type: refcodec.PUBLISH, Topic: []byte("r"), Retain: true, QoS: 1, ID: 2, Payload: []byte("kept")}))
		t.settleExcept()
		z := t.connect("Z", 0, 65535, false)
		z.rc.Send(&refcodec.Packet{Type: refcodec.SUBSCRIBE, ID: 6, Topics: [][]byte{[]byte("r")}, QoSs: []byte{1}})
		t.settleExcept()
		zr := publishesOn(z.rc.Take(), "r")
		if len(zr) != 1 || string(zr[0].Payload) != "kept" || !zr[0].Retain || zr[0].QoS != 1 {
			vsched.Failf("a later subscription received %s, expected the retained message with retain=1 at QoS 1", Describe(zr))
			return
		}
		if t.badStream() {
			return
		}
		vsched.Logf("ok")
	}})
	for si, sc := range scs {
		if c.Expired() || c.HasViolation() {
			return
		}
		sc := sc
		if only != "" && !strings.Contains(sc.name, only) {
			continue
		}
		d := dev
		if si < 4 && d < 2 {
			// the four small "retained replace || subscribe" scenarios: the window between
			// collecting the retained message and encoding it needs two deviations
			d = 2
		}
		st := c.RunSched(explore.SchedOpts{Name: sc.name, Bound: -1, DevBound: d, Cache: true, UseMark: true, Body: sc.body, MaxPoints: 100000, Check: schedCheck, Shard: c.Shard, NShards: c.NShards},
			func(v *explore.Violation) string { return prop + " " + sc.name + " :: " + violClass(v.Message) })
		if st != nil && c.Shard == 0 {
			c.Rep.Sample(map[string]interface{}{"scenario": sc.name, "deviations": dev, "executions": st.Executions, "states": st.States})
		}
	}
}
