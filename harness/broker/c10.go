package broker

import "verif/harness/core"

// C10: clean and persistent sessions.
func C10(c *core.Ctx) {
	c.Rep.Bound = "HIST: connect(CleanSession 0/1) / subscribe / unsubscribe / disconnect / cut over two client ids and two connections plus a witness publisher, BFS de-duplicated on the model state, depth 6 (quick) / 8 (thorough); a second run with the server QoS cap at 1; every sequence without de-duplication to depth 8 (quick) / 10 (thorough) over a one-client alphabet (connect clean/persistent, subscribe, unsubscribe, disconnect, cut, probe); every sequence to depth 5 (quick) / 7 (thorough) over connections of one client id whose CONNECTs differ in user name, password, keep-alive or will"
	c.Rep.Rule = "after every action the CONNACK (SessionPresent), SUBACK and the deliveries of probe publishes are compared with the session model; distinct = canonical model states (stored sessions with their filters and QoS, live connections)"
	px := func(client, cid string, clean bool) Action {
		return Action{Kind: "connect", Client: client, Opts: ConnectOpts{ClientID: cid, Clean: clean, KeepAlive: 600}}
	}
	ops := []Action{
		px("X", "a", true), px("X", "a", false), px("X", "b", false),
		px("Y", "b", true), px("Y", "b", false), px("Y", "a", false),
		sub("X", 1, "t/1", 1), sub("X", 2, "t/2", 2), unsub("X", 3, "t/1"), sub("X", 4, "t/+", 0),
		sub("Y", 5, "t/1", 0), unsub("Y", 6, "t/1"),
		sub("X", 7, "t/1", 3), // out-of-range QoS: refused with 0x80, what is held stays as it is
		{Kind: "disconnect", Client: "X"}, {Kind: "cut", Client: "X"}, {Kind: "disconnect", Client: "Y"}, {Kind: "cut", Client: "Y"},
		pub("W", "t/1", 2, 0, "probe1"), pub("W", "t/2", 1, 41, "probe2"),
	}
	ops[17] = Action{Kind: "pub2", Client: "W", Topic: "t/1", QoS: 2, ID: 40, Payload: "probe1"}
	depth := 8
	if c.Thorough() {
		depth = 11
	}
	comps := map[string]bool{"acks": true, "route": true, "closed": true, "stream": true}
	for _, cfg := range []Config{{}, {MaxQos: 1, MaxQosSet: true}} {
		name := "sessions"
		if cfg.MaxQosSet {
			name = "sessions-maxqos1"
		}
		spec := &HistSpec{Name: name, Cfg: cfg, Ops: ops, Depth: depth, Dedup: true, Comps: comps,
			Prefix: []Action{px("W", "w", true)}}
		spec.Search(c)
		if c.HasViolation() || c.Expired() {
			return
		}
		if !c.Thorough() {
			break
		}
	}
	if c.HasViolation() || c.Expired() {
		return
	}
	// every sequence without de-duplication over a reduced alphabet (one client id):
	// state the implementation keeps outside what the state key shows (caches,
	// flags in the session object) cannot hide behind an equal key here
	seqOps := []Action{
		px("X", "a", false), px("X", "a", true),
		sub("X", 1, "t/1", 1), unsub("X", 3, "t/1"),
		{Kind: "disconnect", Client: "X"}, {Kind: "cut", Client: "X"},
		pub("W", "t/1", 1, 41, "probe"),
	}
	sd := 8
	if c.Thorough() {
		sd = 10
	}
	seq := &HistSpec{Name: "sessions-sequences", Ops: seqOps, Depth: sd, Dedup: false, Comps: comps, Prefix: []Action{px("W", "w", true)}}
	seq.Search(c)
	if c.HasViolation() || c.Expired() {
		return
	}
	// the session is keyed by the client identifier ONLY: connections of one client id whose
	// CONNECT packets differ in one other field each (user name, password, keep-alive, will)
	// resume the same session
	pf := func(clean bool, user, pass string, ka uint16, will *Will) Action {
		return Action{Kind: "connect", Client: "X", Opts: ConnectOpts{ClientID: "a", Clean: clean, KeepAlive: ka, User: user, Pass: pass, Will: will}}
	}
	fieldOps := []Action{
		pf(false, "", "", 600, nil), pf(false, "u1", "p1", 600, nil), pf(false, "u2", "p1", 600, nil), pf(false, "u1", "p2", 600, nil),
		pf(false, "", "", 30, nil), pf(false, "", "", 600, &Will{Topic: "w/x", Payload: "gone", QoS: 1}), pf(true, "u1", "p1", 600, nil),
		sub("X", 1, "t/1", 1),
		{Kind: "disconnect", Client: "X"}, {Kind: "cut", Client: "X"},
		pub("W", "t/1", 1, 41, "probe"),
	}
	fd := 5
	if c.Thorough() {
		fd = 7
	}
	fseq := &HistSpec{Name: "sessions-connect-fields", Ops: fieldOps, Depth: fd, Dedup: false, Comps: comps, Prefix: []Action{px("W", "w", true)}}
	fseq.Search(c)
	if c.HasViolation() || c.Expired() {
		return
	}
	// what is kept of a session must survive being overwritten in the incoming ring:
	// 24 KiB of the client's own traffic between its subscriptions and its end
	if c.NShards <= 1 || c.Shard == 0 {
		for _, end := range []Action{{Kind: "disconnect", Client: "X"}, {Kind: "cut", Client: "X"}} {
			hist := []Action{px("X", "a", false), sub("X", 1, "t/1", 1), sub("X", 2, "t/2", 2)}
			hist = append(hist, flood("X")...)
			hist = append(hist, ops[17], end, ops[17], px("X", "a", false), ops[17], ops[18], unsub("X", 3, "t/1"), ops[17])
			fs := &HistSpec{Name: "sessions-flooded", Comps: comps, Prefix: []Action{px("W", "w", true)}}
			r := fs.RunHistory(hist, false)
			c.Rep.Evaluations++
			c.Rep.Executions++
			c.Rep.States++
			c.Rep.Nontrivial++
			c.Rep.Transitions += int64(r.Steps)
			if r.Violation != "" {
				rr := fs.RunHistory(hist, true)
				if c.Violate("C10 sessions-flooded :: "+violClass(r.Violation), core.Replay{Scenario: "sessions-flooded: subscriptions, 24 KiB of the client's own traffic, " + end.String() + ", resumption", Message: r.Violation, Log: tailS(rr.Trace, 30), Crash: rr.Crash}) {
					return
				}
			}
		}
		c.Rep.Scenarios++
	}
	c10sched(c)
}

func init() { core.Register("C10", C10) }
