// Package broker drives a real service.Server (and library Clients) over the
// in-memory network under the cooperative scheduler.
package broker

import (
	"fmt"
	"net"
	"strings"
	"time"

	"github.com/mdzio/go-mqtt/auth"
	"github.com/mdzio/go-mqtt/message"
	"github.com/mdzio/go-mqtt/service"
	"github.com/mdzio/go-mqtt/sessions"
	"github.com/mdzio/go-mqtt/topics"
	"github.com/mdzio/go-mqtt/verifrt/vnet"
	"github.com/mdzio/go-mqtt/verifrt/vsched"
	"verif/models/refcodec"
)

// Config of a world.
type Config struct {
	BufferSize     int64
	Authenticator  string // "" = mockSuccess
	KeepAlive      int
	ConnectTimeout int
	MaxQos         byte // topics.MaxQosAllowed, 0 = leave at 2
	MaxQosSet      bool
	NoServer       bool
}

// World is one broker with its raw clients, rebuilt for every execution.
type World struct {
	Cfg     Config
	Svr     *service.Server
	Addr    string
	Clients []*RawClient
	served  bool
	SrvErr  error
	SrvDone bool
	// the providers the server uses (for state keys)
	Topics   *topics.MemTopics
	Sessions *sessions.MemProvider
	wsLn     net.Listener // the websocket side (ws.go)
}

// ImplKey renders the implementation-side state the model cannot see: the
// session store, the subscription tree and the retained tree.  De-duplicating
// histories on the model state alone would merge a history that left stale
// entries behind with one that did not.
func (w *World) ImplKey() string {
	return w.Sessions.VerifDump() + "#" + w.Topics.VerifDump()
}

const addr = "broker:1883"

// SelectiveAuth is an authenticator registered by the harness: it rejects the
// user "evil", accepts the user "admin" with the password "secret" only, and
// accepts everybody else.
const SelectiveAuth = "verifSelective"

type selectiveAuth struct{}

func selectiveOK(user, pass string) bool {
	switch user {
	case "evil":
		return false
	case "admin":
		return pass == "secret"
	}
	return true
}

func (selectiveAuth) Authenticate(id string, cred interface{}) error {
	pw, _ := cred.(string)
	if !selectiveOK(id, pw) {
		return auth.ErrAuthFailure
	}
	return nil
}

// NewWorld resets process-global state, starts the server's accept loop in its
// own thread and waits until it is parked in Accept.
func NewWorld(cfg Config) *World {
	service.VerifResetGlobals()
	message.VerifSetPacketIDCounter(0)
	topics.VerifResetProviders()
	auth.Unregister(SelectiveAuth)
	auth.Register(SelectiveAuth, selectiveAuth{})
	topics.Unregister("vt")
	sessions.Unregister("vs")
	tp, sp := topics.NewMemProvider(), sessions.NewMemProvider()
	topics.Register("vt", tp)
	sessions.Register("vs", sp)
	if cfg.MaxQosSet {
		topics.MaxQosAllowed = cfg.MaxQos
	} else {
		topics.MaxQosAllowed = 2
	}
	if cfg.BufferSize == 0 {
		cfg.BufferSize = 16384
	}
	w := &World{Cfg: cfg, Addr: addr, Topics: tp, Sessions: sp}
	if cfg.NoServer {
		return w
	}
	w.Svr = &service.Server{
		KeepAlive:        cfg.KeepAlive,
		ConnectTimeout:   cfg.ConnectTimeout,
		BufferSize:       cfg.BufferSize,
		Authenticator:    cfg.Authenticator,
		SessionsProvider: "vs",
		TopicsProvider:   "vt",
	}
	vsched.Go("server", func() {
		w.SrvErr = w.Svr.ListenAndServe("tcp://" + addr)
		w.SrvDone = true
	})
	vsched.Quiesce()
	return w
}

// RawClient owns the client end of a connection and speaks bytes produced and
// parsed by the reference codec only.
type RawClient struct {
	Name    string
	W       *World
	Conn    net.Conn
	vc      *vnet.Conn
	rx      []byte
	Packets []*refcodec.Packet // everything received, in order
	seen    int                // how many of Packets were handed out by Take
	EOF     bool               // the broker closed the connection
	ReadErr string
	Bad     string // the stream could not be parsed as whole packets
	AutoAck bool   // answer deliveries (PUBACK / PUBREC / PUBCOMP)
	Dead    bool   // we closed it
	pendRel map[uint16]bool
	SentAck int
	OnSend  func() // told about every transmission (keep-alive model)
}

// Dial opens a new connection.
func (w *World) Dial(name string) (*RawClient, error) {
	c, err := vnet.Dial("tcp", addr)
	if err != nil {
		return nil, err
	}
	rc := &RawClient{Name: name, W: w, Conn: c, vc: c.(*vnet.Conn), AutoAck: true, pendRel: map[uint16]bool{}}
	w.Clients = append(w.Clients, rc)
	return rc, nil
}

// Send writes one packet.
func (c *RawClient) Send(p *refcodec.Packet) error {
	return c.SendRaw(refcodec.Encode(p))
}

// SendRaw writes bytes.
func (c *RawClient) SendRaw(b []byte) error {
	if c.Dead {
		return fmt.Errorf("closed")
	}
	if c.OnSend != nil {
		c.OnSend()
	}
	_, err := c.Conn.Write(b)
	return err
}

// Cut closes the connection without DISCONNECT.
func (c *RawClient) Cut() {
	if !c.Dead {
		c.Dead = true
		c.Conn.Close()
	}
}

// pump moves everything that has arrived into Packets (never blocks: it only
// reads when the scheduler-side pipe has bytes or the peer has closed).
func (c *RawClient) pump() bool {
	progress := false
	buf := make([]byte, 65536)
	for !c.Dead && !c.EOF && c.ReadErr == "" {
		if c.vc.Pending() == 0 && !c.vc.PeerClosed() {
			break
		}
		n, err := c.Conn.Read(buf)
		if n > 0 {
			c.rx = append(c.rx, buf[:n]...)
			progress = true
		}
		if err != nil {
			if err.Error() == "EOF" {
				c.EOF = true
			} else {
				c.ReadErr = err.Error()
			}
			progress = true
			break
		}
	}
	if c.Bad == "" && len(c.rx) > 0 {
		pkts, rest, err := refcodec.Split(c.rx)
		if err != nil {
			c.Bad = fmt.Sprintf("stream to %s is not a sequence of well-formed packets at %x", c.Name, head(rest, 16))
		}
		c.rx = append([]byte(nil), rest...)
		for _, p := range pkts {
			c.Packets = append(c.Packets, p)
			if why := notFromServer(p); why != "" && c.Name != "server" && c.Bad == "" {
				c.Bad = fmt.Sprintf("the broker sent %s a packet no MQTT 3.1.1 server may send (%s): %s", c.Name, why, p)
			}
			if c.AutoAck && !c.Dead {
				switch {
				case p.Type == refcodec.PUBLISH && p.QoS == 1:
					c.Send(&refcodec.Packet{Type: refcodec.PUBACK, ID: p.ID})
					c.SentAck++
				case p.Type == refcodec.PUBLISH && p.QoS == 2:
					c.Send(&refcodec.Packet{Type: refcodec.PUBREC, ID: p.ID})
					c.SentAck++
				case p.Type == refcodec.PUBREL:
					c.Send(&refcodec.Packet{Type: refcodec.PUBCOMP, ID: p.ID})
					c.SentAck++
				}
			}
		}
	}
	return progress
}

func head(b []byte, n int) []byte {
	if len(b) > n {
		return b[:n]
	}
	return b
}

// Take returns the packets received since the last Take.
func (c *RawClient) Take() []*refcodec.Packet {
	out := c.Packets[c.seen:]
	c.seen = len(c.Packets)
	return out
}

// Settle lets the broker run until nothing moves any more: quiescence, then
// drain every client (which may send acknowledgements), and again.
func (w *World) Settle() {
	for i := 0; i < 64; i++ {
		vsched.Quiesce()
		progress := false
		for _, c := range w.Clients {
			if c.pump() {
				progress = true
			}
		}
		if !progress {
			return
		}
	}
	vsched.Failf("harness: the system does not settle")
}

// Advance moves the virtual clock and settles.
func (w *World) Advance(d time.Duration) {
	vsched.Advance(d)
	w.Settle()
}

// LibThreadsAlive lists library threads that have not finished.
func LibThreadsAlive() []vsched.Parked {
	var out []vsched.Parked
	for _, p := range vsched.Alive() {
		if p.Lib {
			out = append(out, p)
		}
	}
	return out
}

// ConnThreads returns the library threads belonging to connection handling
// (everything except the accept loop).
func ConnThreads() []vsched.Parked {
	var out []vsched.Parked
	for _, p := range LibThreadsAlive() {
		out = append(out, p)
	}
	return out
}

// Describe renders packets compactly.
func Describe(ps []*refcodec.Packet) string {
	var s []string
	for _, p := range ps {
		s = append(s, p.String())
	}
	return "[" + strings.Join(s, " ") + "]"
}

// Connect helpers -----------------------------------------------------------

// ConnectOpts are the fields of a CONNECT a scenario varies.
type ConnectOpts struct {
	ClientID  string
	Clean     bool
	KeepAlive uint16
	Will      *Will
	User      string
	Pass      string
	Level     byte
}

// Will parameters.
type Will struct {
	Topic   string
	Payload string
	QoS     byte
	Retain  bool
}

// ConnectPacket builds the CONNECT.
func ConnectPacket(o ConnectOpts) *refcodec.Packet {
	p := &refcodec.Packet{Type: refcodec.CONNECT, ProtoName: "MQTT", Level: 4, CleanSess: o.Clean, KeepAlive: o.KeepAlive, ClientID: []byte(o.ClientID)}
	if o.Level == 3 {
		p.ProtoName, p.Level = "MQIsdp", 3
	}
	if o.Will != nil {
		p.Will, p.WillTopic, p.WillMessage, p.WillQoS, p.WillRetain = true, []byte(o.Will.Topic), []byte(o.Will.Payload), o.Will.QoS, o.Will.Retain
	}
	if o.User != "" {
		p.HasUser, p.User = true, []byte(o.User)
		if o.Pass != "" {
			p.HasPass, p.Pass = true, []byte(o.Pass)
		}
	}
	return p
}

// notFromServer: why a packet is not one a conforming server sends to a client.
func notFromServer(p *refcodec.Packet) string {
	switch p.Type {
	case refcodec.CONNACK, refcodec.PUBACK, refcodec.PUBREC, refcodec.PUBREL, refcodec.PUBCOMP, refcodec.SUBACK, refcodec.UNSUBACK, refcodec.PINGRESP:
	case refcodec.PUBLISH:
		if len(p.Topic) == 0 {
			return "empty topic name"
		}
		for _, b := range p.Topic {
			if b == '+' || b == '#' || b == 0 {
				return "wildcard or NUL in the topic name"
			}
		}
		if p.Dup {
			// the broker never sends anything twice on one connection, and the flag of an
			// incoming PUBLISH is not to be propagated [MQTT-3.3.1-3]
			return "DUP flag set on a first transmission"
		}
	default:
		return "packet type a client sends"
	}
	// (a remaining length written in more bytes than necessary is not held against the
	// broker: it forwards a publish it accepted in that form byte for byte, and no property
	// says otherwise)
	q := *p
	q.NonMinimalLength = false
	switch q.Type {
	case refcodec.PUBACK, refcodec.PUBREC, refcodec.PUBCOMP, refcodec.UNSUBACK, refcodec.SUBACK:
		// the identifier of an acknowledgement is the one the client chose, 0 included
		if q.ID == 0 {
			q.ID = 1
		}
	}
	if !refcodec.WellFormed(&q) {
		return "malformed"
	}
	return ""
}
