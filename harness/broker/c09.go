package broker

import (
	"time"

	"verif/harness/core"
)

// C09: the will.
func C09(c *core.Ctx) {
	c.Rep.Bound = "HIST: connect variants (no will / will with QoS 0-2, retain, two topics, empty/short/200-byte payload, CleanSession 0/1) x end causes (DISCONNECT, cut, garbage packet, keep-alive expiry in virtual time) x reconnects of one client id, with a witness subscribed to '#' and a late subscriber; BFS de-duplicated on model + implementation state, depth 6 (quick) / 8 (thorough), and every sequence without de-duplication to depth 4 (quick) / 5 (thorough); ENUM: every hostile byte stream of C05 (corpus packets, truncations, single-byte corruptions; alone and behind a PUBLISH) as the last bytes of a connection with a will, then a cut: never two wills, exactly one unless a DISCONNECT may have been processed, none after a well-formed DISCONNECT behind ordinary packets; SCHED: a client with a will (QoS 0 / QoS 1 retained) sends its last bytes (DISCONNECT, PUBLISH+DISCONNECT in one or two segments, PUBLISH only, PUBLISH + half a packet, PUBLISH + reserved type) and closes at once, every schedule of the broker goroutines up to 2 (quick) / 3 (thorough) deviations"
	c.Rep.Rule = "after every action the witness must have received exactly the will of the connection that just ended abnormally (topic, payload, QoS, retain as in that connection's CONNECT) and nothing after a DISCONNECT; retained wills must reach a later subscriber"
	cx := func(clean bool, w *Will) Action {
		return Action{Kind: "connect", Client: "X", Opts: ConnectOpts{ClientID: "a", Clean: clean, KeepAlive: 10, Will: w}}
	}
	ops := []Action{
		cx(true, &Will{"w", "bye1", 0, false}),
		cx(false, &Will{"w/x", big(200, 9), 1, true}),
		cx(false, &Will{"w", "", 2, false}),
		cx(false, nil),
		cx(true, &Will{"w/x", "bye5", 2, true}),
		// keep-alive 0 (the broker rewrites the CONNECT it stores), credentials behind an empty will payload
		{Kind: "connect", Client: "X", Opts: ConnectOpts{ClientID: "a", Clean: false, KeepAlive: 0, Will: &Will{"w/x", "", 1, true}, User: "alice", Pass: "secret"}},
		{Kind: "disconnect", Client: "X"}, {Kind: "cut", Client: "X"},
		{Kind: "raw", Client: "X", Raw: []byte{0xF0, 0x00}, RawDesc: "reserved packet type 15"},
		{Kind: "raw", Client: "X", Raw: []byte{0xE1, 0x00}, RawDesc: "DISCONNECT with a reserved flag set"},
		{Kind: "raw", Client: "X", Raw: []byte{0xE0, 0x01, 0x00}, RawDesc: "DISCONNECT with a body"},
		{Kind: "advance", D: 16 * time.Second},
		sub("X", 5, "q", 1), pub("X", "q", 1, 6, "hello"),
		conn("Z", "z", true), sub("Z", 7, "w/#", 1), {Kind: "disconnect", Client: "Z"},
	}
	depth := 6
	if c.Thorough() {
		depth = 8
	}
	spec := &HistSpec{Name: "will", Ops: ops, Depth: depth, Dedup: true,
		Comps: map[string]bool{"will": true, "closed": true, "retained": true},
		Prefix: []Action{
			{Kind: "connect", Client: "W", Opts: ConnectOpts{ClientID: "w", Clean: true, KeepAlive: 65535}},
			sub("W", 1, "#", 2)},
		CrashIsViolation: false}
	// Z must not time out either
	ops[14].Opts.KeepAlive = 65535
	spec.Search(c)
	if c.HasViolation() || c.Expired() {
		return
	}
	// every sequence without de-duplication: state hidden in the session object
	// (flags of the stored CONNECT) must not be able to hide behind equal keys
	sd := 4
	if c.Thorough() {
		sd = 5
	}
	seq := &HistSpec{Name: "will-sequences", Ops: ops, Depth: sd, Dedup: false, Comps: spec.Comps, Prefix: spec.Prefix}
	seq.Search(c)
	if c.HasViolation() || c.Expired() {
		return
	}
	// the will must survive being overwritten in the incoming ring: 24 KiB of the
	// client's own traffic between its CONNECT and its end
	if c.NShards <= 1 || c.Shard == 0 {
		for _, end := range []Action{{Kind: "cut", Client: "X"}, {Kind: "disconnect", Client: "X"}, {Kind: "raw", Client: "X", Raw: []byte{0xF0, 0x00}, RawDesc: "reserved packet type 15"}} {
			for _, k := range []int{1, 2, 5} {
				hist := append([]Action{ops[k]}, flood("X")...)
				hist = append(hist, end, ops[14], ops[15])
				fs := &HistSpec{Name: "will-flooded", Comps: spec.Comps, Prefix: spec.Prefix}
				r := fs.RunHistory(hist, false)
				c.Rep.Evaluations++
				c.Rep.Executions++
				c.Rep.States++
				c.Rep.Nontrivial++
				c.Rep.Transitions += int64(r.Steps)
				if r.Violation != "" {
					rr := fs.RunHistory(hist, true)
					if c.Violate("C09 will-flooded :: "+violClass(r.Violation), core.Replay{Scenario: "will-flooded: " + ops[k].String() + ", 24 KiB of its own traffic, " + end.String(), Message: r.Violation, Log: tailS(rr.Trace, 30), Crash: rr.Crash}) {
						return
					}
				}
			}
		}
		c.Rep.Scenarios++
	}
	c09hostile(c)
	if c.HasViolation() || c.Expired() {
		return
	}
	c09sched(c)
}

func init() { core.Register("C09", C09) }
