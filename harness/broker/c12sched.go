package broker

import (
	"fmt"

	"github.com/mdzio/go-mqtt/message"
	"github.com/mdzio/go-mqtt/verifrt/vsched"
	"verif/engine/explore"
	"verif/harness/core"
	"verif/models/refcodec"
)

// peerLoop is the scripted peer of the schedule-exploration scenarios: it
// answers every request at once with its (first) acknowledgement.
func peerLoop(w *ClientWorld, holdTerminal *bool, appDone *bool) {
	buf := make([]byte, 65536)
	var rx []byte
	for {
		n, err := w.Srv.Conn.Read(buf)
		if n > 0 {
			rx = append(rx, buf[:n]...)
			pkts, rest, perr := refcodec.Split(rx)
			if perr != nil {
				vsched.Failf("the client's byte stream is not a sequence of well-formed packets")
				return
			}
			rx = append([]byte(nil), rest...)
			for _, p := range pkts {
				var ack *refcodec.Packet
				term := false
				switch p.Type {
				case refcodec.PUBLISH:
					if p.QoS == 1 {
						ack, term = &refcodec.Packet{Type: refcodec.PUBACK, ID: p.ID}, true
					} else if p.QoS == 2 {
						ack = &refcodec.Packet{Type: refcodec.PUBREC, ID: p.ID}
					}
				case refcodec.PUBREL:
					ack, term = &refcodec.Packet{Type: refcodec.PUBCOMP, ID: p.ID}, true
				case refcodec.SUBSCRIBE:
					ack, term = &refcodec.Packet{Type: refcodec.SUBACK, ID: p.ID, Codes: make([]byte, len(p.Topics))}, true
				case refcodec.UNSUBSCRIBE:
					ack, term = &refcodec.Packet{Type: refcodec.UNSUBACK, ID: p.ID}, true
				case refcodec.PINGREQ:
					ack, term = &refcodec.Packet{Type: refcodec.PINGRESP}, true
				}
				if ack != nil {
					if term {
						// which request does it finish?  the oldest open one of that kind with that id
						for _, r := range w.Requests {
							if r.Acked {
								continue
							}
							if (p.Type == refcodec.PINGREQ && r.Kind == "ping") || (p.Type != refcodec.PINGREQ && r.Kind != "ping" && r.Kind != "pub0" && r.wireID == p.ID && kindMatches(r.Kind, p.Type)) {
								r.Acked = true
								break
							}
						}
					}
					if term && holdTerminal != nil && *holdTerminal {
						// this peer sends terminal acknowledgements only once the sending
						// calls have returned (so every request is registered for certain)
						vsched.Do(&vsched.Op{Kind: vsched.KNote, Note: "peer waits for the sending calls to return", En: func() bool { return *appDone }})
					}
					w.Srv.Conn.Write(refcodec.Encode(ack))
					w.Srv.SentAck++
				}
				// remember the id each request went out with (a PUBREL belongs to a request
				// that is known already)
				for _, r := range w.Requests {
					if p.Type == refcodec.PUBREL {
						break
					}
					if !r.seen && kindMatches(r.Kind, p.Type) && (p.Type != refcodec.PUBLISH || (r.Kind == "pub1" && p.QoS == 1) || (r.Kind == "pub2" && p.QoS == 2) || (r.Kind == "pub0" && p.QoS == 0)) {
						r.seen = true
						r.wireID = p.ID
						if p.Type != refcodec.PUBREL && p.Type != refcodec.PINGREQ && (p.Type != refcodec.PUBLISH || p.QoS > 0) {
							// terminal for QoS 1 / SUBSCRIBE / UNSUBSCRIBE was decided above only if seen before; redo
							if ack != nil && term && !r.Acked && r.wireID == p.ID {
								r.Acked = true
							}
						}
						break
					}
				}
			}
		}
		if err != nil {
			return
		}
	}
}

func kindMatches(kind string, t byte) bool {
	switch kind {
	case "pub0", "pub1":
		return t == refcodec.PUBLISH
	case "pub2":
		return t == refcodec.PUBLISH || t == refcodec.PUBREL
	case "sub":
		return t == refcodec.SUBSCRIBE
	case "unsub":
		return t == refcodec.UNSUBSCRIBE
	case "ping":
		return t == refcodec.PINGREQ
	}
	return false
}

// KnownSendRace is the fingerprint of the listed write-before-register finding.
const KnownSendRace = "C12 request written to the connection before it is registered in the ack queue"

var (
	raceKnown bool
	raceHits  int
)

// c12sched: API calls racing their own acknowledgements, all interleavings up
// to a preemption bound.
func c12sched(c *core.Ctx) {
	bound := 2
	if c.Thorough() {
		bound = 3
	}
	raceKnown = c.Known[KnownSendRace]
	raceHits = 0
	defer func() {
		if raceHits > 0 {
			c.Rep.KnownHits[KnownSendRace] += raceHits
		}
	}()
	progs := [][]string{{"pub1"}, {"pub2"}, {"sub"}, {"unsub"}, {"ping"}, {"pub1", "pub1"}, {"pub0", "pub2"}, {"sub", "pub1"}, {"ping", "ping"},
		// the same with a peer that holds every terminal acknowledgement back until the
		// sending calls have returned: non-terminal ones (PUBREC) still race the
		// registration, but a completion that does not fire cannot be the listed
		// write-before-register finding then
		{"late", "pub2"}, {"late", "pub1"}, {"late", "pub2", "pub2"}, {"late", "pub0", "pub2"}}
	for _, prog := range progs {
		if !c.Mine() {
			continue
		}
		if c.Expired() || c.HasViolation() {
			return
		}
		prog := prog
		name := fmt.Sprintf("sender-race %v", prog)
		late := prog[0] == "late"
		if late {
			prog = prog[1:]
		}
		body := func() {
			w := NewClientWorld()
			if !w.Connected("cid") {
				return
			}
			w.Srv.Take()
			vsched.Mark()
			appDone := false
			vsched.Go("peer", func() { peerLoop(w, &late, &appDone) })
			vsched.Go("app", func() {
				defer func() { appDone = true }()
				for i, k := range prog {
					var err error
					switch k {
					case "sub":
						_, err = w.Issue("sub", []string{fmt.Sprintf("s/%d", i)}, []byte{1}, "")
					case "unsub":
						_, err = w.Issue("unsub", []string{fmt.Sprintf("s/%d", i)}, nil, "")
					case "ping":
						_, err = w.Issue("ping", nil, nil, "")
					default:
						_, err = w.Issue(k, []string{"t"}, nil, fmt.Sprintf("p%d", i))
					}
					if err != nil {
						vsched.Failf("%s failed: %v", k, err)
					}
				}
			})
			vsched.Quiesce()
			// everything was acknowledged by the peer: every completion is due
			for _, r := range w.Requests {
				if r.Kind == "pub2" && !r.Acked {
					vsched.Failf("the PUBREC for request %d (QoS 2 publish) was not answered by a PUBREL: the exchange never completes", r.Idx)
					return
				}
				if r.Kind != "pub0" && !r.Acked {
					vsched.Failf("harness: request %d (%s) was not acknowledged by the scripted peer", r.Idx, r.Kind)
					return
				}
				if r.Completed == 0 && r.Kind != "pub0" && w.Cl.VerifPending()[r.Kind] > 0 {
					// the signature of the listed finding: the request sits in its ack
					// queue, registered only after its acknowledgement had been processed
					if late {
						vsched.Failf("the completion callback of request %d (%s) never fires although its terminal acknowledgement was sent only after the sending call had returned", r.Idx, r.Kind)
						return
					}
					if raceKnown {
						raceHits++
						continue
					}
					vsched.Failf("write-before-register: the completion callback of request %d (%s) never fires: its acknowledgement was processed before the sending call had registered the request, which now waits in the ack queue for good", r.Idx, r.Kind)
					return
				}
				if r.Completed != 1 {
					vsched.Failf("the completion callback of request %d (%s) fired %d times although its terminal acknowledgement arrived", r.Idx, r.Kind, r.Completed)
					return
				}
			}
			vsched.Logf("ok %d", len(w.Requests))
		}
		st := c.RunSched(explore.SchedOpts{Name: name, Bound: bound, Cache: true, UseMark: true, Body: body, MaxPoints: 20000,
			Check: func(r *vsched.Result) explore.Verdict {
				if r.Status == vsched.StCrash {
					return explore.Verdict{Violation: "a library goroutine panicked: " + firstLine(r.Crash), Outcome: "crash"}
				}
				if len(r.Failures) > 0 {
					return explore.Verdict{Violation: r.Failures[0], Outcome: "fail"}
				}
				return explore.Verdict{Outcome: fmt.Sprint(r.Log)}
			}},
			func(v *explore.Violation) string {
				if len(v.Message) > 21 && v.Message[:21] == "write-before-register" {
					return KnownSendRace
				}
				return "C12 " + name + " :: " + violClass(v.Message)
			})
		if st != nil {
			c.Rep.Sample(map[string]interface{}{"scenario": name, "bound": bound, "executions": st.Executions, "states": st.States})
		}
	}
}

// c12batches: four requests of one kind are outstanding (registered for certain);
// the peer acknowledges them 2nd, 1st, 4th, 3rd in one segment, so that the
// library hands out two batches of two completions back to back.  Under every
// interleaving (to the preemption bound) each completion callback fires exactly
// once, with its own request.
func c12batches(c *core.Ctx) {
	bound := 2
	if c.Thorough() {
		bound = 3
	}
	for _, kind := range []string{"pub1", "sub", "pub2"} {
		if !c.Mine() {
			continue
		}
		if c.Expired() || c.HasViolation() {
			return
		}
		kind := kind
		name := fmt.Sprintf("sender-batches %s x4, acknowledged 2,1,4,3", kind)
		body := func() {
			w := NewClientWorld()
			if !w.Connected("cid") {
				return
			}
			w.Srv.Take()
			for i := 0; i < 4; i++ {
				var err error
				if kind == "sub" {
					_, err = w.Issue("sub", []string{fmt.Sprintf("s/%d", i)}, []byte{1}, "")
				} else {
					_, err = w.Issue(kind, []string{"t"}, nil, fmt.Sprintf("p%d", i))
				}
				if err != nil {
					vsched.Failf("%s failed: %v", kind, err)
					return
				}
			}
			w.Settle()
			var ids []uint16
			for _, p := range w.Srv.Take() {
				ids = append(ids, p.ID)
			}
			if len(ids) != 4 {
				vsched.Failf("harness: %d requests on the wire", len(ids))
				return
			}
			if kind == "pub2" {
				// PUBREC / PUBREL for all four first
				for _, id := range ids {
					w.Srv.Send(&refcodec.Packet{Type: refcodec.PUBREC, ID: id})
				}
				w.Settle()
				if rel := w.Srv.Take(); len(rel) != 4 {
					vsched.Failf("four PUBRECs were answered by %s", Describe(rel))
					return
				}
			}
			if vsched.Failed() {
				return
			}
			vsched.Mark()
			var wire []byte
			for _, k := range []int{1, 0, 3, 2} {
				a := &refcodec.Packet{ID: ids[k]}
				switch kind {
				case "pub1":
					a.Type = refcodec.PUBACK
				case "pub2":
					a.Type = refcodec.PUBCOMP
				case "sub":
					a.Type, a.Codes = refcodec.SUBACK, []byte{1}
				}
				wire = append(wire, refcodec.Encode(a)...)
			}
			w.Srv.Conn.Write(wire)
			w.Srv.SentAck += 4
			vsched.Quiesce()
			for _, r := range w.Requests {
				if r.Completed != 1 {
					vsched.Failf("the completion callback of request %d (%s) fired %d times although every request was acknowledged exactly once", r.Idx, r.Kind, r.Completed)
					return
				}
				if r.CompWrong != "" {
					vsched.Failf("the completion callback of request %d %s", r.Idx, r.CompWrong)
					return
				}
			}
			vsched.Logf("ok")
		}
		st := c.RunSched(explore.SchedOpts{Name: name, Bound: bound, Cache: true, UseMark: true, Body: body, MaxPoints: 20000,
			Check: func(r *vsched.Result) explore.Verdict {
				if r.Status == vsched.StCrash {
					return explore.Verdict{Violation: "a library goroutine panicked: " + firstLine(r.Crash), Outcome: "crash"}
				}
				if len(r.Failures) > 0 {
					return explore.Verdict{Violation: r.Failures[0], Outcome: "fail"}
				}
				return explore.Verdict{Outcome: fmt.Sprint(r.Log)}
			}},
			func(v *explore.Violation) string { return "C12 " + name + " :: " + violClass(v.Message) })
		if st != nil {
			c.Rep.Sample(map[string]interface{}{"scenario": name, "bound": bound, "executions": st.Executions, "states": st.States})
		}
	}
}

// KnownForwardIDs is the fingerprint of the listed finding about forwarded packet identifiers.
const KnownForwardIDs = "C12 forwarded PUBLISH keeps the publisher's packet identifier"

// c12broker: two publishers use the same packet identifier; the forwarded
// copies towards one subscriber that does not acknowledge must carry distinct,
// non-zero identifiers.
func c12broker(c *core.Ctx) {
	if c.Replay != nil {
		return
	}
	if !c.Mine() {
		return
	}
	for _, q := range []byte{1, 2} {
		body := func() {
			h := NewHarness(Config{})
			for _, a := range []Action{conn("S", "s", true), sub("S", 1, "t", 2), conn("P1", "p1", true), conn("P2", "p2", true)} {
				if mm := h.Step(a); len(mm) > 0 {
					vsched.Failf("harness: %s", mm[0].Msg)
					return
				}
			}
			h.byName["S"].AutoAck = false
			for i, p := range []string{"P1", "P2"} {
				a := pub(p, "t", q, 7, fmt.Sprintf("m%d", i))
				if q == 2 {
					a.Kind = "pub2"
				}
				h.Step(a)
			}
			ids := map[uint16]int{}
			for _, p := range h.byName["S"].Packets {
				if p.Type == refcodec.PUBLISH {
					if p.ID == 0 {
						vsched.Failf("a forwarded QoS %d PUBLISH carries packet identifier 0", p.QoS)
						return
					}
					ids[p.ID]++
				}
			}
			for id, n := range ids {
				if n > 1 {
					vsched.Failf("%d unacknowledged PUBLISH packets are in flight to one subscriber with the same packet identifier %d", n, id)
					return
				}
			}
		}
		res := explore.RunDefault(body)
		c.Rep.Executions++
		c.Rep.Evaluations++
		c.Rep.States++
		c.Rep.Transitions += int64(len(res.Points))
		if len(res.Failures) > 0 {
			if c.Violate(KnownForwardIDs, core.Replay{Scenario: fmt.Sprintf("broker-ids: P1 and P2 publish QoS %d with packet id 7 to a subscriber that does not acknowledge", q), Message: res.Failures[0]}) {
				return
			}
		}
	}
	c.Rep.Scenarios++
}

// c12sameObject: an application publishes one message object twice (and a third time
// after the first acknowledgement) while earlier transmissions are unacknowledged.
// Every call is a request of its own: non-zero, pairwise distinct identifiers in
// flight, each completion exactly once at its own acknowledgement.
func c12sameObject(c *core.Ctx) {
	if c.NShards > 1 && c.Shard != 2%c.NShards {
		return
	}
	for _, q := range []byte{1, 2} {
		q := q
		name := fmt.Sprintf("client: one PublishMessage object published three times at QoS %d", q)
		var viol string
		body := func() {
			w := NewClientWorld()
			if !w.Connected("cid") {
				return
			}
			w.Srv.Take()
			m := message.NewPublishMessage()
			m.SetTopic([]byte("t"))
			m.SetPayload([]byte("same"))
			m.SetQoS(q)
			fired := make([]int, 3)
			var ids []uint16
			send := func(k int) bool {
				if err := w.Cl.Publish(m, func(msg, ack message.Message, err error) error { fired[k]++; return nil }); err != nil {
					vsched.Failf("Publish #%d of the same object failed: %v", k+1, err)
					return false
				}
				w.Settle()
				ps := w.Srv.Take()
				if len(ps) != 1 || ps[0].Type != refcodec.PUBLISH || ps[0].QoS != q || string(ps[0].Payload) != "same" {
					vsched.Failf("Publish #%d of the same object: on the wire %s", k+1, Describe(ps))
					return false
				}
				if ps[0].ID == 0 {
					vsched.Failf("Publish #%d of the same object went out with packet identifier 0", k+1)
					return false
				}
				for _, o := range ids {
					if o == ps[0].ID {
						vsched.Failf("Publish #%d of the same object went out with identifier %d, which an unacknowledged earlier transmission uses", k+1, o)
						return false
					}
				}
				ids = append(ids, ps[0].ID)
				return true
			}
			ack := func(k int) bool {
				if q == 1 {
					w.ServerSend(&refcodec.Packet{Type: refcodec.PUBACK, ID: ids[k]})
				} else {
					w.ServerSend(&refcodec.Packet{Type: refcodec.PUBREC, ID: ids[k]})
					w.Settle()
					if ps := w.Srv.Take(); len(ps) != 1 || ps[0].Type != refcodec.PUBREL || ps[0].ID != ids[k] {
						vsched.Failf("PUBREC %d answered by %s", ids[k], Describe(ps))
						return false
					}
					w.ServerSend(&refcodec.Packet{Type: refcodec.PUBCOMP, ID: ids[k]})
				}
				w.Settle()
				return true
			}
			if !send(0) || !send(1) || !ack(0) {
				return
			}
			if fired[0] != 1 || fired[1] != 0 {
				vsched.Failf("after the acknowledgement of transmission 1 only: completions fired %v", fired)
				return
			}
			ids[0] = 0 // free again
			if !send(2) || !ack(1) || !ack(2) {
				return
			}
			if fired[0] != 1 || fired[1] != 1 || fired[2] != 1 {
				vsched.Failf("all three transmissions acknowledged: completions fired %v", fired)
			}
		}
		res := explore.RunDefault(body)
		c.Rep.Executions++
		c.Rep.States++
		c.Rep.Transitions += int64(len(res.Points))
		if res.Status == vsched.StCrash {
			viol = "a library goroutine panicked: " + firstLine(res.Crash)
		} else if len(res.Failures) > 0 {
			viol = res.Failures[0]
		}
		if viol != "" {
			if c.Violate("C12 same object :: "+violClass(viol), core.Replay{Scenario: name, Message: viol}) {
				return
			}
		}
	}
	// the same for a SubscribeMessage / UnsubscribeMessage object sent twice while the first
	// request is unacknowledged
	for _, kind := range []string{"Subscribe", "Unsubscribe"} {
		kind := kind
		name := fmt.Sprintf("client: one %sMessage object sent twice", kind)
		var viol string
		body := func() {
			w := NewClientWorld()
			if !w.Connected("cid") {
				return
			}
			w.Srv.Take()
			fired := make([]int, 2)
			var call func(k int) error
			if kind == "Subscribe" {
				m := message.NewSubscribeMessage()
				m.AddTopic([]byte("s/x"), 1)
				call = func(k int) error {
					return w.Cl.Subscribe(m, func(msg, ack message.Message, err error) error { fired[k]++; return nil }, func(*message.PublishMessage) error { return nil })
				}
			} else {
				m := message.NewUnsubscribeMessage()
				m.AddTopic([]byte("s/x"))
				call = func(k int) error {
					return w.Cl.Unsubscribe(m, func(msg, ack message.Message, err error) error { fired[k]++; return nil })
				}
			}
			var ids []uint16
			for k := 0; k < 2; k++ {
				if err := call(k); err != nil {
					vsched.Failf("%s #%d of the same object failed: %v", kind, k+1, err)
					return
				}
				w.Settle()
				ps := w.Srv.Take()
				if len(ps) != 1 || ps[0].ID == 0 {
					vsched.Failf("%s #%d of the same object: on the wire %s", kind, k+1, Describe(ps))
					return
				}
				if k == 1 && ps[0].ID == ids[0] {
					vsched.Failf("%s #2 of the same object went out with identifier %d, which the unacknowledged first request uses", kind, ids[0])
					return
				}
				ids = append(ids, ps[0].ID)
			}
			for k := 0; k < 2; k++ {
				if kind == "Subscribe" {
					w.ServerSend(&refcodec.Packet{Type: refcodec.SUBACK, ID: ids[k], Codes: []byte{1}})
				} else {
					w.ServerSend(&refcodec.Packet{Type: refcodec.UNSUBACK, ID: ids[k]})
				}
				w.Settle()
			}
			if fired[0] != 1 || fired[1] != 1 {
				vsched.Failf("both %s requests were acknowledged: completions fired %v", kind, fired)
			}
		}
		res := explore.RunDefault(body)
		c.Rep.Executions++
		c.Rep.States++
		c.Rep.Transitions += int64(len(res.Points))
		if res.Status == vsched.StCrash {
			viol = "a library goroutine panicked: " + firstLine(res.Crash)
		} else if len(res.Failures) > 0 {
			viol = res.Failures[0]
		}
		if viol != "" {
			if c.Violate("C12 same object :: "+violClass(viol), core.Replay{Scenario: name, Message: viol}) {
				return
			}
		}
	}
	c.Rep.Scenarios++
}

// c12counterWrap: the process-wide identifier counter passes a multiple of 65536 while
// requests are in flight: the identifiers on the wire stay non-zero and pairwise
// distinct, every completion fires once.
func c12counterWrap(c *core.Ctx) {
	if c.NShards > 1 && c.Shard != 3%c.NShards {
		return
	}
	for _, start := range []uint64{65533, 65534, 65535, 131070} {
		start := start
		name := fmt.Sprintf("client: identifier counter at %d, then pub1 pub2 sub pub1 unsub pub2 in flight together", start)
		var viol string
		body := func() {
			w := NewClientWorld()
			if !w.Connected("cid") {
				return
			}
			w.Srv.Take()
			message.VerifSetPacketIDCounter(start)
			kinds := []string{"pub1", "pub2", "sub", "pub1", "unsub", "pub2"}
			var reqs []*creq
			for i, k := range kinds {
				var r *creq
				var err error
				switch k {
				case "sub":
					r, err = w.Issue("sub", []string{"s/x"}, []byte{1}, "")
				case "unsub":
					r, err = w.Issue("unsub", []string{"s/x"}, nil, "")
				default:
					r, err = w.Issue(k, []string{"t"}, nil, fmt.Sprintf("p%d", i))
				}
				if err != nil {
					vsched.Failf("%s failed: %v", k, err)
					return
				}
				reqs = append(reqs, r)
			}
			w.Settle()
			ps := w.Srv.Take()
			if len(ps) != len(kinds) {
				vsched.Failf("%d requests, on the wire: %s", len(kinds), Describe(ps))
				return
			}
			seen := map[uint16]int{}
			for i, p := range ps {
				if p.ID == 0 {
					vsched.Failf("request %d (%s) went out with packet identifier 0", i, kinds[i])
					return
				}
				if j, dup := seen[p.ID]; dup {
					vsched.Failf("requests %d (%s) and %d (%s) are in flight with the same packet identifier %d", j, kinds[j], i, kinds[i], p.ID)
					return
				}
				seen[p.ID] = i
			}
			for i, p := range ps {
				switch kinds[i] {
				case "pub1":
					w.ServerSend(&refcodec.Packet{Type: refcodec.PUBACK, ID: p.ID})
				case "pub2":
					w.ServerSend(&refcodec.Packet{Type: refcodec.PUBREC, ID: p.ID})
					w.Settle()
					w.Srv.Take()
					w.ServerSend(&refcodec.Packet{Type: refcodec.PUBCOMP, ID: p.ID})
				case "sub":
					w.ServerSend(&refcodec.Packet{Type: refcodec.SUBACK, ID: p.ID, Codes: []byte{1}})
				case "unsub":
					w.ServerSend(&refcodec.Packet{Type: refcodec.UNSUBACK, ID: p.ID})
				}
				w.Settle()
			}
			for i, r := range reqs {
				if r.Completed != 1 {
					vsched.Failf("request %d (%s, identifier %d) was acknowledged; its completion fired %d times", i, kinds[i], ps[i].ID, r.Completed)
					return
				}
			}
		}
		res := explore.RunDefault(body)
		c.Rep.Executions++
		c.Rep.States++
		c.Rep.Transitions += int64(len(res.Points))
		if res.Status == vsched.StCrash {
			viol = "a library goroutine panicked: " + firstLine(res.Crash)
		} else if len(res.Failures) > 0 {
			viol = res.Failures[0]
		}
		if viol != "" {
			if c.Violate("C12 counter wrap :: "+violClass(viol), core.Replay{Scenario: name, Message: viol}) {
				return
			}
		}
	}
	c.Rep.Scenarios++
}

// c12idReuseHeld: the identifier of a request that has been acknowledged but still waits
// behind an older, unacknowledged one is free again - and the process-wide counter comes
// round to it (set by hand here: 65 535 other identifiers were drawn elsewhere in the
// process).  Requests A and B in flight, B acknowledged, C drawn with B's identifier; A
// acknowledged (A and B complete), then C acknowledged: C completes, once.  For QoS 1 and 2
// publishes, and with 1-3 requests between A and C.
func c12idReuseHeld(c *core.Ctx) {
	if c.NShards > 1 && c.Shard != 5%c.NShards {
		return
	}
	for _, kind := range []string{"pub1", "pub2"} {
		for _, between := range []int{1, 2, 3} {
			kind, between := kind, between
			name := fmt.Sprintf("client: %s A, %d more, the last acknowledged first, its identifier drawn again for C, then A and C acknowledged", kind, between)
			var viol string
			body := func() {
				w := NewClientWorld()
				if !w.Connected("cid") {
					return
				}
				w.Srv.Take()
				message.VerifSetPacketIDCounter(100)
				var reqs []*creq
				issue := func(pl string) bool {
					r, err := w.Issue(kind, []string{"t"}, nil, pl)
					if err != nil {
						vsched.Failf("%s failed: %v", kind, err)
						return false
					}
					reqs = append(reqs, r)
					return true
				}
				ack := func(id uint16) {
					if kind == "pub1" {
						w.ServerSend(&refcodec.Packet{Type: refcodec.PUBACK, ID: id})
					} else {
						w.ServerSend(&refcodec.Packet{Type: refcodec.PUBREC, ID: id})
						w.Settle()
						w.Srv.Take()
						w.ServerSend(&refcodec.Packet{Type: refcodec.PUBCOMP, ID: id})
					}
					w.Settle()
				}
				for i := 0; i <= between; i++ {
					if !issue(fmt.Sprintf("p%d", i)) {
						return
					}
				}
				w.Settle()
				ps := w.Srv.Take()
				if len(ps) != between+1 {
					vsched.Failf("%d requests, on the wire: %s", between+1, Describe(ps))
					return
				}
				last := ps[len(ps)-1].ID
				ack(last) // B: completed, held back behind A
				// the counter comes round: the next identifier drawn is B's
				message.VerifSetPacketIDCounter(uint64(last) - 1)
				if !issue("pC") {
					return
				}
				w.Settle()
				pc := w.Srv.Take()
				if len(pc) != 1 || pc[0].Type != refcodec.PUBLISH {
					vsched.Failf("request C on the wire: %s", Describe(pc))
					return
				}
				for _, p := range ps[:len(ps)-1] {
					if p.ID == pc[0].ID {
						vsched.Failf("request C went out with identifier %d, which an unacknowledged request holds", p.ID)
						return
					}
				}
				for _, p := range ps[:len(ps)-1] {
					ack(p.ID)
				}
				ack(pc[0].ID)
				for i, r := range reqs {
					if r.Completed != 1 {
						vsched.Failf("request %d of %d (%s) was acknowledged; its completion fired %d times (request C carried identifier %d, the identifier of the request that was acknowledged first)", i, len(reqs), kind, r.Completed, pc[0].ID)
						return
					}
				}
			}
			res := explore.RunDefault(body)
			c.Rep.Executions++
			c.Rep.States++
			c.Rep.Transitions += int64(len(res.Points))
			if res.Status == vsched.StCrash {
				viol = "a library goroutine panicked: " + firstLine(res.Crash)
			} else if len(res.Failures) > 0 {
				viol = res.Failures[0]
			}
			if viol != "" {
				if c.Violate("C12 id reuse held :: "+violClass(viol), core.Replay{Scenario: name, Message: viol}) {
					return
				}
			}
		}
	}
	c.Rep.Scenarios++
}

// c12failedWrite: a request that could not be sent (a PUBLISH larger than the outgoing
// ring: Publish returns an error) is no request in flight; the requests after it complete
// at their acknowledgements like any other.
func c12failedWrite(c *core.Ctx) {
	if c.NShards > 1 && c.Shard != 4%c.NShards {
		return
	}
	for _, q := range []byte{1, 2} {
		q := q
		name := fmt.Sprintf("client: Publish of 20000 bytes at QoS %d fails (16 KiB ring), then two ordinary publishes", q)
		var viol string
		body := func() {
			w := NewClientWorld()
			if !w.Connected("cid") {
				return
			}
			w.Srv.Take()
			bigm := message.NewPublishMessage()
			bigm.SetTopic([]byte("t"))
			bigm.SetPayload([]byte(big(20000, 3)))
			bigm.SetQoS(q)
			bigFired := 0
			if err := w.Cl.Publish(bigm, func(msg, ack message.Message, err error) error { bigFired++; return nil }); err == nil {
				vsched.Failf("Publish of a message larger than the outgoing ring returned no error")
				return
			}
			w.Settle()
			if ps := w.Srv.Take(); len(ps) != 0 {
				vsched.Failf("the failed Publish put %s on the wire", Describe(ps))
				return
			}
			for i := 0; i < 2; i++ {
				r, err := w.Issue(fmt.Sprintf("pub%d", q), []string{"t"}, nil, fmt.Sprintf("after-%d", i))
				if err != nil {
					vsched.Failf("Publish after the failed one failed: %v", err)
					return
				}
				w.Settle()
				ps := w.Srv.Take()
				if len(ps) != 1 || ps[0].Type != refcodec.PUBLISH || ps[0].ID == 0 {
					vsched.Failf("Publish after the failed one: on the wire %s", Describe(ps))
					return
				}
				if q == 1 {
					w.ServerSend(&refcodec.Packet{Type: refcodec.PUBACK, ID: ps[0].ID})
				} else {
					w.ServerSend(&refcodec.Packet{Type: refcodec.PUBREC, ID: ps[0].ID})
					w.Settle()
					w.Srv.Take()
					w.ServerSend(&refcodec.Packet{Type: refcodec.PUBCOMP, ID: ps[0].ID})
				}
				w.Settle()
				if r.Completed != 1 {
					vsched.Failf("publish %d after a failed (oversized) one was acknowledged; its completion fired %d times (the failed request must not stay registered in front of it)", i+1, r.Completed)
					return
				}
			}
			if bigFired != 0 {
				vsched.Failf("the completion of the Publish that failed fired %d times", bigFired)
			}
		}
		res := explore.RunDefault(body)
		c.Rep.Executions++
		c.Rep.States++
		c.Rep.Transitions += int64(len(res.Points))
		if res.Status == vsched.StCrash {
			viol = "a library goroutine panicked: " + firstLine(res.Crash)
		} else if len(res.Failures) > 0 {
			viol = res.Failures[0]
		}
		if viol != "" {
			if c.Violate("C12 failed write :: "+violClass(viol), core.Replay{Scenario: name, Message: viol}) {
				return
			}
		}
	}
	c.Rep.Scenarios++
}
