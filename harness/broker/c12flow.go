package broker

import (
	"fmt"
	"strings"

	"github.com/mdzio/go-mqtt/verifrt/vsched"
	"verif/engine/explore"
	"verif/harness/core"
	"verif/models/refcodec"
)

// c12brokerFlow: the sender side in the broker role (broker-to-subscriber).
// A subscriber that acknowledges by hand receives QoS 1 and QoS 2 deliveries;
// every sequence (to a depth) of publishes and of the subscriber's PUBREC /
// repeated PUBREC / PUBCOMP / PUBACK for the oldest or newest delivery that is
// in the matching state is replayed on a fresh broker.  After every step: each
// PUBREC for an exchange that is not complete was answered by exactly one
// PUBREL with the same identifier, nothing else arrived but the expected
// deliveries (each publish forwarded once, intact, at min(QoS)), identifiers in
// flight are non-zero and pairwise distinct, and at the end the connection
// still answers a PINGREQ.
type flowOp struct {
	kind   string // pub1 pub2 rec recdup comp ack
	newest bool
}

func (o flowOp) String() string {
	w := "oldest"
	if o.newest {
		w = "newest"
	}
	switch o.kind {
	case "pub1":
		return "P publishes at QoS 1"
	case "pub2":
		return "P publishes at QoS 2 (PUBLISH+PUBREL)"
	}
	return fmt.Sprintf("S sends %s for the %s delivery that awaits it", strings.ToUpper(o.kind), w)
}

type flowDelivery struct {
	id    uint16
	qos   byte
	state int // 0 delivered, 1 PUBREC sent (PUBREL received), 2 done
}

func c12brokerFlow(c *core.Ctx) {
	if c.Replay != nil && !strings.HasPrefix(c.Replay.Scenario, "broker-flow") {
		return
	}
	ops := []flowOp{{"pub1", false}, {"pub2", false}, {"rec", false}, {"rec", true}, {"recdup", false}, {"comp", false}, {"comp", true}, {"ack", false}, {"ack", true}}
	depth := 5
	if c.Thorough() {
		depth = 6
	}
	run := func(seq []int, trace bool) (string, int, []string) {
		var log []string
		steps := 0
		body := func() {
			t := newTD()
			p := t.connect("P", 0, 65535, false)
			s := t.connect("S", 0, 65535, false)
			t.subscribe("S", "t", 2)
			if vsched.Failed() {
				return
			}
			s.rc.AutoAck = false
			var dels []*flowDelivery
			nextID := uint16(20)
			npub := 0
			pick := func(qos byte, state int, newest bool) *flowDelivery {
				var found *flowDelivery
				for _, d := range dels {
					if d.qos == qos && d.state == state {
						found = d
						if !newest {
							break
						}
					}
				}
				return found
			}
			for _, k := range seq {
				o := ops[k]
				steps++
				var wantPub *refcodec.Packet
				var wantRel uint16
				switch o.kind {
				case "pub1", "pub2":
					nextID++
					npub++
					q := byte(1)
					if o.kind == "pub2" {
						q = 2
					}
					pl := fmt.Sprintf("m%d", npub)
					p.rc.Send(&refcodec.Packet{Type: refcodec.PUBLISH, Topic: []byte("t"), QoS: q, ID: nextID, Payload: []byte(pl)})
					if q == 2 {
						t.settleExcept()
						p.rc.Send(&refcodec.Packet{Type: refcodec.PUBREL, ID: nextID})
					}
					wantPub = &refcodec.Packet{Type: refcodec.PUBLISH, Topic: []byte("t"), QoS: q, Payload: []byte(pl)}
				case "rec":
					d := pick(2, 0, o.newest)
					if d == nil {
						return // not enabled: the sequence ends here (a shorter one covers it)
					}
					s.rc.Send(&refcodec.Packet{Type: refcodec.PUBREC, ID: d.id})
					d.state = 1
					wantRel = d.id
				case "recdup":
					d := pick(2, 1, false)
					if d == nil {
						return
					}
					s.rc.Send(&refcodec.Packet{Type: refcodec.PUBREC, ID: d.id})
					wantRel = d.id
				case "comp":
					d := pick(2, 1, o.newest)
					if d == nil {
						return
					}
					s.rc.Send(&refcodec.Packet{Type: refcodec.PUBCOMP, ID: d.id})
					d.state = 2
				case "ack":
					d := pick(1, 0, o.newest)
					if d == nil {
						return
					}
					s.rc.Send(&refcodec.Packet{Type: refcodec.PUBACK, ID: d.id})
					d.state = 2
				}
				t.settleExcept()
				p.rc.Take()
				got := s.rc.Take()
				if trace {
					log = append(log, fmt.Sprintf("%s -> S received %s", o, Describe(got)))
				}
				for _, g := range got {
					switch {
					case g.Type == refcodec.PUBLISH && wantPub != nil && string(g.Topic) == "t" && string(g.Payload) == string(wantPub.Payload) && g.QoS == wantPub.QoS && !g.Dup:
						if g.ID == 0 {
							vsched.Failf("after %s: the delivery carries packet identifier 0", o)
							return
						}
						for _, d := range dels {
							if d.state != 2 && d.id == g.ID {
								vsched.Failf("after %s: two deliveries in flight to one subscriber carry the same packet identifier %d", o, g.ID)
								return
							}
						}
						dels = append(dels, &flowDelivery{id: g.ID, qos: g.QoS})
						wantPub = nil
					case g.Type == refcodec.PUBREL && wantRel != 0 && g.ID == wantRel:
						wantRel = 0
					default:
						vsched.Failf("after %s: the subscriber received an unexpected %s (all: %s)", o, g, Describe(got))
						return
					}
				}
				if wantPub != nil {
					vsched.Failf("after %s: the publish was not delivered to the subscriber (received %s)", o, Describe(got))
					return
				}
				if wantRel != 0 {
					vsched.Failf("after %s: the PUBREC with identifier %d was not answered by a PUBREL (received %s)", o, wantRel, Describe(got))
					return
				}
				if s.rc.EOF || s.rc.Bad != "" || p.rc.EOF {
					vsched.Failf("after %s: a connection was closed or its stream is broken (%s)", o, s.rc.Bad)
					return
				}
			}
			s.rc.Send(&refcodec.Packet{Type: refcodec.PINGREQ})
			t.settleExcept()
			if got := s.rc.Take(); len(got) != 1 || got[0].Type != refcodec.PINGRESP {
				vsched.Failf("at the end the subscriber's PINGREQ was answered by %s", Describe(got))
			}
		}
		res := explore.RunDefault(body)
		v := ""
		if res.Status == vsched.StCrash {
			v = "a library goroutine panicked: " + firstLine(res.Crash)
		} else if len(res.Failures) > 0 {
			v = res.Failures[0]
		}
		return v, len(res.Points), log
	}
	if c.Replay != nil {
		var seq []int
		for _, f := range strings.Fields(strings.TrimPrefix(c.Replay.Scenario, "broker-flow:")) {
			var k int
			fmt.Sscanf(f, "%d", &k)
			seq = append(seq, k)
		}
		v, _, log := run(seq, true)
		fmt.Println("replay:", c.Replay.Scenario)
		for _, l := range log {
			fmt.Println("  ", l)
		}
		fmt.Println("  =>", v)
		c.Rep.Scenarios++
		return
	}
	seq := make([]int, 0, depth)
	var rec func()
	rec = func() {
		if c.Expired() || c.HasViolation() {
			return
		}
		if len(seq) > 0 && c.Mine() {
			v, pts, _ := run(seq, false)
			c.Rep.Executions++
			c.Rep.Evaluations++
			c.Rep.States++
			c.Rep.Transitions += int64(pts)
			if len(seq) >= 3 {
				c.Rep.Nontrivial++
			}
			if v != "" {
				var names, idx []string
				for _, k := range seq {
					names = append(names, ops[k].String())
					idx = append(idx, fmt.Sprint(k))
				}
				_, _, log := run(seq, true)
				// (the publisher uses a fresh identifier for every message here, so equal
				// identifiers towards the subscriber would not be the listed finding about
				// forwarded identifiers, which needs two publishers choosing the same one)
				key := "C12 broker-flow :: " + violClass(v)
				if c.Violate(key, core.Replay{Scenario: "broker-flow: " + strings.Join(idx, " "), Message: v, Log: append(names, log...)}) {
					return
				}
			}
		}
		if len(seq) == depth {
			return
		}
		// prune sequences whose last operation was not enabled: a disabled op ends
		// the run, so longer sequences behave like the prefix
		for k := range ops {
			seq = append(seq, k)
			if flowEnabled(ops, seq) {
				rec()
			}
			seq = seq[:len(seq)-1]
		}
	}
	rec()
	c.Rep.Scenarios++
	c.Rep.Sample(map[string]interface{}{"search": "broker-flow", "depth": depth, "alphabet": len(ops)})
}

// flowEnabled replays the sequence on the bookkeeping alone.
func flowEnabled(ops []flowOp, seq []int) bool {
	var q2, q1 []int // states
	for _, k := range seq {
		o := ops[k]
		pick := func(st []int, state int, newest bool) int {
			f := -1
			for i, s := range st {
				if s == state {
					f = i
					if !newest {
						break
					}
				}
			}
			return f
		}
		switch o.kind {
		case "pub1":
			q1 = append(q1, 0)
		case "pub2":
			q2 = append(q2, 0)
		case "rec":
			i := pick(q2, 0, o.newest)
			if i < 0 {
				return false
			}
			q2[i] = 1
		case "recdup":
			if pick(q2, 1, false) < 0 {
				return false
			}
		case "comp":
			i := pick(q2, 1, o.newest)
			if i < 0 {
				return false
			}
			q2[i] = 2
		case "ack":
			i := pick(q1, 0, o.newest)
			if i < 0 {
				return false
			}
			q1[i] = 2
		}
	}
	return true
}
