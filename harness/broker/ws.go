package broker

import (
	"fmt"
	"net"
	"net/http"
	"strings"
	"time"

	"github.com/mdzio/go-mqtt/service"
	"github.com/mdzio/go-mqtt/verifrt/vnet"
	"github.com/mdzio/go-mqtt/verifrt/vsched"
	"github.com/mdzio/go-mqtt/verifrt/vws"
	"verif/engine/explore"
	"verif/harness/core"
	"verif/models/refcodec"
)

// The websocket bridge (service/websocket.go): WebsocketHandler.ServeHTTP takes
// over an upgraded connection, dials the broker and copies in both directions
// with two goroutines.  In the instrumented build gorilla/websocket is replaced
// by the vws shim (a message-framed vnet pipe), so the bridge and its copy
// goroutine run under the scheduler; the HTTP handshake is not modelled.

const wsAddr = "ws:80"

// wsAdapter lets a RawClient speak through the client end of a websocket: every
// Write is one binary message, Read hands out the payload of the frames.
type wsAdapter struct {
	ws  *vws.Conn
	buf []byte
}

func (a *wsAdapter) Read(p []byte) (int, error) {
	if len(a.buf) == 0 {
		_, m, err := a.ws.ReadMessage()
		if err != nil {
			return 0, err
		}
		a.buf = m
	}
	n := copy(p, a.buf)
	a.buf = a.buf[n:]
	return n, nil
}
func (a *wsAdapter) Write(p []byte) (int, error) {
	if err := a.ws.WriteMessage(vws.BinaryMessage, p); err != nil {
		return 0, err
	}
	return len(p), nil
}
func (a *wsAdapter) Close() error                       { return a.ws.Close() }
func (a *wsAdapter) LocalAddr() net.Addr                { return a.ws.LocalAddr() }
func (a *wsAdapter) RemoteAddr() net.Addr               { return a.ws.RemoteAddr() }
func (a *wsAdapter) SetDeadline(t time.Time) error      { return nil }
func (a *wsAdapter) SetReadDeadline(t time.Time) error  { return nil }
func (a *wsAdapter) SetWriteDeadline(t time.Time) error { return nil }

// DialWS opens a websocket connection to the broker through the bridge: the
// handler runs as a library thread for the server end of a fresh pipe.
func (w *World) DialWS(name string) (*RawClient, error) {
	if w.wsLn == nil {
		ln, err := vnet.Listen("tcp", wsAddr)
		if err != nil {
			return nil, err
		}
		w.wsLn = ln
	}
	c, err := vnet.Dial("tcp", wsAddr)
	if err != nil {
		return nil, err
	}
	sc, err := w.wsLn.Accept()
	if err != nil {
		return nil, err
	}
	vws.Offer(name, sc)
	h := &service.WebsocketHandler{Addr: addr}
	vsched.GoLib("ws-bridge-"+name, func() { h.ServeHTTP(nil, &http.Request{RemoteAddr: name}) })
	rc := &RawClient{Name: name, W: w, Conn: &wsAdapter{ws: vws.NewConn(c)}, vc: c.(*vnet.Conn), AutoAck: true, pendRel: map[uint16]bool{}}
	w.Clients = append(w.Clients, rc)
	return rc, nil
}

// wsScenarios: what C11 and C16 state about a connection holds for one that
// arrives through the bridge: a refusal is followed by the end of the
// *websocket* (the client sees the end of the stream, not only the broker's TCP
// peer inside the bridge), nothing refused has any effect, and when a bridged
// connection ends - by DISCONNECT, by the client closing the websocket, by the
// broker ending the connection - the bridge's goroutines go away as well.
func wsScenarios(c *core.Ctx, prop string, dev int) {
	type wsCase struct {
		name    string
		first   []byte // first message
		code    int    // expected CONNACK code, -1: no CONNACK at all
		then    string // for accepted connections: how it ends
		teardwn bool   // a C16 scenario (else C11)
	}
	long := strings.Repeat("x", 70000)
	_ = long
	cases := []wsCase{
		{name: "accepted CONNECT, subscribe + publish, DISCONNECT", first: refcodec.Encode(ConnectPacket(ConnectOpts{ClientID: "wsx", Clean: true, KeepAlive: 65535})), code: 0, then: "disconnect", teardwn: true},
		{name: "accepted CONNECT, subscribe + publish, the client closes the websocket", first: refcodec.Encode(ConnectPacket(ConnectOpts{ClientID: "wsx", Clean: true, KeepAlive: 65535, Will: &Will{"will/wsx", "gone", 0, false}})), code: 0, then: "cut", teardwn: true},
		{name: "accepted CONNECT, then a reserved packet type", first: refcodec.Encode(ConnectPacket(ConnectOpts{ClientID: "wsx", Clean: true, KeepAlive: 65535, Will: &Will{"will/wsx", "gone", 0, false}})), code: 0, then: "garbage", teardwn: true},
		{name: "CONNECT with protocol level 5", first: func() []byte {
			b := refcodec.Encode(ConnectPacket(ConnectOpts{ClientID: "wsx", Clean: true, KeepAlive: 60}))
			b[8] = 5
			return b
		}(), code: 1},
		{name: "CONNECT refused by the authenticator", first: refcodec.Encode(ConnectPacket(ConnectOpts{ClientID: "wsx", Clean: true, KeepAlive: 60, User: "evil", Pass: "x"})), code: 4},
		{name: "CONNECT with a client identifier the broker rejects", first: refcodec.Encode(ConnectPacket(ConnectOpts{ClientID: strings.Repeat("w", 40), Clean: true, KeepAlive: 60})), code: 2},
		{name: "PINGREQ as first packet", first: []byte{0xc0, 0x00}, code: -1},
		{name: "SUBSCRIBE as first packet", first: refcodec.Encode(&refcodec.Packet{Type: refcodec.SUBSCRIBE, ID: 5, Topics: [][]byte{[]byte("ws/#")}, QoSs: []byte{0}}), code: -1},
	}
	for _, cs := range cases {
		if cs.teardwn != (prop == "C16") && !(prop == "C11" && cs.then == "disconnect") {
			continue
		}
		if !c.Mine() {
			continue
		}
		if c.Expired() || c.HasViolation() {
			return
		}
		cs := cs
		name := "websocket bridge: " + cs.name
		body := func() {
			w := NewWorld(Config{KeepAlive: 60, Authenticator: SelectiveAuth})
			vws.Reset()
			wt, err := w.Dial("W")
			if err != nil {
				vsched.Failf("harness: dial: %v", err)
				return
			}
			wt.Send(ConnectPacket(ConnectOpts{ClientID: "w", Clean: true, KeepAlive: 65535}))
			w.Settle()
			wt.Send(&refcodec.Packet{Type: refcodec.SUBSCRIBE, ID: 1, Topics: [][]byte{[]byte("#")}, QoSs: []byte{0}})
			w.Settle()
			wt.Take()
			base := len(LibThreadsAlive())
			implBefore := w.ImplKey()
			if vsched.Failed() {
				return
			}
			vsched.Mark()
			x, err := w.DialWS("X")
			if err != nil {
				vsched.Failf("harness: websocket dial: %v", err)
				return
			}
			x.SendRaw(cs.first)
			w.Settle()
			got := x.Take()
			closedNow := func(what string) bool {
				if !x.EOF && x.ReadErr == "" {
					vsched.Failf("%s: the websocket connection is still open at quiescence", what)
					return false
				}
				if n := len(LibThreadsAlive()); n != base {
					vsched.Failf("%s: %d library goroutines are alive, %d before the connection arrived: %s", what, n, base, core.ParkedString(LibThreadsAlive()))
					return false
				}
				return true
			}
			if cs.code != 0 {
				// refused
				if cs.code < 0 && len(got) != 0 {
					vsched.Failf("a first packet that is no CONNECT was answered with %s", Describe(got))
					return
				}
				if cs.code > 0 && (len(got) != 1 || got[0].Type != refcodec.CONNACK || int(got[0].ReturnCode) != cs.code) {
					vsched.Failf("expected CONNACK code %d, the client received %s", cs.code, Describe(got))
					return
				}
				if !closedNow("after the refusal") {
					return
				}
				if k := w.ImplKey(); k != implBefore {
					vsched.Failf("the refused connection changed the broker's state: %s -> %s", implBefore, k)
					return
				}
				// nothing of it reached the witness
				if ps := wt.Take(); len(ps) != 0 {
					vsched.Failf("the witness received %s", Describe(ps))
				}
				vsched.Logf("ok refused")
				return
			}
			if len(got) != 1 || got[0].Type != refcodec.CONNACK || got[0].ReturnCode != 0 {
				vsched.Failf("an acceptable CONNECT through the bridge was answered with %s", Describe(got))
				return
			}
			x.Send(&refcodec.Packet{Type: refcodec.SUBSCRIBE, ID: 2, Topics: [][]byte{[]byte("ws/t")}, QoSs: []byte{1}})
			w.Settle()
			if ps := x.Take(); len(ps) != 1 || ps[0].Type != refcodec.SUBACK || ps[0].ID != 2 {
				vsched.Failf("SUBSCRIBE through the bridge answered with %s", Describe(ps))
				return
			}
			x.Send(&refcodec.Packet{Type: refcodec.PUBLISH, Topic: []byte("ws/t"), QoS: 1, ID: 3, Payload: []byte(big(3000, 7))})
			w.Settle()
			ps := x.Take()
			npub, nack := 0, 0
			for _, p := range ps {
				switch {
				case p.Type == refcodec.PUBACK && p.ID == 3:
					nack++
				case p.Type == refcodec.PUBLISH && string(p.Topic) == "ws/t" && string(p.Payload) == big(3000, 7):
					npub++
				}
			}
			if npub != 1 || nack != 1 || len(ps) != 2 {
				vsched.Failf("PUBLISH (3000 bytes, QoS 1) on the client's own subscription through the bridge: received %s", Describe(ps))
				return
			}
			wt.Take()
			switch cs.then {
			case "disconnect":
				x.Send(&refcodec.Packet{Type: refcodec.DISCONNECT})
			case "cut":
				x.Cut()
			case "garbage":
				x.SendRaw([]byte{0xf0, 0x00})
			}
			w.Settle()
			if cs.then != "cut" {
				x.pump()
				if !closedNow("after " + cs.then) {
					return
				}
			} else if n := len(LibThreadsAlive()); n != base {
				vsched.Failf("after the client closed the websocket %d library goroutines are alive, %d before the connection arrived: %s", n, base, core.ParkedString(LibThreadsAlive()))
				return
			}
			if k := w.ImplKey(); k != implBefore {
				vsched.Failf("after the end of the bridged connection (clean session) the broker's state differs from the one before it: %s -> %s", implBefore, k)
				return
			}
			wills := len(publishesOn(wt.Take(), "will/wsx"))
			wantWill := 0
			if cs.then != "disconnect" {
				wantWill = 1
			}
			if wills != wantWill {
				vsched.Failf("bridged connection ended by %s: its will was published %d times, expected %d", cs.then, wills, wantWill)
				return
			}
			if x.Bad != "" || wt.Bad != "" {
				vsched.Failf("%s%s", x.Bad, wt.Bad)
				return
			}
			vsched.Logf("ok %s", cs.then)
		}
		st := c.RunSched(explore.SchedOpts{Name: name, Bound: -1, DevBound: dev, Cache: true, UseMark: true, Body: body, MaxPoints: 100000, Check: schedCheck},
			func(v *explore.Violation) string { return prop + " " + name + " :: " + violClass(v.Message) })
		if st != nil {
			c.Rep.Sample(map[string]interface{}{"scenario": name, "deviations": dev, "executions": st.Executions, "states": st.States})
		}
	}
	_ = fmt.Sprint
}
