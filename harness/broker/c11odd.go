package broker

import (
	"fmt"
	"strings"

	"github.com/mdzio/go-mqtt/verifrt/vsched"
	"verif/engine/explore"
	"verif/harness/core"
	"verif/models/refcodec"
)

// c11odd: a CONNECT that is not answered with return code 0 and that names a client
// identifier - one with a stored session, one the broker has never seen - leaves the
// session store as it was.  The odd CONNECTs are those a broker may accept or refuse
// (will topics that are no topic names) and those it must refuse; whichever it does is
// read off the CONNACK, and only a refusal is held to "no effect": the store dump is
// compared, and then the owner comes back with CleanSession=0 and must find its session
// (SessionPresent 1, its subscription still delivering), respectively the unknown
// identifier connects with CleanSession=0 and is a new, working session (SessionPresent 0).
func c11odd(c *core.Ctx) {
	if c.Replay != nil && !strings.HasPrefix(c.Replay.Scenario, "odd-connect") {
		return
	}
	type odd struct {
		desc string
		raw  func(cid string, clean bool) []byte
	}
	fl := func(clean bool, f byte) byte {
		if clean {
			f |= 2
		}
		return f
	}
	willTopic := func(t string) func(string, bool) []byte {
		return func(cid string, clean bool) []byte {
			return connectBytes("MQTT", 4, fl(clean, 0x0c), 30, []byte(cid), []byte(t), []byte("planted"))
		}
	}
	odds := []odd{
		{"will topic a/#", willTopic("a/#")},
		{"will topic w/+", willTopic("w/+")},
		{"empty will topic", willTopic("")},
		{"will topic with NUL", willTopic("a\x00b")},
		{"will QoS 3", func(cid string, clean bool) []byte {
			return connectBytes("MQTT", 4, fl(clean, 0x1c), 30, []byte(cid), []byte("w/t"), []byte("planted"))
		}},
		{"protocol level 5", func(cid string, clean bool) []byte { return connectBytes("MQTT", 5, fl(clean, 0), 30, []byte(cid)) }},
		{"reserved flag", func(cid string, clean bool) []byte { return connectBytes("MQTT", 4, fl(clean, 1), 30, []byte(cid)) }},
		{"surplus bytes", func(cid string, clean bool) []byte {
			b := connectBytes("MQTT", 4, fl(clean, 0), 30, []byte(cid))
			b[1] += 2
			return append(b, 0, 0)
		}},
		{"refused credentials", func(cid string, clean bool) []byte {
			return connectBytes("MQTT", 4, fl(clean, 0xc0), 30, []byte(cid), []byte("evil"), []byte("x"))
		}},
		{"refused credentials and a will", func(cid string, clean bool) []byte {
			return connectBytes("MQTT", 4, fl(clean, 0xcc), 30, []byte(cid), []byte("w/t"), []byte("planted"), []byte("evil"), []byte("x"))
		}},
	}
	run := func(o odd, known, clean bool, twice bool, trace bool) (string, int, []string, bool) {
		var log []string
		accepted := false
		body := func() {
			w := NewWorld(Config{KeepAlive: 60, Authenticator: SelectiveAuth})
			say := func(f string, a ...interface{}) {
				if trace {
					log = append(log, fmt.Sprintf(f, a...))
				}
			}
			connect := func(name, cid string, cl bool) (*RawClient, *refcodec.Packet) {
				rc, err := w.Dial(name)
				if err != nil {
					vsched.Failf("harness: dial: %v", err)
					return nil, nil
				}
				rc.Send(ConnectPacket(ConnectOpts{ClientID: cid, Clean: cl, KeepAlive: 600}))
				w.Settle()
				ps := rc.Take()
				say("%s: CONNECT(%s, clean=%v) -> %s", name, cid, cl, Describe(ps))
				if len(ps) != 1 || ps[0].Type != refcodec.CONNACK {
					return rc, nil
				}
				return rc, ps[0]
			}
			wit, ack := connect("W", "w", true)
			if ack == nil || ack.ReturnCode != 0 {
				vsched.Failf("harness: the witness cannot connect")
				return
			}
			cid := "n"
			if known {
				cid = "o"
				ow, ack := connect("O", "o", false)
				if ack == nil || ack.ReturnCode != 0 {
					vsched.Failf("harness: the owner cannot connect")
					return
				}
				ow.Send(&refcodec.Packet{Type: refcodec.SUBSCRIBE, ID: 1, Topics: [][]byte{[]byte("t")}, QoSs: []byte{1}})
				w.Settle()
				ow.Take()
				ow.Send(&refcodec.Packet{Type: refcodec.DISCONNECT})
				w.Settle()
				ow.Cut()
				w.Settle()
			}
			before := w.ImplKey()
			n := 1
			if twice {
				n = 2
			}
			for i := 0; i < n; i++ {
				at, err := w.Dial(fmt.Sprintf("X%d", i))
				if err != nil {
					vsched.Failf("harness: dial: %v", err)
					return
				}
				at.SendRaw(o.raw(cid, clean))
				w.Settle()
				ps := at.Take()
				say("X: CONNECT(%s, clean=%v, %s) -> %s closed=%v", cid, clean, o.desc, Describe(ps), at.EOF)
				if len(ps) > 0 && ps[0].Type == refcodec.CONNACK && ps[0].ReturnCode == 0 {
					accepted = true
					return // the broker's choice for this CONNECT; nothing is claimed about an accepted one here
				}
				for _, p := range ps {
					if p.Type != refcodec.CONNACK {
						vsched.Failf("the connection that was not accepted received %s", p)
						return
					}
				}
				if !at.EOF {
					vsched.Failf("the broker neither accepted the CONNECT (%s) nor closed the connection (received %s)", o.desc, Describe(ps))
					return
				}
				at.Cut()
				w.Settle()
			}
			after := w.ImplKey()
			if after != before {
				vsched.Failf("a CONNECT (%s, client id %q, CleanSession=%v) that was not accepted changed the broker's state: before %s, after %s", o.desc, cid, clean, before, after)
				return
			}
			back, ack := connect("B", cid, false)
			if ack == nil || ack.ReturnCode != 0 {
				vsched.Failf("after a refused CONNECT (%s) naming %q, the rightful CONNECT(%s, CleanSession=0) is not accepted", o.desc, cid, cid)
				return
			}
			if ack.SessionPresent != known {
				vsched.Failf("after a refused CONNECT (%s, CleanSession=%v) naming %q, CONNECT(%s, CleanSession=0) is answered with SessionPresent=%v; a session was stored before: %v", o.desc, clean, cid, cid, ack.SessionPresent, known)
				return
			}
			if !known {
				back.Send(&refcodec.Packet{Type: refcodec.SUBSCRIBE, ID: 2, Topics: [][]byte{[]byte("t")}, QoSs: []byte{1}})
				w.Settle()
				if ps := back.Take(); len(ps) != 1 || ps[0].Type != refcodec.SUBACK || back.EOF {
					vsched.Failf("after a refused CONNECT (%s) naming %q, the new session's SUBSCRIBE is answered by %s (closed=%v)", o.desc, cid, Describe(ps), back.EOF)
					return
				}
			}
			wit.Send(&refcodec.Packet{Type: refcodec.PUBLISH, Topic: []byte("t"), Payload: []byte("probe")})
			w.Settle()
			ps := back.Take()
			say("B after W's publish on t: %s closed=%v", Describe(ps), back.EOF)
			if len(ps) != 1 || ps[0].Type != refcodec.PUBLISH || string(ps[0].Payload) != "probe" {
				vsched.Failf("after a refused CONNECT (%s, CleanSession=%v) naming %q, the session's subscription to t delivers %s (closed=%v), expected the probe", o.desc, clean, cid, Describe(ps), back.EOF)
				return
			}
			if wps := wit.Take(); len(wps) != 0 {
				vsched.Failf("the witness received %s", Describe(wps))
			}
		}
		res := explore.RunDefault(body)
		v := ""
		if res.Status == vsched.StCrash {
			v = "a library goroutine panicked: " + firstLine(res.Crash)
		} else if len(res.Failures) > 0 {
			v = res.Failures[0]
		}
		return v, len(res.Points), log, accepted
	}
	n, acc := 0, 0
	for oi, o := range odds {
		for _, known := range []bool{true, false} {
			for _, clean := range []bool{true, false} {
				for _, twice := range []bool{false, true} {
					name := fmt.Sprintf("odd-connect: %d %v %v %v", oi, known, clean, twice)
					if c.Replay != nil {
						if c.Replay.Scenario != name {
							continue
						}
						v, _, log, _ := run(o, known, clean, twice, true)
						fmt.Println("replay:", name, "("+o.desc+")")
						for _, l := range log {
							fmt.Println("  ", l)
						}
						fmt.Println("  =>", v)
						c.Rep.Scenarios++
						return
					}
					n++
					if c.NShards > 1 && n%c.NShards != c.Shard {
						continue
					}
					if c.Expired() || c.HasViolation() {
						return
					}
					v, pts, _, a := run(o, known, clean, twice, false)
					c.Rep.Executions++
					c.Rep.Evaluations++
					c.Rep.States++
					c.Rep.Transitions += int64(pts)
					if a {
						acc++
					} else {
						c.Rep.Nontrivial++
					}
					if v != "" {
						_, _, log, _ := run(o, known, clean, twice, true)
						key := "C11 odd-connect " + o.desc + " :: " + violClass(v)
						if c.Violate(key, core.Replay{Scenario: name, Message: v, Log: log}) {
							return
						}
					}
				}
			}
		}
	}
	c.Rep.Scenarios++
	c.Rep.Sample(map[string]interface{}{"search": "odd-connect", "histories": n, "accepted_by_the_broker": acc})
}
