package broker

import (
	"fmt"
	"strings"

	"github.com/mdzio/go-mqtt/verifrt/vsched"
	"verif/engine/explore"
	"verif/models/refcodec"

	"verif/harness/core"
)

// C02 (broker role): receiver side of QoS 1/2.
func C02(c *core.Ctx) {
	c.Rep.Bound = "HIST, broker role: PUBLISH QoS 1 / QoS 2 (payload A), repeated PUBLISH with the same id (DUP, payload B), PUBREL, repeated PUBREL over packet ids {1,2}, an 8000-byte filler that wraps the rings, one subscriber granted QoS 2; BFS de-duplicated on model + implementation state to depth 6 (quick) / 8 (thorough) and every sequence to depth 4 (quick) / 5 (thorough); acknowledgements that start 0..11 bytes before the end of the publisher's outgoing ring; bursts of 1-36 exchanges in flight (every count, so the queue is exactly full at 16 and 32 and grows at 17 and 33) after 0-8 completed ones, released in three orders; the same counts around 16 and 32 with an identifier used again for a new exchange (or a PUBLISH repeated) at the moment the queue is full; client role: see C20/C12 harness (library Client against a scripted server)"
	c.Rep.Rule = "per packet one PUBACK/PUBREC/PUBCOMP with the same id; QoS 1 handed on once per PUBLISH; QoS 2 handed on at most once per exchange, never before its PUBREL, at the latest once its PUBREL and those of earlier exchanges are processed, with the content of the first PUBLISH; distinct = canonical model (open exchanges with released/delivered flags) + implementation state"
	p8k := big(8000, 7)
	var ops []Action
	for _, id := range []uint16{1, 2} {
		ops = append(ops,
			pub("X", "t", 1, id, "A1"),
			pub("X", "t", 2, id, "A2"),
			Action{Kind: "pub", Client: "X", Topic: "t", QoS: 2, ID: id, Payload: "B2", Dup: true},
			Action{Kind: "pubrel", Client: "X", ID: id},
		)
	}
	ops = append(ops, pub("X", "zz", 0, 0, p8k), Action{Kind: "pub", Client: "X", Topic: "t", QoS: 2, ID: 1, Payload: p8k})
	// packets whose remaining length is written in one byte more than necessary: the library
	// accepts them, so they are the PUBREL / PUBLISH they are
	ops = append(ops, Action{Kind: "pubrel", Client: "X", ID: 1, Pad: 1}, Action{Kind: "pub", Client: "X", Topic: "t", QoS: 1, ID: 2, Payload: "P1", Pad: 1})
	// a topic the broker does not route (first level starts with '$'): it is acknowledged all the same
	ops = append(ops, pub("X", "$SYS/x", 1, 2, "S1"))
	comps := map[string]bool{"acks": true, "route": true, "stream": true, "closed": true}
	prefix := []Action{conn("S", "s", true), sub("S", 1, "t", 2), conn("X", "x", true)}
	d1, d2 := 6, 4
	if c.Thorough() {
		d1, d2 = 8, 5
	}
	c02pinned(c)
	if c.HasViolation() || c.Expired() {
		return
	}
	c02late(c)
	if c.HasViolation() || c.Expired() {
		return
	}
	spec := &HistSpec{Name: "receiver-qos", Ops: ops, Depth: d1, Dedup: true, Comps: comps, Prefix: prefix, ExtraKey: wrapKey}
	spec.Search(c)
	if c.HasViolation() || c.Expired() {
		return
	}
	seq := &HistSpec{Name: "receiver-qos-sequences", Ops: ops, Depth: d2, Dedup: false, Comps: comps, Prefix: prefix}
	seq.Search(c)
	if c.HasViolation() || c.Expired() {
		return
	}
	c02burst(c, comps)
	if c.HasViolation() || c.Expired() {
		return
	}
	c02burstReuse(c, comps)
	if c.HasViolation() || c.Expired() {
		return
	}
	c02wrap(c, comps)
	c02stalledRelease(c)
	if c.HasViolation() || c.Expired() {
		return
	}
	c02zero(c, comps)
	if c.HasViolation() || c.Expired() {
		return
	}
	c02client(c)
}

// c02zero: packets with the identifier 0 (no conforming client sends them; the library takes
// them as the packets they are, so "the identifier of the packet it answers" is 0) after packets of
// the same kind with other identifiers, and the other way round.  The subscriber is granted QoS 0,
// so nothing with an identifier is forwarded.
func c02zero(c *core.Ctx, comps map[string]bool) {
	if c.NShards > 1 && c.Shard != 0 {
		return
	}
	hists := [][]Action{
		{pub("X", "t", 1, 5, "n1"), pub("X", "t", 1, 0, "z1"), pub("X", "t", 1, 6, "n1b"),
			{Kind: "pub2", Client: "X", Topic: "t", QoS: 2, ID: 7, Payload: "n2"}, {Kind: "pub2", Client: "X", Topic: "t", QoS: 2, ID: 0, Payload: "z2"},
			{Kind: "pub2", Client: "X", Topic: "t", QoS: 2, ID: 8, Payload: "n2b"}},
		{pub("X", "t", 1, 0, "z1"), pub("X", "t", 1, 5, "n1"), pub("X", "t", 1, 0, "z1b"),
			{Kind: "pub", Client: "X", Topic: "t", QoS: 2, ID: 9, Payload: "n2"}, {Kind: "pub", Client: "X", Topic: "t", QoS: 2, ID: 0, Payload: "z2"},
			{Kind: "pubrel", Client: "X", ID: 9}, {Kind: "pubrel", Client: "X", ID: 0}},
	}
	for i, h := range hists {
		hist := append([]Action{conn("S", "s", true), sub("S", 1, "t", 0), conn("X", "x", true)}, h...)
		spec := &HistSpec{Name: "identifier-zero", Comps: comps}
		r := spec.RunHistory(hist, false)
		c.Rep.Evaluations++
		c.Rep.Executions++
		c.Rep.States++
		c.Rep.Nontrivial++
		c.Rep.Transitions += int64(r.Steps)
		if r.Violation != "" {
			rr := spec.RunHistory(hist, true)
			if c.Violate("C02 identifier-zero :: "+violClass(r.Violation), core.Replay{Scenario: fmt.Sprintf("identifier-zero: history %d", i), Message: r.Violation, Log: tailS(rr.Trace, 30)}) {
				return
			}
		}
	}
	c.Rep.Scenarios++
	c.Rep.Sample(map[string]interface{}{"search": "identifier-zero", "histories": len(hists)})
}

// c02wrap: the acknowledgements themselves cross the end of the publisher's
// outgoing ring.  X also subscribes to a topic of its own; two deliveries of
// chosen sizes bring its outgoing ring to 16384-o bytes, then a QoS 1 publish
// and a QoS 2 exchange follow: PUBACK, PUBREC and PUBCOMP start o, o-4, ...
// bytes before the ring end, for every o in 0..11.
func c02wrap(c *core.Ctx, comps map[string]bool) {
	for o := 0; o <= 11; o++ {
		if c.NShards > 1 && o%c.NShards != c.Shard {
			continue
		}
		if c.Expired() || c.HasViolation() {
			return
		}
		// X's outgoing ring: SUBACK (5 bytes), then the two deliveries
		target := 16384 - o - 5
		n1 := 8183 // both packets stay below the 8192-byte packet limit of 16 KiB rings
		n2 := target - (n1 + 7) - 7
		hist := []Action{conn("S", "s", true), sub("S", 1, "t", 2), conn("X", "x", true), sub("X", 2, "zz", 0),
			pub("X", "zz", 0, 0, big(n1, 5)), pub("X", "zz", 0, 0, big(n2, 6)),
			pub("X", "t", 1, 7, "q1-at-the-wrap"),
			{Kind: "pub2", Client: "X", Topic: "t", QoS: 2, ID: 0x0c00, Payload: "q2-at-the-wrap"},
			pub("X", "t", 1, 0x1234, "q1-after-the-wrap"),
		}
		spec := &HistSpec{Name: "ack-at-wrap", Comps: comps}
		r := spec.RunHistory(hist, false)
		c.Rep.Evaluations++
		c.Rep.Executions++
		c.Rep.States++
		c.Rep.Nontrivial++
		c.Rep.Transitions += int64(r.Steps)
		if r.Violation != "" {
			rr := spec.RunHistory(hist, true)
			if c.Violate("C02 ack-at-wrap :: "+violClass(r.Violation), core.Replay{Scenario: fmt.Sprintf("ack-at-wrap: the publisher's outgoing ring stands %d bytes before its end when the acknowledgements start", o), Message: r.Violation, Log: tailS(rr.Trace, 30)}) {
				return
			}
		}
	}
	c.Rep.Scenarios++
	c.Rep.Sample(map[string]interface{}{"search": "ack-at-wrap", "offsets_before_ring_end": "0..11"})
}

// c02burst: many QoS 2 exchanges in flight at once (the inbound queue grows
// beyond its initial 16 slots while its indices are wrapped), released in
// several orders.
func c02burst(c *core.Ctx, comps map[string]bool) {
	n := 0
	for _, done := range []int{0, 3, 5, 8} {
		for inflight := 1; inflight <= 36; inflight++ {
			for _, order := range []string{"fifo", "lifo", "rot5"} {
				n++
				if c.NShards > 1 && n%c.NShards != c.Shard {
					continue
				}
				if !c.Thorough() && (inflight > 33 || done == 8 || (inflight < 14 && inflight%4 != 0)) {
					continue
				}
				if c.Expired() || c.HasViolation() {
					return
				}
				hist := []Action{conn("S", "s", true), sub("S", 1, "t", 2), conn("X", "x", true)}
				id := uint16(100)
				for i := 0; i < done; i++ {
					id++
					hist = append(hist, Action{Kind: "pub2", Client: "X", Topic: "t", QoS: 2, ID: id, Payload: fmt.Sprintf("done-%d", i)})
				}
				var ids []uint16
				for i := 0; i < inflight; i++ {
					id++
					ids = append(ids, id)
					hist = append(hist, pub("X", "t", 2, id, fmt.Sprintf("m-%d", i)))
				}
				idx := make([]int, len(ids))
				for i := range idx {
					idx[i] = i
				}
				switch order {
				case "lifo":
					for i, j := 0, len(idx)-1; i < j; i, j = i+1, j-1 {
						idx[i], idx[j] = idx[j], idx[i]
					}
				case "rot5":
					k := 5 % len(idx)
					idx = append(idx[k:], idx[:k]...)
				}
				for _, i := range idx {
					hist = append(hist, Action{Kind: "pubrel", Client: "X", ID: ids[i]})
				}
				spec := &HistSpec{Name: "burst", Comps: comps}
				r := spec.RunHistory(hist, false)
				c.Rep.Evaluations++
				c.Rep.Executions++
				c.Rep.States++
				c.Rep.Nontrivial++
				c.Rep.Transitions += int64(r.Steps)
				if r.Violation != "" {
					rr := spec.RunHistory(hist, true)
					if c.Violate("C02 burst :: "+violClass(r.Violation), core.Replay{Scenario: fmt.Sprintf("burst: %d completed exchanges, then %d QoS 2 exchanges in flight, released %s", done, inflight, order), Message: r.Violation, Log: tailS(rr.Trace, 30)}) {
						return
					}
				}
			}
		}
	}
	c.Rep.Scenarios++
	c.Rep.Sample(map[string]interface{}{"search": "burst", "completed_before": []int{0, 3, 5, 8}, "in_flight": "1..36 (quick: 4,8,12,14..33)", "orders": []string{"fifo", "lifo", "rot5"}})
}

// c02burstReuse: the inbound queue is exactly full (16 or 32 exchanges open, or one below /
// above) with its head moved by completed exchanges; a sender releases one exchange that is
// not the oldest - it is completed (PUBCOMP) and its message held back behind the older ones -
// and, free to use that identifier again, opens a new exchange with it at once (the
// registration that would make the queue grow); or it repeats the PUBLISH of an exchange that
// is still open (DUP).  Then everything is released, oldest first.  Every message is handed
// on once, at its own PUBREL at the earliest, with its own content.
func c02burstReuse(c *core.Ctx, comps map[string]bool) {
	n := 0
	for _, done := range []int{0, 3, 5} {
		for _, inflight := range []int{15, 16, 17, 31, 32, 33} {
			for _, j := range []int{1, inflight / 2, inflight - 1} {
				for _, variant := range []string{"released, identifier used again", "open, PUBLISH repeated", "released + used again, another repeated"} {
					n++
					if c.NShards > 1 && n%c.NShards != c.Shard {
						continue
					}
					if !c.Thorough() && inflight > 17 && done == 5 {
						continue
					}
					if c.Expired() || c.HasViolation() {
						return
					}
					hist := []Action{conn("S", "s", true), sub("S", 1, "t", 2), conn("X", "x", true)}
					id := uint16(100)
					for i := 0; i < done; i++ {
						id++
						hist = append(hist, Action{Kind: "pub2", Client: "X", Topic: "t", QoS: 2, ID: id, Payload: fmt.Sprintf("done-%d", i)})
					}
					var ids []uint16
					for i := 0; i < inflight; i++ {
						id++
						ids = append(ids, id)
						hist = append(hist, pub("X", "t", 2, id, fmt.Sprintf("m-%d", i)))
					}
					released := map[int]bool{}
					again := false
					if variant != "open, PUBLISH repeated" {
						hist = append(hist, Action{Kind: "pubrel", Client: "X", ID: ids[j]})
						hist = append(hist, pub("X", "t", 2, ids[j], fmt.Sprintf("m-%d-second", j)))
						released[j] = true
						again = true
					}
					if variant != "released, identifier used again" {
						k := (j + 3) % inflight
						a := pub("X", "t", 2, ids[k], fmt.Sprintf("m-%d", k))
						a.Dup = true
						hist = append(hist, a)
					}
					for i := range ids {
						if !released[i] {
							hist = append(hist, Action{Kind: "pubrel", Client: "X", ID: ids[i]})
						}
					}
					if again {
						hist = append(hist, Action{Kind: "pubrel", Client: "X", ID: ids[j]})
					}
					spec := &HistSpec{Name: "burst-reuse", Comps: comps}
					r := spec.RunHistory(hist, false)
					c.Rep.Evaluations++
					c.Rep.Executions++
					c.Rep.States++
					c.Rep.Nontrivial++
					c.Rep.Transitions += int64(r.Steps)
					if r.Violation != "" {
						rr := spec.RunHistory(hist, true)
						if c.Violate("C02 burst-reuse :: "+violClass(r.Violation), core.Replay{Scenario: fmt.Sprintf("burst-reuse: %d completed exchanges, then %d QoS 2 exchanges in flight, exchange #%d %s", done, inflight, j, variant), Message: r.Violation, Log: tailS(rr.Trace, 30)}) {
							return
						}
					}
				}
			}
		}
	}
	c.Rep.Scenarios++
	c.Rep.Sample(map[string]interface{}{"search": "burst-reuse", "completed_before": []int{0, 3, 5}, "in_flight": []int{15, 16, 17, 31, 32, 33}, "variants": 3})
}

func init() { core.Register("C02", C02) }

// c02pinned: a packet identifier used again while the message of its completed
// exchange is still held back.  A sender has two QoS 2 exchanges open
// (identifiers 1 and 2) and releases the second first; the broker completes it
// (PUBCOMP 2) and holds its message back behind exchange 1.  The sender, who is
// free to use identifier 2 again, starts a new exchange with it (PUBLISH
// without DUP, PUBREC, PUBREL, PUBCOMP), then releases exchange 1.  Three
// messages are handed on, in that order.  (Before fix 32 the library took the new
// PUBLISH for a duplicate of the held message and "B" was lost.)
func c02pinned(c *core.Ctx) {
	name := "pinned: identifier 2 used again while the message of its completed exchange is held back behind exchange 1"
	if c.Replay != nil && c.Replay.Scenario != name {
		return
	}
	if c.Replay == nil && c.NShards > 1 && c.Shard != 0 {
		return
	}
	var got []string
	body := func() {
		got = nil
		t := newTD()
		p := t.connect("P", 0, 65535, false)
		s := t.connect("S", 0, 65535, false)
		t.subscribe("S", "t", 2)
		if vsched.Failed() {
			return
		}
		step := func(pk *refcodec.Packet, want byte) bool {
			p.rc.Send(pk)
			t.settleExcept()
			ans := p.rc.Take()
			if len(ans) != 1 || ans[0].Type != want || ans[0].ID != pk.ID {
				vsched.Failf("%s was answered by %s", pk, Describe(ans))
				return false
			}
			return true
		}
		pub := func(id uint16, pl string) *refcodec.Packet {
			return &refcodec.Packet{Type: refcodec.PUBLISH, Topic: []byte("t"), QoS: 2, ID: id, Payload: []byte(pl)}
		}
		rel := func(id uint16) *refcodec.Packet { return &refcodec.Packet{Type: refcodec.PUBREL, ID: id} }
		if !step(pub(1, "one"), refcodec.PUBREC) || !step(pub(2, "A"), refcodec.PUBREC) || !step(rel(2), refcodec.PUBCOMP) ||
			!step(pub(2, "B"), refcodec.PUBREC) || !step(rel(2), refcodec.PUBCOMP) || !step(rel(1), refcodec.PUBCOMP) {
			return
		}
		for _, m := range publishesOn(s.rc.Take(), "t") {
			got = append(got, string(m.Payload))
		}
		if t.badStream() {
			return
		}
	}
	res := explore.RunDefault(body)
	c.Rep.Executions++
	c.Rep.Evaluations++
	c.Rep.States++
	c.Rep.Transitions += int64(len(res.Points))
	if c.Replay != nil {
		fmt.Println("replay:", name, "\n  handed on:", got, res.Failures, firstLine(res.Crash))
		c.Rep.Scenarios++
		return
	}
	v := ""
	key := "C02 pinned :: "
	switch {
	case res.Status == vsched.StCrash:
		v = "a library goroutine panicked: " + firstLine(res.Crash)
	case len(res.Failures) > 0:
		v = res.Failures[0]
	case strings.Join(got, ",") != "one,A,B":
		v = fmt.Sprintf("three QoS 2 exchanges were completed (\"one\", \"A\", \"B\"); handed on: %v", got)
	}
	if v != "" {
		c.Violate(key+violClass(v), core.Replay{Scenario: name, Message: v, Log: res.Log, Crash: res.Crash})
	}
}

// c02late: "handed on at PUBREL time" also means: to whoever is subscribed at
// PUBREL time.  A QoS 2 PUBLISH arrives on a topic nobody is subscribed to
// (with and without a repeated PUBLISH), then a subscription, then the PUBREL:
// the new subscriber gets the message, once; a repeated PUBREL hands on nothing.
func c02late(c *core.Ctx) {
	for _, withDup := range []bool{false, true} {
		name := fmt.Sprintf("pinned: QoS 2 PUBLISH on a topic without subscriber (repeated: %v), SUBSCRIBE, PUBREL", withDup)
		if c.Replay != nil && c.Replay.Scenario != name {
			continue
		}
		if c.Replay == nil && c.NShards > 1 && c.Shard != 0 {
			return
		}
		withDup := withDup
		var got []string
		body := func() {
			got = nil
			t := newTD()
			p := t.connect("P", 0, 65535, false)
			s := t.connect("S", 0, 65535, false)
			if vsched.Failed() {
				return
			}
			step := func(pk *refcodec.Packet, want byte) bool {
				p.rc.Send(pk)
				t.settleExcept()
				ans := p.rc.Take()
				if len(ans) != 1 || ans[0].Type != want || ans[0].ID != pk.ID {
					vsched.Failf("%s was answered by %s", pk, Describe(ans))
					return false
				}
				return true
			}
			pub := &refcodec.Packet{Type: refcodec.PUBLISH, Topic: []byte("u"), QoS: 2, ID: 3, Payload: []byte("late-subscriber")}
			if !step(pub, refcodec.PUBREC) {
				return
			}
			if withDup {
				d := *pub
				d.Dup = true
				if !step(&d, refcodec.PUBREC) {
					return
				}
			}
			t.subscribe("S", "u", 2)
			if !step(&refcodec.Packet{Type: refcodec.PUBREL, ID: 3}, refcodec.PUBCOMP) || !step(&refcodec.Packet{Type: refcodec.PUBREL, ID: 3}, refcodec.PUBCOMP) {
				return
			}
			for _, m := range publishesOn(s.rc.Take(), "u") {
				got = append(got, string(m.Payload))
			}
			t.badStream()
		}
		res := explore.RunDefault(body)
		c.Rep.Executions++
		c.Rep.Evaluations++
		c.Rep.States++
		c.Rep.Transitions += int64(len(res.Points))
		if c.Replay != nil {
			fmt.Println("replay:", name, "\n  handed on:", got, res.Failures, firstLine(res.Crash))
			c.Rep.Scenarios++
			return
		}
		v := ""
		switch {
		case res.Status == vsched.StCrash:
			v = "a library goroutine panicked: " + firstLine(res.Crash)
		case len(res.Failures) > 0:
			v = res.Failures[0]
		case strings.Join(got, ",") != "late-subscriber":
			v = fmt.Sprintf("the subscription was acknowledged before the PUBREL; at PUBREL time the subscriber was handed %v, expected the message once", got)
		}
		if v != "" {
			if c.Violate("C02 pinned-late :: "+violClass(v), core.Replay{Scenario: name, Message: v, Log: res.Log, Crash: res.Crash}) {
				return
			}
		}
	}
}

// c02stalledRelease: the hand-over at PUBREL time is held up (the subscriber stopped reading,
// its ring is full) while the publisher goes on sending a ring's worth of other traffic; when
// the subscriber reads again the PUBREL is answered by a PUBCOMP with ITS identifier and the
// message arrives with the content of the original PUBLISH - whatever has passed through the
// publisher's incoming ring meanwhile.  The same for a QoS 1 PUBLISH and its PUBACK.
func c02stalledRelease(c *core.Ctx) {
	if c.NShards > 1 && c.Shard != 5%c.NShards {
		return
	}
	for _, q := range []byte{2, 1} {
		for _, lead := range []int{0, 1, 4000} {
			if c.Expired() || c.HasViolation() {
				return
			}
			q, lead := q, lead
			name := fmt.Sprintf("stalled hand-over: QoS %d exchange (identifier 0x0707) whose last packet ends %d bytes before the middle of the ring, subscriber stalled, then three 8192-byte segments", q, lead)
			var viol string
			body := func() {
				t := newTD()
				p := t.connect("P", 0, 65535, false)
				f := t.connect("F", 0, 65535, false)
				st := t.connect("S", 300, 65535, false)
				if p == nil || f == nil || st == nil {
					return
				}
				st.rc.Send(&refcodec.Packet{Type: refcodec.SUBSCRIBE, ID: 1, Topics: [][]byte{[]byte("t"), []byte("fill")}, QoSs: []byte{q, 0}})
				t.settleExcept()
				// S's outgoing ring is filled by F
				for k := 0; k < 2; k++ {
					f.rc.Send(bigPub("fill", 8000, byte(k)))
					t.settleExcept()
				}
				// (16018 of 16384 bytes are taken; 359 more leave no room for the message)
				f.rc.Send(bigPub("fill", 350, 9))
				t.settleExcept()
				// the packet that is being handed on while the subscriber stalls (the PUBREL, or the
				// QoS 1 PUBLISH itself) ends `lead` bytes before the middle of P's incoming ring,
				// and two segments of exactly one read block follow: whatever the receiver may
				// overwrite, it can
				payload := "the-original-" + big(900, 5)
				pubWire := refcodec.Encode(&refcodec.Packet{Type: refcodec.PUBLISH, Topic: []byte("t"), QoS: q, ID: 0x0707, Payload: []byte(payload)})
				exact := func(size int, salt byte) []byte {
					// one QoS 0 PUBLISH on "nobody" of exactly size bytes (size >= 140)
					return refcodec.Encode(&refcodec.Packet{Type: refcodec.PUBLISH, Topic: []byte("nobody"), Payload: []byte(big(size-11, salt))})
				}
				p.rc.AutoAck = false
				end := 8192 - lead // where the packet in question ends
				if q == 2 {
					p.rc.Conn.Write(pubWire)
					t.settleExcept()
					p.rc.Conn.Write(exact(end-4-len(pubWire), 7))
					t.settleExcept()
					p.rc.Conn.Write(refcodec.Encode(&refcodec.Packet{Type: refcodec.PUBREL, ID: 0x0707}))
				} else {
					p.rc.Conn.Write(exact(end-len(pubWire), 7))
					t.settleExcept()
					p.rc.Conn.Write(pubWire)
				}
				t.settleExcept()
				// P's processor is in the fan-out now (S has no room); P goes on sending
				for k := 0; k < 3; k++ {
					p.rc.Conn.Write(exact(8192, byte(0xaa)))
					t.settleExcept()
				}
				// S reads again
				st.noRead = false
				for i := 0; i < 80; i++ {
					t.settleExcept()
				}
				if t.badStream() {
					return
				}
				var acks []string
				for _, pk := range p.rc.Take() {
					switch pk.Type {
					case refcodec.PUBACK, refcodec.PUBREC, refcodec.PUBCOMP:
						acks = append(acks, fmt.Sprintf("%s(%#04x)", refcodec.Name(pk.Type), pk.ID))
					}
				}
				want := "PUBACK(0x0707)"
				if q == 2 {
					want = "PUBREC(0x0707) PUBCOMP(0x0707)"
				}
				if got := strings.Join(acks, " "); got != want {
					vsched.Failf("acknowledgements to the publisher: %s, expected %s", got, want)
					return
				}
				n := 0
				for _, pk := range st.rc.Take() {
					if pk.Type == refcodec.PUBLISH && string(pk.Topic) == "t" {
						n++
						if string(pk.Payload) != payload {
							vsched.Failf("the message handed on differs from the original PUBLISH (%d bytes, begins %q)", len(pk.Payload), head(pk.Payload, 24))
							return
						}
					}
				}
				if n != 1 {
					vsched.Failf("the subscriber received the message %d times", n)
				}
			}
			res := explore.RunDefault(body)
			c.Rep.Executions++
			c.Rep.States++
			c.Rep.Transitions += int64(len(res.Points))
			if res.Status == vsched.StCrash {
				viol = "a library goroutine panicked: " + firstLine(res.Crash)
			} else if len(res.Failures) > 0 {
				viol = res.Failures[0]
			}
			if viol != "" {
				if c.Violate("C02 stalled hand-over :: "+violClass(viol), core.Replay{Scenario: name, Message: viol}) {
					return
				}
			}
		}
	}
	c.Rep.Scenarios++
}
