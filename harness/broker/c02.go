package broker

import "verif/harness/core"

// C02 (broker role): receiver side of QoS 1/2.
func C02(c *core.Ctx) {
	c.Rep.Bound = "HIST, broker role: PUBLISH QoS 1 / QoS 2 (payload A), repeated PUBLISH with the same id (DUP, payload B), PUBREL, repeated PUBREL over packet ids {1,2}, an 8000-byte filler that wraps the rings, one subscriber granted QoS 2; BFS de-duplicated on model + implementation state to depth 6 (quick) / 8 (thorough) and every sequence to depth 4 (quick) / 5 (thorough); client role: see C20/C12 harness (library Client against a scripted server)"
	c.Rep.Rule = "per packet one PUBACK/PUBREC/PUBCOMP with the same id; QoS 1 handed on once per PUBLISH; QoS 2 handed on at most once per exchange, never before its PUBREL, at the latest once its PUBREL and those of earlier exchanges are processed, with the content of the first PUBLISH; distinct = canonical model (open exchanges with released/delivered flags) + implementation state"
	p8k := big(8000, 7)
	var ops []Action
	for _, id := range []uint16{1, 2} {
		ops = append(ops,
			pub("X", "t", 1, id, "A1"),
			pub("X", "t", 2, id, "A2"),
			Action{Kind: "pub", Client: "X", Topic: "t", QoS: 2, ID: id, Payload: "B2", Dup: true},
			Action{Kind: "pubrel", Client: "X", ID: id},
		)
	}
	ops = append(ops, pub("X", "zz", 0, 0, p8k), Action{Kind: "pub", Client: "X", Topic: "t", QoS: 2, ID: 1, Payload: p8k})
	comps := map[string]bool{"acks": true, "route": true, "stream": true, "closed": true}
	prefix := []Action{conn("S", "s", true), sub("S", 1, "t", 2), conn("X", "x", true)}
	d1, d2 := 6, 4
	if c.Thorough() {
		d1, d2 = 8, 5
	}
	spec := &HistSpec{Name: "receiver-qos", Ops: ops, Depth: d1, Dedup: true, Comps: comps, Prefix: prefix, ExtraKey: wrapKey}
	spec.Search(c)
	if c.HasViolation() || c.Expired() {
		return
	}
	seq := &HistSpec{Name: "receiver-qos-sequences", Ops: ops, Depth: d2, Dedup: false, Comps: comps, Prefix: prefix}
	seq.Search(c)
	if c.HasViolation() || c.Expired() {
		return
	}
	c02client(c)
}

func init() { core.Register("C02", C02) }
