package broker

import (
	"fmt"

	"verif/harness/core"
)

// C08: retained messages (HIST part; the concurrent part is in the SCHED checks).
func C08(c *core.Ctx) {
	c.Rep.Bound = "HIST: retained / non-retained / empty-payload publishes at QoS 0-2 on three topics (one with an 8000-byte payload, two that differ in nothing but the QoS), ring-wrapping filler traffic, subscriptions with literal and wildcard filters (single and multi-filter), in-process Publish/Subscribe; BFS de-duplicated on model + implementation state, depth 5 (quick) / 7 (thorough); plus all sequences of depth 3/4 on a populated broker; the same searches one level shallower with the server's QoS cap at 1 and at 0; SCHED: retained replace || subscribe (QoS 0/1) and retained publish || subscriber teardown, every schedule deviating from the default at <= 1 (quick) / 2 (thorough) points"
	c.Rep.Rule = "after every action: each new subscription receives exactly the matching retained messages (retain=1, QoS min(stored, granted), payload byte-identical), live forwards carry retain=0, an empty retained payload clears; distinct = canonical model + retained tree states"
	pr := func(topic string, q byte, id uint16, payload string) Action {
		a := Action{Kind: "pub", Client: "P", Topic: topic, QoS: q, ID: id, Payload: payload, Retain: true}
		if q == 2 {
			a.Kind = "pub2"
		}
		return a
	}
	p8k := big(8000, 5)
	ops := []Action{
		pr("a", 1, 11, "P1"), pr("a", 0, 0, "P1"), pr("a", 0, 0, p8k), pr("a", 2, 12, ""), pr("a/b", 2, 13, "P3"), pr("b", 0, 0, "P4"), pr("a/b", 1, 14, ""),
		pub("P", "a", 1, 15, "not-retained"),
		pub("P", "zz", 0, 0, big(8100, 6)),
		conn("S", "s", true),
		sub("S", 21, "a", 1), sub("S", 22, "a/#", 0), sub("S", 23, "+", 2), sub("S", 24, "#", 1),
		{Kind: "sub", Client: "S", ID: 25, Filters: []string{"a", "a/#"}, QoSs: []byte{1, 2}},
		// several filters with the granted QoS going down: each retained message is downgraded by its own filter only
		{Kind: "sub", Client: "S", ID: 27, Filters: []string{"a/#", "b", "a"}, QoSs: []byte{2, 0, 1}},
		unsub("S", 26, "a"), {Kind: "disconnect", Client: "S"},
		{Kind: "lpub", Topic: "a", QoS: 1, Retain: true, Payload: "L1"}, {Kind: "lsub", Client: "L", Filters: []string{"a/#"}, QoSs: []byte{1}},
	}
	comps := map[string]bool{"retained": true, "route": true, "stream": true}
	depth := 5
	if c.Thorough() {
		depth = 7
	}
	prefix := []Action{conn("P", "p", true)}
	spec := &HistSpec{Name: "retained", Ops: ops, Depth: depth, Dedup: true, Comps: comps, Prefix: prefix, ExtraKey: wrapKey}
	spec.Search(c)
	if c.HasViolation() || c.Expired() {
		return
	}
	sd := 3
	if c.Thorough() {
		sd = 4
	}
	seq := &HistSpec{Name: "retained-sequences", Ops: ops, Depth: sd, Dedup: false, Comps: comps,
		Prefix: []Action{conn("P", "p", true), pr("a", 1, 1, "old"), pr("a/b", 0, 0, "old-ab"), conn("S", "s", true)}}
	seq.Search(c)
	if c.HasViolation() || c.Expired() {
		return
	}
	// the server grants less than what is requested (topics.MaxQosAllowed 1 and 0): a retained
	// message goes to a new subscription at min(stored, GRANTED), not min(stored, requested)
	for _, mq := range []byte{1, 0} {
		cfg := Config{MaxQos: mq, MaxQosSet: true}
		capped := &HistSpec{Name: fmt.Sprintf("retained-maxqos%d", mq), Ops: ops, Depth: depth - 1, Dedup: true, Comps: comps, Prefix: prefix, ExtraKey: wrapKey, Cfg: cfg}
		capped.Search(c)
		if c.HasViolation() || c.Expired() {
			return
		}
		cseq := &HistSpec{Name: fmt.Sprintf("retained-sequences-maxqos%d", mq), Ops: ops, Depth: sd - 1, Dedup: false, Comps: comps, Cfg: cfg,
			Prefix: []Action{conn("P", "p", true), pr("a", 2, 1, "old"), pr("a/b", 1, 2, "old-ab"), conn("S", "s", true)}}
		cseq.Search(c)
		if c.HasViolation() || c.Expired() {
			return
		}
	}
	c08sched(c)
}

func init() { core.Register("C08", C08) }
