package broker

import (
	"encoding/json"
	"fmt"
	"sort"
	"strings"
	"time"

	"github.com/mdzio/go-mqtt/message"
	"github.com/mdzio/go-mqtt/topics"
	"github.com/mdzio/go-mqtt/verifrt/vsched"
	"verif/engine/explore"
	"verif/harness/core"
	"verif/models/refcodec"
	"verif/models/refmatch"
)

// ---- connect results -------------------------------------------------------

type connackCase struct {
	desc   string
	raw    []byte
	close  bool          // server closes right after sending
	wait   time.Duration // then virtual time passes
	wantOK bool
	code   byte // expected refusal code (0: any error is fine)
}

func connackCases() []connackCase {
	var out []connackCase
	for code := byte(0); code <= 5; code++ {
		for _, sp := range []bool{false, true} {
			p := &refcodec.Packet{Type: refcodec.CONNACK, ReturnCode: code, SessionPresent: sp}
			out = append(out, connackCase{desc: p.String(), raw: refcodec.Encode(p), wantOK: code == 0, code: code})
		}
	}
	out = append(out,
		connackCase{desc: "CONNACK with return code 6", raw: []byte{0x20, 0x02, 0x00, 0x06}},
		connackCase{desc: "CONNACK with reserved flag bits", raw: []byte{0x20, 0x02, 0x02, 0x00}},
		connackCase{desc: "CONNACK with remaining length 1", raw: []byte{0x20, 0x01, 0x00}},
		connackCase{desc: "CONNACK with remaining length 0", raw: []byte{0x20, 0x00}},
		connackCase{desc: "PINGRESP instead of CONNACK", raw: []byte{0xd0, 0x00}},
		connackCase{desc: "truncated CONNACK then close", raw: []byte{0x20, 0x02, 0x00}, close: true},
		connackCase{desc: "one byte then close", raw: []byte{0x20}, close: true},
		connackCase{desc: "close without answer", raw: nil, close: true},
		connackCase{desc: "silence until the connect timeout", raw: nil, wait: 2100 * time.Millisecond},
		connackCase{desc: "half a CONNACK, then silence", raw: []byte{0x20, 0x02}, wait: 2100 * time.Millisecond},
	)
	return out
}

func runConnack(cc connackCase) (viol string) {
	body := func() {
		w := NewClientWorld()
		if w.StartConnect("cid", 60, 0) == nil {
			return
		}
		if len(cc.raw) > 0 {
			w.Srv.SendRaw(cc.raw)
		}
		if cc.close {
			w.Srv.Cut()
		}
		w.Settle()
		if cc.wait > 0 {
			w.Advance(cc.wait)
		}
		if !w.ConnDone {
			vsched.Failf("Client.Connect has not returned (answer: %s)", cc.desc)
			return
		}
		if cc.wantOK {
			if w.ConnErr != nil {
				vsched.Failf("Client.Connect failed although the server answered CONNACK code 0: %v", w.ConnErr)
			}
			// it must be usable: a ping round trip
			done := 0
			w.Cl.Ping(func(m, a message.Message, err error) error { done++; return nil })
			w.Settle()
			ps := w.Srv.Take()
			if len(ps) != 1 || ps[0].Type != refcodec.PINGREQ {
				vsched.Failf("after a successful Connect a Ping does not reach the server: %s", Describe(ps))
			}
			return
		}
		if w.ConnErr == nil {
			vsched.Failf("Client.Connect returned nil although the server answered: %s", cc.desc)
			return
		}
		if cc.code != 0 {
			if rc, ok := w.ConnErr.(message.ConnackCode); !ok || byte(rc) != cc.code {
				vsched.Failf("Client.Connect returned %q, expected refusal code %d", w.ConnErr, cc.code)
			}
		}
		// no goroutine left behind, socket closed
		if alive := LibThreadsAlive(); len(alive) > 0 {
			vsched.Failf("after a refused Connect %d library goroutines are still alive: %s", len(alive), core.ParkedString(alive))
		}
		if !cc.close && !w.Srv.EOF && w.Srv.ReadErr == "" {
			vsched.Failf("after a refused Connect the client left its socket open")
		}
		if vsched.Failed() {
			return
		}
		// the application tries again with the same client identifier and the server accepts:
		// the failed attempt must not have left anything behind that stands in the way
		w.ConnDone, w.ConnErr = false, nil
		if w.StartConnect("cid", 60, 0) == nil {
			return
		}
		w.Srv.Send(&refcodec.Packet{Type: refcodec.CONNACK})
		w.Settle()
		if !w.ConnDone || w.ConnErr != nil {
			vsched.Failf("second attempt with the same client id after a failed one (%s): the server answered CONNACK code 0, Client.Connect: done=%v err=%v", cc.desc, w.ConnDone, w.ConnErr)
			return
		}
		w.Cl.Ping(func(m, a message.Message, err error) error { return nil })
		w.Settle()
		if ps := w.Srv.Take(); len(ps) != 1 || ps[0].Type != refcodec.PINGREQ {
			vsched.Failf("after the second, successful Connect a Ping does not reach the server: %s", Describe(ps))
		}
	}
	res := explore.RunDefault(body)
	if res.Status == vsched.StCrash {
		return "a library goroutine panicked: " + firstLine(res.Crash)
	}
	if len(res.Failures) > 0 {
		return res.Failures[0]
	}
	return ""
}

// runReconnect: the server drops the connection (the application does not call
// Disconnect), the application connects again with the same client identifier
// and subscribes another filter.  The callbacks of the first connection's
// requests are gone with that connection: a delivery on the old filter invokes
// nobody, one on the new filter its callback exactly once.
// runClientIDs: the client identifier is the application's choice.  Client.Connect
// must succeed on CONNACK code 0 whatever it is - also when it equals the name of
// a registered topics provider ("mem", registered by the package itself) or the
// identifier of another Client of the same process that is connected (to another
// server, say) - and the two clients' callbacks must stay apart.
func runClientIDs(how string) (viol string) {
	body := func() {
		w := NewClientWorld()
		cid := "cid"
		if how == "client id mem" {
			cid = "mem"
		}
		if !w.Connected(cid) {
			return
		}
		w.Srv.Take()
		subscribe := func(w *ClientWorld, filter string) *creq {
			r, err := w.Issue("sub", []string{filter}, []byte{0}, "")
			if err != nil {
				vsched.Failf("Subscribe(%s) failed: %v", filter, err)
				return nil
			}
			w.Settle()
			ps := w.Srv.Take()
			if len(ps) != 1 || ps[0].Type != refcodec.SUBSCRIBE {
				vsched.Failf("harness: %s on the wire", Describe(ps))
				return nil
			}
			w.ServerSend(&refcodec.Packet{Type: refcodec.SUBACK, ID: ps[0].ID, Codes: []byte{0}})
			w.Settle()
			return r
		}
		r1 := subscribe(w, "one/#")
		if r1 == nil {
			return
		}
		switch how {
		case "client id mem":
			w.ServerSend(&refcodec.Packet{Type: refcodec.PUBLISH, Topic: []byte("one/x"), Payload: []byte("p")})
			w.Settle()
			if d := w.TakeDeliveries(); len(d[r1.Idx]) != 1 {
				vsched.Failf("client with the identifier %q: callback invoked %d times for one delivery", cid, len(d[r1.Idx]))
				return
			}
			w.Cl.Disconnect()
			w.Settle()
			if alive := LibThreadsAlive(); len(alive) > 0 {
				vsched.Failf("after Disconnect %d library goroutines are still alive: %s", len(alive), core.ParkedString(alive))
				return
			}
			// the process-wide provider of that name is still there for a server
			if _, err := topics.NewManager("mem"); err != nil {
				vsched.Failf("after a client with the identifier %q has disconnected, the topics provider of that name is gone from the registry: %v", cid, err)
			}
		case "two clients, one id":
			// a second Client object, same identifier, its own connection
			w2 := &ClientWorld{Ln: w.Ln, Delivered: map[int][]string{}}
			if !w2.Connected(cid) {
				return
			}
			w2.Srv.Take()
			r2 := subscribe(w2, "two/#")
			if r2 == nil {
				return
			}
			for _, t := range []string{"one/x", "two/x"} {
				w.ServerSend(&refcodec.Packet{Type: refcodec.PUBLISH, Topic: []byte(t), Payload: []byte("to-1")})
				w2.ServerSend(&refcodec.Packet{Type: refcodec.PUBLISH, Topic: []byte(t), Payload: []byte("to-2")})
			}
			w.Settle()
			w2.Settle()
			d1, d2 := w.TakeDeliveries(), w2.TakeDeliveries()
			if len(d1[r1.Idx]) != 1 || d1[r1.Idx][0] != "one/x=to-1@0" {
				vsched.Failf("two clients with one identifier: the first client's callback for one/# saw %v (expected its own delivery on one/x only)", d1[r1.Idx])
				return
			}
			if len(d2[r2.Idx]) != 1 || d2[r2.Idx][0] != "two/x=to-2@0" {
				vsched.Failf("two clients with one identifier: the second client's callback for two/# saw %v (expected its own delivery on two/x only)", d2[r2.Idx])
				return
			}
			// the first one leaves; the second goes on
			w.Cl.Disconnect()
			w.Settle()
			w2.ServerSend(&refcodec.Packet{Type: refcodec.PUBLISH, Topic: []byte("two/y"), Payload: []byte("later")})
			w2.Settle()
			if d := w2.TakeDeliveries(); len(d[r2.Idx]) != 1 {
				vsched.Failf("two clients with one identifier: after the first one disconnected the second client's callback saw %v for one delivery on two/y", d[r2.Idx])
				return
			}
			w2.Cl.Disconnect()
			w2.Settle()
			if alive := LibThreadsAlive(); len(alive) > 0 {
				vsched.Failf("after both clients disconnected %d library goroutines are still alive: %s", len(alive), core.ParkedString(alive))
			}
		}
	}
	res := explore.RunDefault(body)
	if res.Status == vsched.StCrash {
		return "a library goroutine panicked: " + firstLine(res.Crash)
	}
	if len(res.Failures) > 0 {
		return res.Failures[0]
	}
	return ""
}

func runReconnect(how string) (viol string) {
	body := func() {
		w := NewClientWorld()
		if !w.Connected("cid") {
			return
		}
		w.Srv.Take()
		r1, err := w.Issue("sub", []string{"old/#"}, []byte{1}, "")
		if err != nil {
			vsched.Failf("Subscribe failed: %v", err)
			return
		}
		w.Settle()
		ps := w.Srv.Take()
		if len(ps) != 1 || ps[0].Type != refcodec.SUBSCRIBE {
			vsched.Failf("harness: %s on the wire", Describe(ps))
			return
		}
		w.ServerSend(&refcodec.Packet{Type: refcodec.SUBACK, ID: ps[0].ID, Codes: []byte{1}})
		w.Settle()
		w.ServerSend(&refcodec.Packet{Type: refcodec.PUBLISH, Topic: []byte("old/x"), Payload: []byte("first")})
		w.Settle()
		if d := w.TakeDeliveries(); len(d[r1.Idx]) != 1 {
			vsched.Failf("harness: the first connection's callback saw %s", fmtDeliv(d))
			return
		}
		switch how {
		case "server closes":
			w.Srv.Cut()
		case "server sends garbage":
			w.Srv.SendRaw([]byte{0xf0, 0x00})
		}
		w.Settle()
		if alive := LibThreadsAlive(); len(alive) > 0 {
			vsched.Failf("after the server ended the connection (%s) %d library goroutines are still alive: %s", how, len(alive), core.ParkedString(alive))
			return
		}
		// again, same client identifier
		w.ConnDone, w.ConnErr = false, nil
		if w.StartConnect("cid", 60, 0) == nil {
			return
		}
		w.Srv.Send(&refcodec.Packet{Type: refcodec.CONNACK})
		w.Settle()
		if !w.ConnDone || w.ConnErr != nil {
			vsched.Failf("Connect after the server had ended the first connection (%s): done=%v err=%v", how, w.ConnDone, w.ConnErr)
			return
		}
		r2, err := w.Issue("sub", []string{"new/#"}, []byte{1}, "")
		if err != nil {
			vsched.Failf("Subscribe on the second connection failed: %v", err)
			return
		}
		w.Settle()
		ps = w.Srv.Take()
		if len(ps) != 1 || ps[0].Type != refcodec.SUBSCRIBE {
			vsched.Failf("harness: %s on the wire", Describe(ps))
			return
		}
		w.ServerSend(&refcodec.Packet{Type: refcodec.SUBACK, ID: ps[0].ID, Codes: []byte{1}})
		w.Settle()
		w.ServerSend(&refcodec.Packet{Type: refcodec.PUBLISH, Topic: []byte("old/x"), Payload: []byte("second")})
		w.ServerSend(&refcodec.Packet{Type: refcodec.PUBLISH, Topic: []byte("new/x"), Payload: []byte("third")})
		w.Settle()
		d := w.TakeDeliveries()
		if len(d[r1.Idx]) != 0 {
			vsched.Failf("the message callback of a Subscribe request of the first connection was invoked on the second connection: %s", fmtDeliv(d))
			return
		}
		if len(d[r2.Idx]) != 1 {
			vsched.Failf("the second connection's callback for new/# was invoked %d times for one delivery: %s", len(d[r2.Idx]), fmtDeliv(d))
		}
	}
	res := explore.RunDefault(body)
	if res.Status == vsched.StCrash {
		return "a library goroutine panicked: " + firstLine(res.Crash)
	}
	if len(res.Failures) > 0 {
		return res.Failures[0]
	}
	return ""
}

// ---- dispatch histories ----------------------------------------------------

type cop struct {
	kind    string // api:sub api:unsub srv:suback srv:subfail srv:unsuback srv:pub srv:pubrel
	filters []string
	qoss    []byte
	topic   string
	qos     byte
	id      uint16
	dup     bool
	payload string
}

func (o cop) String() string {
	switch o.kind {
	case "api:sub":
		var fs []string
		for i, f := range o.filters {
			fs = append(fs, fmt.Sprintf("%s@%d", f, o.qoss[i]))
		}
		return "Subscribe(" + strings.Join(fs, ",") + ")"
	case "api:unsub":
		return "Unsubscribe(" + strings.Join(o.filters, ",") + ")"
	case "srv:pub":
		return fmt.Sprintf("server PUBLISH(%s,q%d,id=%d,dup=%v,%s)", o.topic, o.qos, o.id, o.dup, o.payload)
	case "srv:pubrel":
		return fmt.Sprintf("server PUBREL(%d)", o.id)
	}
	if o.kind == "srv:suback-newest" {
		return "server suback for the newest open request"
	}
	return "server " + strings.TrimPrefix(o.kind, "srv:") + " for the oldest open request"
}

// wantD: one message one request must (min 1) or may (min 0) see.
type wantD struct {
	min      int
	nfilters int
	ex       *cex
}

// cex is an inbound QoS 2 exchange at the client.
type cex struct {
	op        *cop
	released  bool
	delivered bool
}

// runDispatch replays a history of client API calls and scripted-server packets.
func runDispatch(ops []cop, hist []int, trace bool) (viol, key string, steps int) {
	var log []string
	body := func() {
		w := NewClientWorld()
		if !w.Connected("cid") {
			return
		}
		q2 := map[uint16]*cex{} // inbound QoS 2 exchanges at the client
		var q2order []*cex      // all exchanges, oldest first (q2: the newest one per identifier)
		unsubDone := map[string]bool{}
		_ = unsubDone
		for _, hi := range hist {
			o := ops[hi]
			steps++
			var wantWire []*refcodec.Packet
			wants := map[string]*wantD{} // "request|payload" -> expectation
			// a Subscribe has completed (and its callback is due) once its SUBACK and
			// those of all earlier Subscribe requests have arrived: completions are
			// handed out in request order (C12/C13); between its own SUBACK and that
			// moment a request may or may not see messages
			due := func(idx int) bool {
				for _, x := range w.Requests {
					if x.Kind == "sub" && x.Idx < idx && !x.Acked {
						return false
					}
				}
				return true
			}
			addWant := func(topic, payload string, min int, ex *cex) {
				for idx, n := range w.expectedDeliveries(topic) {
					m := min
					if !due(idx) {
						m = 0
					}
					wants[fmt.Sprintf("%d|%s", idx, payload)] = &wantD{min: m, nfilters: n, ex: ex}
				}
			}
			switch o.kind {
			case "api:sub", "api:unsub":
				r, err := w.Issue(strings.TrimPrefix(o.kind, "api:"), o.filters, o.qoss, "")
				if err != nil {
					vsched.Failf("%s failed: %v", o, err)
					return
				}
				w.Settle()
				ps := w.Srv.Take()
				if len(ps) != 1 {
					vsched.Failf("%s put %s on the wire", o, Describe(ps))
					return
				}
				r.ID = ps[0].ID
				continue
			case "srv:suback", "srv:subfail", "srv:suback-newest":
				var r *creq
				for _, x := range w.Requests {
					if x.Kind == "sub" && !x.Acked {
						r = x
						if o.kind != "srv:suback-newest" {
							break
						}
					}
				}
				if r == nil {
					key = "DEAD-END"
					return
				}
				codes := make([]byte, len(r.Filters))
				for i := range codes {
					codes[i] = r.QoSs[i]
					r.Granted[i] = true
					if o.kind == "srv:subfail" && i == 0 {
						codes[i] = 0x80
						r.Granted[i] = false
					}
					r.Active[i] = r.Granted[i]
				}
				r.Acked = true
				w.ServerSend(&refcodec.Packet{Type: refcodec.SUBACK, ID: r.ID, Codes: codes})
			case "srv:unsuback":
				var r *creq
				for _, x := range w.Requests {
					if x.Kind == "unsub" && !x.Acked {
						r = x
						break
					}
				}
				if r == nil {
					key = "DEAD-END"
					return
				}
				r.Acked = true
				// the filter stops for every request that holds it
				for _, f := range r.Filters {
					for _, x := range w.Requests {
						if x.Kind == "sub" {
							for i, xf := range x.Filters {
								if xf == f {
									x.Active[i] = false
									// SUBACK received, completion still held back behind an older Subscribe:
									// the library registers the filter when that completion comes, i.e. after
									// this Unsubscribe has completed (listed finding KnownLate)
									x.Late[i] = x.Acked && !due(x.Idx)
								}
							}
						}
					}
				}
				w.ServerSend(&refcodec.Packet{Type: refcodec.UNSUBACK, ID: r.ID})
			case "srv:pub":
				w.ServerSend(&refcodec.Packet{Type: refcodec.PUBLISH, Topic: []byte(o.topic), Payload: []byte(o.payload), QoS: o.qos, ID: o.id, Dup: o.dup})
				switch o.qos {
				case 1:
					wantWire = []*refcodec.Packet{{Type: refcodec.PUBACK, ID: o.id}}
				case 2:
					wantWire = []*refcodec.Packet{{Type: refcodec.PUBREC, ID: o.id}}
					// a repetition while the exchange with this identifier is open; a new exchange once
					// that one was completed by PUBCOMP (even if its message still waits its turn)
					if q2[o.id] == nil || q2[o.id].released {
						oc := o
						q2[o.id] = &cex{op: &oc}
						q2order = append(q2order, q2[o.id])
					}
				}
				if o.qos < 2 {
					addWant(o.topic, o.payload, 1, nil)
				}
			case "srv:pubrel":
				w.ServerSend(&refcodec.Packet{Type: refcodec.PUBREL, ID: o.id})
				wantWire = []*refcodec.Packet{{Type: refcodec.PUBCOMP, ID: o.id}}
				if ex := q2[o.id]; ex != nil && !ex.released {
					ex.released = true
					// FIFO of exchanges: must be handed on once its PUBREL and those of all
					// earlier exchanges are processed, may be handed on from its own PUBREL on
					for len(q2order) > 0 && q2order[0].released {
						hd := q2order[0]
						if q2[hd.op.id] == hd {
							delete(q2, hd.op.id)
						}
						q2order = q2order[1:]
						if !hd.delivered {
							addWant(hd.op.topic, hd.op.payload, 1, nil)
						}
					}
					if cur, still := q2[o.id]; still && cur == ex {
						addWant(ex.op.topic, ex.op.payload, 0, ex)
					}
				}
			}
			w.Settle()
			got := w.Srv.Take()
			if d := diffWire(got, wantWire); d != "" {
				vsched.Failf("after %s: %s", o, d)
				return
			}
			deliv := w.TakeDeliveries()
			// per request and payload: how often was the callback invoked
			gotN := map[string]int{}
			topicOf := map[string]string{}
			for idx, msgs := range deliv {
				for _, m := range msgs {
					pl := m[strings.Index(m, "=")+1 : strings.LastIndex(m, "@")]
					gotN[fmt.Sprintf("%d|%s", idx, pl)]++
					topicOf[pl] = m[:strings.Index(m, "=")]
				}
			}
			// filters of a request the library registered late (see creq.Late) that match a topic
			lateMatch := func(r *creq, topic string) int {
				n := 0
				for i, f := range r.Filters {
					if r.Late[i] && r.Granted[i] && due(r.Idx) && refmatch.Matches(f, topic) {
						n++
					}
				}
				return n
			}
			for k, n := range gotN {
				var idx int
				fmt.Sscanf(k, "%d|", &idx)
				pl := k[strings.Index(k, "|")+1:]
				r := w.Requests[idx]
				wd, ok := wants[k]
				if !ok {
					if !r.Acked {
						continue // before its SUBACK a request may or may not see messages
					}
					if lm := lateMatch(r, topicOf[pl]); lm > 0 && n <= lm {
						if n > 1 && !overlapKnown {
							vsched.Failf("overlap: after %s: the callback of request %d (%v) was invoked %d times for one message", o, idx, r.Filters, n)
							return
						}
						if lateKnown {
							lateHits++
							continue
						}
						vsched.Failf("late-registration: after %s: the callback of request %d (%v) was invoked with payload %s on %q although the Unsubscribe for the matching filter has completed (it completed between this request's SUBACK and its completion)", o, idx, r.Filters, short(pl), topicOf[pl])
						return
					}
					vsched.Failf("after %s: the callback of request %d (%v) was invoked with payload %s although no active filter of it matches a message handed on now", o, idx, r.Filters, short(pl))
					return
				}
				if wd.ex != nil && n > 0 {
					wd.ex.delivered = true
				}
				if n > 1 {
					lm := lateMatch(r, topicOf[pl])
					if lm > 0 && n <= wd.nfilters+lm {
						// registered twice for this topic, once of them late: both listed findings together
						if overlapKnown && lateKnown {
							overlapHits++
							lateHits++
							continue
						}
						vsched.Failf("late-registration: after %s: the callback of request %d (%v) was invoked %d times for one message on %q: once more through a filter whose Unsubscribe completed between this request's SUBACK and its completion", o, idx, r.Filters, n, topicOf[pl])
						return
					}
					if wd.nfilters > 1 {
						// one request, several of its filters match: the statement says once per message
						if overlapKnown {
							overlapHits++
							continue
						}
						vsched.Failf("overlap: after %s: the callback of request %d (%v) was invoked %d times for one message", o, idx, r.Filters, n)
						return
					}
					vsched.Failf("after %s: the callback of request %d was invoked %d times for one message", o, idx, n)
					return
				}
			}
			for k, wd := range wants {
				if wd.min > 0 && gotN[k] == 0 {
					var idx int
					fmt.Sscanf(k, "%d|", &idx)
					vsched.Failf("after %s: the callback of request %d (%v) was not invoked; callbacks saw %s", o, idx, w.Requests[idx].Filters, fmtDeliv(deliv))
					return
				}
			}
			// completion callbacks
			for _, r := range w.Requests {
				if r.Completed > 1 {
					vsched.Failf("after %s: the completion callback of request %d (%s) fired %d times", o, r.Idx, r.Kind, r.Completed)
					return
				}
				if r.Completed == 1 && !r.Acked {
					vsched.Failf("after %s: the completion callback of request %d (%s) fired before its acknowledgement was sent", o, r.Idx, r.Kind)
					return
				}
			}
			if trace {
				log = append(log, fmt.Sprintf("%s -> wire %s deliveries %s", o, Describe(got), fmtDeliv(deliv)))
			}
		}
		// FIFO: completion is due once the ack and those of all earlier requests of the same kind were sent
		for _, kind := range []string{"sub", "unsub"} {
			blocked := false
			for _, r := range w.Requests {
				if r.Kind != kind {
					continue
				}
				if !r.Acked {
					blocked = true
				}
				if r.Acked && !blocked && r.Completed != 1 {
					vsched.Failf("the completion callback of request %d (%s) did not fire although its acknowledgement and those of all earlier requests were sent", r.Idx, r.Kind)
					return
				}
			}
		}
		// canonical key
		var ks []string
		for _, r := range w.Requests {
			ks = append(ks, fmt.Sprintf("%s%v%v%v%v", r.Kind, r.Filters, r.Acked, r.Active, r.Completed))
		}
		var q []string
		for id, ex := range q2 {
			q = append(q, fmt.Sprintf("%d:%s:%v:%v", id, short(ex.op.payload), ex.released, ex.delivered))
		}
		sort.Strings(q)
		// implementation state: the client's local topic tree and what is still
		// registered in its ack queues
		pend := w.Cl.VerifPending()
		key = strings.Join(ks, ";") + "|" + strings.Join(q, ",") + "|" + w.Cl.VerifTopicsDump() + fmt.Sprintf("|%d.%d", pend["sub"], pend["unsub"])
	}
	res := explore.RunDefault(body)
	if trace {
		for _, l := range log {
			fmt.Println("  ", l)
		}
	}
	if res.Status == vsched.StCrash {
		return "a library goroutine panicked: " + firstLine(res.Crash), "", steps
	}
	if len(res.Failures) > 0 {
		return res.Failures[0], "", steps
	}
	return "", key, steps
}

// KnownOverlap is the fingerprint of the listed finding about overlapping
// filters within one Subscribe request.
const KnownOverlap = "C20 overlapping filters of one request: callback once per matching filter"

// KnownLate is the fingerprint of the listed finding about an Unsubscribe that
// completes between the SUBACK of a Subscribe and that Subscribe's completion.
const KnownLate = "C20 Unsubscribe completing between a Subscribe's SUBACK and its completion: filter registered afterwards"

var (
	overlapKnown bool
	overlapHits  int
	lateKnown    bool
	lateHits     int
)

func diffWire(got, want []*refcodec.Packet) string {
	used := make([]bool, len(got))
	for _, w := range want {
		found := false
		for i, g := range got {
			if !used[i] && samePacket(g, w) {
				used[i] = true
				found = true
				break
			}
		}
		if !found {
			return fmt.Sprintf("the client did not send %s; it sent %s", w, Describe(got))
		}
	}
	for i, g := range got {
		if !used[i] {
			return fmt.Sprintf("the client sent an unexpected %s", g)
		}
	}
	return ""
}

// C20: client library.
func C20(c *core.Ctx) {
	c.Rep.Bound = "ENUM: CONNACK answers (codes 0-5 x SessionPresent, malformed, truncated, close, silence until the virtual connect timeout); HIST: Subscribe/Unsubscribe requests over filters {a, a/+, b} and scripted-server SUBACK (granting / refusing) / UNSUBACK / PUBLISH (4 topics, QoS 0-2, DUP) / PUBREL, BFS de-duplicated on the request states to depth 6 (quick) / 8 (thorough) and every sequence to depth 4/5; a search in which the callbacks of every other request return an error; every sequence to depth 6/7 of inbound QoS 2 PUBLISH / repeated PUBLISH / PUBREL over two identifiers, one of them used again for another message; a delivery for every remaining length 5..300"
	c.Rep.Rule = "Connect returns nil iff CONNACK code 0, otherwise the refusal code or an error, no library goroutine left and the socket closed; the message callback of a request is invoked once per delivered message whose topic matches an active (granted, not unsubscribed) filter of that request, QoS 2 duplicates suppressed, never for other topics; acknowledgements on the wire per packet (C02, client role); completion callbacks exactly once, not before the acknowledgement"
	if c.Replay != nil {
		fmt.Println("replay:", c.Replay.Scenario, "\n ", c.Replay.Message)
		var hist []int
		if json.Unmarshal(c.Replay.Input, &hist) == nil && len(hist) > 0 {
			rops := dispatchOps(true)
			FailingCallbacks = strings.HasPrefix(c.Replay.Scenario, "dispatch-failing-callbacks")
			if strings.HasPrefix(c.Replay.Scenario, "dispatch-qos2-identifiers") {
				rops = q2DispatchOps()
			}
			v, _, _ := runDispatch(rops, hist, true)
			fmt.Println("  violation:", v)
		}
		c.Rep.Scenarios++
		return
	}
	n := 0
	for _, cc := range connackCases() {
		n++
		if c.NShards > 1 && n%c.NShards != c.Shard {
			continue
		}
		v := runConnack(cc)
		c.Rep.Evaluations++
		c.Rep.Executions++
		c.Rep.States++
		c.Rep.Transitions++
		if !cc.wantOK {
			c.Rep.Nontrivial++
		}
		if v != "" {
			in, _ := json.Marshal(fmt.Sprintf("%x", cc.raw))
			if c.Violate("C20 connect "+violClass(v), core.Replay{Scenario: "connect: server answers " + cc.desc, Message: v, Input: in}) {
				return
			}
		}
	}
	c.Rep.Scenarios++
	c.Rep.Sample(map[string]interface{}{"search": "connack", "cases": len(connackCases())})
	if c.NShards <= 1 || c.Shard == 0 {
		for _, how := range []string{"server closes", "server sends garbage"} {
			v := runReconnect(how)
			c.Rep.Evaluations++
			c.Rep.Executions++
			c.Rep.States++
			if v != "" {
				if c.Violate("C20 reconnect "+violClass(v), core.Replay{Scenario: "reconnect: " + how + ", Connect again with the same client id", Message: v}) {
					return
				}
			}
		}
	}
	if c.NShards <= 1 || c.Shard == 1%c.NShards {
		for _, how := range []string{"client id mem", "two clients, one id"} {
			v := runClientIDs(how)
			c.Rep.Evaluations++
			c.Rep.Executions++
			c.Rep.States++
			if v != "" {
				if c.Violate("C20 client ids "+violClass(v), core.Replay{Scenario: "client identifiers: " + how, Message: v}) {
					return
				}
			}
		}
	}
	// framing: a delivery for every remaining length 5..300 (the length field has
	// boundaries of its own: 127/128, multiples of 128)
	for base := 5; base <= 300; base += 8 {
		if c.NShards > 1 && (base/8)%c.NShards != c.Shard {
			continue
		}
		if c.Expired() || c.HasViolation() {
			return
		}
		all := []cop{{kind: "api:sub", filters: []string{"a"}, qoss: []byte{1}}, {kind: "srv:suback"}}
		hist := []int{0, 1}
		for L := base; L < base+8 && L <= 300; L++ {
			// QoS 0: remaining length = 2 + len("a") + payload; QoS 1: two more
			all = append(all, cop{kind: "srv:pub", topic: "a", qos: 0, payload: big(L-3, byte(L))})
			hist = append(hist, len(all)-1)
			all = append(all, cop{kind: "srv:pub", topic: "a", qos: 1, id: uint16(1000 + L), payload: big(L-5, byte(L+1))})
			hist = append(hist, len(all)-1)
		}
		v, _, steps := runDispatch(all, hist, false)
		c.Rep.Evaluations++
		c.Rep.Executions++
		c.Rep.States++
		c.Rep.Transitions += int64(steps)
		if v != "" {
			if c.Violate("C20 framing :: "+violClass(v), core.Replay{Scenario: fmt.Sprintf("framing: deliveries with remaining lengths %d..%d", base, base+7), Message: v}) {
				return
			}
		}
	}
	// deliveries of the largest size the client's 16 KiB ring accepts (ring size
	// minus one 8 KiB read block) and just below, then a small one
	if c.NShards <= 1 || c.Shard == 0 {
		all := []cop{{kind: "api:sub", filters: []string{"a"}, qoss: []byte{1}}, {kind: "srv:suback"}}
		hist := []int{0, 1}
		for i, total := range []int{8190, 8192, 8191, 8192} {
			if i%2 == 0 {
				all = append(all, cop{kind: "srv:pub", topic: "a", qos: 0, payload: big(total-6, byte(i))})
			} else {
				all = append(all, cop{kind: "srv:pub", topic: "a", qos: 1, id: uint16(2000 + i), payload: big(total-8, byte(i))})
			}
			hist = append(hist, len(all)-1)
		}
		all = append(all, cop{kind: "srv:pub", topic: "a", qos: 0, payload: "small"})
		hist = append(hist, len(all)-1)
		v, _, steps := runDispatch(all, hist, false)
		c.Rep.Evaluations++
		c.Rep.Executions++
		c.Rep.States++
		c.Rep.Transitions += int64(steps)
		if v != "" {
			if c.Violate("C20 framing :: "+violClass(v), core.Replay{Scenario: "framing: deliveries of 8190, 8192, 8191, 8192 bytes (the largest packet a 16 KiB ring takes is 8192 bytes)", Message: v}) {
				return
			}
		}
	}
	// bursts: the client's inbound QoS 2 queue holds 16 exchanges and grows beyond; every count
	// of exchanges in flight 1..36 after 0/3/5 completed ones (the queue's ring is wrapped then),
	// released oldest first or newest first: the callback runs once per message, at its PUBREL
	// or when the earlier ones are released
	{
		n := 0
		for _, done := range []int{0, 3, 5} {
			for inflight := 1; inflight <= 36; inflight++ {
				for _, order := range []string{"fifo", "lifo"} {
					n++
					if c.NShards > 1 && n%c.NShards != c.Shard {
						continue
					}
					if c.Expired() || c.HasViolation() {
						return
					}
					if !c.Thorough() && order == "lifo" && inflight%4 != 1 {
						continue
					}
					all := []cop{{kind: "api:sub", filters: []string{"a"}, qoss: []byte{2}}, {kind: "srv:suback"}}
					id := uint16(100)
					for i := 0; i < done; i++ {
						id++
						all = append(all, cop{kind: "srv:pub", topic: "a", qos: 2, id: id, payload: fmt.Sprintf("done-%d", i)}, cop{kind: "srv:pubrel", id: id})
					}
					first := id + 1
					for i := 0; i < inflight; i++ {
						id++
						all = append(all, cop{kind: "srv:pub", topic: "a", qos: 2, id: id, payload: fmt.Sprintf("burst-%d", i)})
					}
					for i := 0; i < inflight; i++ {
						k := first + uint16(i)
						if order == "lifo" {
							k = id - uint16(i)
						}
						all = append(all, cop{kind: "srv:pubrel", id: k})
					}
					all = append(all, cop{kind: "srv:pub", topic: "a", qos: 0, payload: "end"})
					hist := make([]int, len(all))
					for i := range hist {
						hist[i] = i
					}
					v, _, steps := runDispatch(all, hist, false)
					c.Rep.Evaluations++
					c.Rep.Executions++
					c.Rep.States++
					c.Rep.Transitions += int64(steps)
					if v != "" {
						if c.Violate("C20 burst :: "+violClass(v), core.Replay{Scenario: fmt.Sprintf("burst: %d completed QoS 2 deliveries, then %d in flight, released %s", done, inflight, order), Message: v}) {
							return
						}
					}
				}
			}
		}
	}
	c.Rep.Scenarios++
	ops := dispatchOps(c.Thorough())
	overlapKnown = c.Known[KnownOverlap]
	overlapHits = 0
	lateKnown = c.Known[KnownLate]
	lateHits = 0
	defer func() {
		if overlapHits > 0 {
			c.Rep.KnownHits[KnownOverlap] += overlapHits
		}
		if lateHits > 0 {
			c.Rep.KnownHits[KnownLate] += lateHits
		}
	}()
	// the history of the listed finding KnownLate, in both tiers (the quick alphabet has no
	// out-of-order SUBACK): Subscribe(a), Subscribe(a), Unsubscribe(a); SUBACK for the second,
	// UNSUBACK, SUBACK for the first; a PUBLISH on a
	if c.NShards <= 1 || c.Shard == 0 {
		pin := []cop{{kind: "api:sub", filters: []string{"a"}, qoss: []byte{1}}, {kind: "api:unsub", filters: []string{"a"}},
			{kind: "srv:suback-newest"}, {kind: "srv:unsuback"}, {kind: "srv:suback"}, {kind: "srv:pub", topic: "a", qos: 0, payload: "m0"}}
		hist := []int{0, 0, 1, 2, 3, 4, 5}
		v, _, steps := runDispatch(pin, hist, false)
		c.Rep.Evaluations++
		c.Rep.Executions++
		c.Rep.States++
		c.Rep.Transitions += int64(steps)
		if v != "" {
			key := "C20 pinned-late :: " + violClass(v)
			if strings.HasPrefix(v, "late-registration:") {
				key = KnownLate
			}
			in, _ := json.Marshal(hist)
			if c.Violate(key, core.Replay{Scenario: "dispatch: Subscribe(a@1) ; Subscribe(a@1) ; Unsubscribe(a) ; SUBACK for the second ; UNSUBACK ; SUBACK for the first ; PUBLISH(a)", Message: v, Input: in}) {
				return
			}
		}
	}
	// inbound QoS 2 exchanges with two identifiers: released out of order, an identifier used
	// again for a new message once its exchange is completed (while the completed message still
	// waits behind the older exchange), PUBLISH repeated.  Every sequence behind Subscribe + SUBACK.
	{
		q2ops := q2DispatchOps()
		qd := 6 // the shortest history that shows a lost second message has six packets
		if c.Thorough() {
			qd = 7
		}
		full := func(h []int) []int {
			out := []int{0, 1}
			for _, k := range h {
				out = append(out, k+2)
			}
			return out
		}
		o := explore.HistOpts{Name: "dispatch-qos2-identifiers", NOps: len(q2ops) - 2, OpName: func(i int) string { return q2ops[i+2].String() }, MaxDepth: qd, Dedup: false,
			Shard: c.Shard, NShards: c.NShards, Deadline: c.Deadline,
			Run: func(h []int) (string, string, int) {
				// the oracle tells deliveries apart by their payload: a history in which one PUBLISH
				// operation opens two exchanges (it occurs again after the PUBREL of its identifier)
				// delivers one payload twice, rightly - such histories are left out
				for i, k := range h {
					op := q2ops[k+2]
					if op.kind != "srv:pub" {
						continue
					}
					released := false
					for _, k2 := range h[i+1:] {
						o2 := q2ops[k2+2]
						if o2.kind == "srv:pubrel" && o2.id == op.id {
							released = true
						}
						if k2 == k && released {
							return "", "", 0
						}
					}
				}
				return runDispatch(q2ops, full(h), false)
			}}
		st := explore.Hist(o)
		r := c.Rep
		r.Scenarios++
		r.States += int64(st.States)
		r.Transitions += int64(st.Transitions)
		r.Executions += int64(st.Histories)
		r.Evaluations += int64(st.Histories)
		r.Nontrivial += int64(st.States)
		if !st.Exhaustive {
			r.Exhaustive = false
			r.AddCap(st.CapHit)
		}
		r.Sample(map[string]interface{}{"search": o.Name, "alphabet": o.NOps, "depth": st.DepthDone, "histories": st.Histories})
		if st.Violation != "" {
			in, _ := json.Marshal(full(st.Hist))
			if c.Violate("C20 "+o.Name+" :: "+violClass(st.Violation), core.Replay{Scenario: o.Name + ": Subscribe(a/+@2,b@0) ; SUBACK ; " + explore.HistString(o, st.Hist), Message: st.Violation, Input: in}) {
				return
			}
		}
	}
	d1, d2 := 6, 4
	if c.Thorough() {
		d1, d2 = 8, 5
	}
	// third search, deeper, over the operations that put wildcard siblings under one level
	// and take them away again (subscribe a/+,b / a/# / a/+,a/c; unsubscribe a/+ / a/#;
	// acknowledgements; a delivery on a/c)
	var sib, main, dollar []int
	for i, o := range ops {
		isDollar := o.kind == "srv:pub" && o.topic == "$SYS/x"
		if !((o.kind == "api:sub" || o.kind == "api:unsub") && o.filters[0] == "a/#") && !isDollar {
			main = append(main, i) // the two a/# operations belong to the third search only
		}
		// fourth search, every sequence: subscribe a, SUBACK, deliveries on a and on $SYS/x,
		// unsubscribe a, UNSUBACK
		switch {
		case isDollar, o.kind == "api:sub" && len(o.filters) == 1 && o.filters[0] == "a", o.kind == "api:unsub" && len(o.filters) == 1 && o.filters[0] == "a",
			o.kind == "srv:suback", o.kind == "srv:unsuback", o.kind == "srv:pub" && o.payload == "m0":
			dollar = append(dollar, i)
		}
		switch {
		case o.kind == "api:sub" && o.filters[0] != "a", o.kind == "api:unsub" && len(o.filters) == 1 && o.filters[0] != "a",
			o.kind == "srv:suback", o.kind == "srv:unsuback", o.kind == "srv:pub" && o.payload == "m1":
			sib = append(sib, i)
		}
	}
	for _, s := range []struct {
		name  string
		depth int
		dedup bool
		sel   []int
	}{{"dispatch", d1, true, main}, {"dispatch-sequences", d2, false, main}, {"dispatch-wildcard-siblings", d1 + 1, true, sib}, {"dispatch-dollar-topic", d2 + 2, false, dollar},
		// fifth search: the callbacks of every other request (the first included) return an
		// error after taking the message - the other requests' callbacks are invoked all the same
		{"dispatch-failing-callbacks", d1 - 1, true, main}} {
		s := s
		FailingCallbacks = s.name == "dispatch-failing-callbacks"
		mapped := func(h []int) []int {
			if s.sel == nil {
				return h
			}
			out := make([]int, len(h))
			for i, k := range h {
				out[i] = s.sel[k]
			}
			return out
		}
		nops := len(ops)
		if s.sel != nil {
			nops = len(s.sel)
		}
		o := explore.HistOpts{Name: s.name, NOps: nops, OpName: func(i int) string { return ops[mapped([]int{i})[0]].String() }, MaxDepth: s.depth, Dedup: s.dedup,
			Shard: c.Shard, NShards: c.NShards, Deadline: c.Deadline,
			Run: func(h []int) (string, string, int) { return runDispatch(ops, mapped(h), false) }}
		st := explore.Hist(o)
		r := c.Rep
		r.Scenarios++
		r.States += int64(st.States)
		r.Transitions += int64(st.Transitions)
		r.Executions += int64(st.Histories)
		r.Evaluations += int64(st.Histories)
		r.Nontrivial += int64(st.States)
		if !st.Exhaustive {
			r.Exhaustive = false
			r.AddCap(st.CapHit)
		}
		r.Notes = append(r.Notes, fmt.Sprintf("%s: complete to depth %d (fixpoint=%v)", s.name, st.DepthDone, st.Fixpoint))
		r.Sample(map[string]interface{}{"search": s.name, "alphabet": len(ops), "depth": st.DepthDone, "states": st.States, "histories": st.Histories})
		if st.Violation != "" {
			in, _ := json.Marshal(mapped(st.Hist))
			key := "C20 " + s.name + " :: " + violClass(st.Violation)
			if strings.HasPrefix(st.Violation, "overlap:") {
				key = KnownOverlap
			}
			if strings.HasPrefix(st.Violation, "late-registration:") {
				key = KnownLate
			}
			if c.Violate(key, core.Replay{Scenario: s.name + ": " + explore.HistString(o, st.Hist), Message: st.Violation, Input: in}) {
				return
			}
			r.Exhaustive = false
			r.AddCap("stopped at listed finding")
		}
	}
}

func q2DispatchOps() []cop {
	return []cop{
		{kind: "api:sub", filters: []string{"a/+", "b"}, qoss: []byte{2, 0}}, {kind: "srv:suback"},
		{kind: "srv:pub", topic: "a/c", qos: 2, id: 6, payload: "m4"},
		{kind: "srv:pub", topic: "a/c", qos: 2, id: 7, payload: "m6"},
		{kind: "srv:pub", topic: "a/d", qos: 2, id: 7, payload: "m7"},
		{kind: "srv:pub", topic: "a/c", qos: 2, id: 6, dup: true, payload: "m4dup"},
		{kind: "srv:pubrel", id: 6}, {kind: "srv:pubrel", id: 7},
	}
}

func dispatchOps(thorough bool) []cop {
	ops := []cop{
		{kind: "api:sub", filters: []string{"a"}, qoss: []byte{1}},
		{kind: "api:sub", filters: []string{"a/+", "b"}, qoss: []byte{2, 0}},
		{kind: "api:unsub", filters: []string{"a"}},
		{kind: "api:unsub", filters: []string{"a/+"}},
		{kind: "api:unsub", filters: []string{"never/subscribed", "a", "b"}},
		{kind: "srv:suback"}, {kind: "srv:subfail"}, {kind: "srv:unsuback"}, {kind: "srv:suback-newest"},
		{kind: "srv:pub", topic: "a", qos: 0, payload: "m0"},
		{kind: "srv:pub", topic: "a/c", qos: 0, payload: "m1"},
		{kind: "srv:pub", topic: "b", qos: 1, id: 5, payload: "m2"},
		{kind: "srv:pub", topic: "a/c", qos: 2, id: 6, payload: "m4"},
		{kind: "srv:pub", topic: "a/c", qos: 2, id: 6, dup: true, payload: "m4dup"},
		{kind: "srv:pubrel", id: 6},
	}
	// overlapping filters in one request (the listed finding)
	ops = append(ops, cop{kind: "api:sub", filters: []string{"a/+", "a/c"}, qoss: []byte{0, 1}})
	// a second wildcard next to a/+ under the same level, and its removal
	ops = append(ops, cop{kind: "api:sub", filters: []string{"a/#"}, qoss: []byte{1}}, cop{kind: "api:unsub", filters: []string{"a/#"}})
	// a topic that begins with '$' matches no filter that begins with a wildcard, and the
	// delivery before it was for somebody (fourth search only)
	// (what a filter that begins with a wildcard does with such a topic is outside the properties)
	ops = append(ops, cop{kind: "srv:pub", topic: "$SYS/x", qos: 0, payload: "m5"})
	if thorough {
		// a topic nobody subscribes
		ops = append(ops, cop{kind: "srv:pub", topic: "c", qos: 0, payload: "m3"})
	}
	return ops
}

func init() { core.Register("C20", C20) }
