package broker

import (
	"github.com/mdzio/go-mqtt/verifrt/vsched"
	"verif/engine/explore"
	"verif/harness/core"
	"verif/models/refcodec"
)

// c11sched: the CONNACK is the first thing an accepted connection gets.  A
// resumed session has subscriptions from the start, and requests may be
// pipelined behind the CONNECT; whatever the broker's goroutines do, nothing
// - no forwarded PUBLISH, no answer to a pipelined request - may reach the
// client before the CONNACK.
func c11sched(c *core.Ctx) {
	dev := 2
	if c.Thorough() {
		dev = 3
	}
	type scen struct {
		name string
		body func()
	}
	var scs []scen
	for _, v := range []struct {
		name      string
		clean     bool
		pipelined *refcodec.Packet
	}{
		{"resumed session, publish on its filter at the same time", false, nil},
		{"resumed session, PINGREQ pipelined, publish at the same time", false, &refcodec.Packet{Type: refcodec.PINGREQ}},
		{"clean session, SUBSCRIBE pipelined, publish at the same time", true, &refcodec.Packet{Type: refcodec.SUBSCRIBE, ID: 4, Topics: [][]byte{[]byte("a")}, QoSs: []byte{0}}},
	} {
		v := v
		scs = append(scs, scen{"CONNACK first: " + v.name, func() {
			t := newTD()
			p := t.connect("P", 0, 65535, false)
			x1, err := t.w.Dial("X1")
			if err != nil {
				vsched.Failf("harness: dial: %v", err)
				return
			}
			x1.Send(ConnectPacket(ConnectOpts{ClientID: "x", Clean: false, KeepAlive: 65535}))
			t.w.Settle()
			x1.Send(&refcodec.Packet{Type: refcodec.SUBSCRIBE, ID: 1, Topics: [][]byte{[]byte("a")}, QoSs: []byte{1}})
			t.w.Settle()
			x1.Send(&refcodec.Packet{Type: refcodec.DISCONNECT})
			t.w.Settle()
			x2, err := t.w.Dial("X2")
			if err != nil || vsched.Failed() {
				return
			}
			vsched.Mark()
			wire := refcodec.Encode(ConnectPacket(ConnectOpts{ClientID: "x", Clean: v.clean, KeepAlive: 65535}))
			if v.pipelined != nil {
				wire = append(wire, refcodec.Encode(v.pipelined)...)
			}
			x2.Conn.Write(wire)
			for k := 0; k < 2; k++ {
				p.rc.Conn.Write(refcodec.Encode(&refcodec.Packet{Type: refcodec.PUBLISH, Topic: []byte("a"), Payload: []byte("early")}))
			}
			t.w.Settle()
			got := x2.Take()
			if len(got) == 0 || got[0].Type != refcodec.CONNACK || got[0].ReturnCode != 0 {
				vsched.Failf("the first packet on the accepted connection is not the CONNACK: %s", Describe(got))
				return
			}
			n := 0
			for _, g := range got {
				if g.Type == refcodec.CONNACK {
					n++
				}
			}
			if n != 1 {
				vsched.Failf("%d CONNACKs on one connection: %s", n, Describe(got))
				return
			}
			if got[0].SessionPresent != !v.clean {
				vsched.Failf("SessionPresent=%v for CleanSession=%v with a stored session", got[0].SessionPresent, v.clean)
				return
			}
			if v.pipelined != nil {
				want := byte(refcodec.PINGRESP)
				if v.pipelined.Type == refcodec.SUBSCRIBE {
					want = refcodec.SUBACK
				}
				if !hasType(got, want) {
					vsched.Failf("the request pipelined behind the CONNECT was not answered: %s", Describe(got))
					return
				}
			}
			if t.badStream() {
				return
			}
			vsched.Logf("ok")
		}})
	}
	for _, sc := range scs {
		if c.Expired() || c.HasViolation() {
			return
		}
		sc := sc
		st := c.RunSched(explore.SchedOpts{Name: sc.name, Bound: -1, DevBound: dev, Cache: true, UseMark: true, Body: sc.body, MaxPoints: 100000, Check: schedCheck, Shard: c.Shard, NShards: c.NShards},
			func(v *explore.Violation) string { return "C11 " + sc.name + " :: " + violClass(v.Message) })
		if st != nil && c.Shard == 0 {
			c.Rep.Sample(map[string]interface{}{"scenario": sc.name, "deviations": dev, "executions": st.Executions, "states": st.States})
		}
	}
}
