package broker

import (
	"github.com/mdzio/go-mqtt/verifrt/vsched"
	"verif/engine/explore"
	"verif/harness/core"
	"verif/models/refcodec"
)

// c11sched: the CONNACK is the first thing an accepted connection gets.  A
// resumed session has subscriptions from the start, and requests may be
// pipelined behind the CONNECT; whatever the broker's goroutines do, nothing
// - no forwarded PUBLISH, no answer to a pipelined request - may reach the
// client before the CONNACK.
func c11sched(c *core.Ctx) {
	dev := 2
	if c.Thorough() {
		dev = 3
	}
	type scen struct {
		name string
		body func()
	}
	var scs []scen
	for _, v := range []struct {
		name      string
		clean     bool
		pipelined *refcodec.Packet
	}{
		{"resumed session, publish on its filter at the same time", false, nil},
		{"resumed session, PINGREQ pipelined, publish at the same time", false, &refcodec.Packet{Type: refcodec.PINGREQ}},
		{"clean session, SUBSCRIBE pipelined, publish at the same time", true, &refcodec.Packet{Type: refcodec.SUBSCRIBE, ID: 4, Topics: [][]byte{[]byte("a")}, QoSs: []byte{0}}},
	} {
		v := v
		scs = append(scs, scen{"CONNACK first: " + v.name, func() {
			t := newTD()
			p := t.connect("P", 0, 65535, false)
			x1, err := t.w.Dial("X1")
			if err != nil {
				vsched.Failf("harness: dial: %v", err)
				return
			}
			x1.Send(ConnectPacket(ConnectOpts{ClientID: "x", Clean: false, KeepAlive: 65535}))
			t.w.Settle()
			x1.Send(&refcodec.Packet{Type: refcodec.SUBSCRIBE, ID: 1, Topics: [][]byte{[]byte("a")}, QoSs: []byte{1}})
			t.w.Settle()
			x1.Send(&refcodec.Packet{Type: refcodec.DISCONNECT})
			t.w.Settle()
			x2, err := t.w.Dial("X2")
			if err != nil || vsched.Failed() {
				return
			}
			vsched.Mark()
			wire := refcodec.Encode(ConnectPacket(ConnectOpts{ClientID: "x", Clean: v.clean, KeepAlive: 65535}))
			if v.pipelined != nil {
				wire = append(wire, refcodec.Encode(v.pipelined)...)
			}
			x2.Conn.Write(wire)
			for k := 0; k < 2; k++ {
				p.rc.Conn.Write(refcodec.Encode(&refcodec.Packet{Type: refcodec.PUBLISH, Topic: []byte("a"), Payload: []byte("early")}))
			}
			t.w.Settle()
			got := x2.Take()
			if len(got) == 0 || got[0].Type != refcodec.CONNACK || got[0].ReturnCode != 0 {
				vsched.Failf("the first packet on the accepted connection is not the CONNACK: %s", Describe(got))
				return
			}
			n := 0
			for _, g := range got {
				if g.Type == refcodec.CONNACK {
					n++
				}
			}
			if n != 1 {
				vsched.Failf("%d CONNACKs on one connection: %s", n, Describe(got))
				return
			}
			if got[0].SessionPresent != !v.clean {
				vsched.Failf("SessionPresent=%v for CleanSession=%v with a stored session", got[0].SessionPresent, v.clean)
				return
			}
			if v.pipelined != nil {
				want := byte(refcodec.PINGRESP)
				if v.pipelined.Type == refcodec.SUBSCRIBE {
					want = refcodec.SUBACK
				}
				if !hasType(got, want) {
					vsched.Failf("the request pipelined behind the CONNECT was not answered: %s", Describe(got))
					return
				}
			}
			if t.badStream() {
				return
			}
			vsched.Logf("ok")
		}})
	}
	// a refused CONNECT next to an accepted one, at the same time: the refused one
	// (unsupported protocol level / client id with a control character) carries a will
	// and another client identifier; nothing of it may end up in the accepted connection
	for _, v := range []struct {
		name string
		mk   func(p *refcodec.Packet)
	}{
		{"unsupported protocol level", func(p *refcodec.Packet) { p.Level = 5 }},
		{"truncated behind the will topic", nil},
	} {
		v := v
		scs = append(scs, scen{"accepted CONNECT || refused CONNECT (" + v.name + ")", func() {
			t := newTD()
			w := t.connect("W", 0, 65535, false)
			t.subscribe("W", "#", 1)
			a, err := t.w.Dial("A")
			if err != nil {
				vsched.Failf("harness: dial: %v", err)
				return
			}
			b, err := t.w.Dial("B")
			if err != nil || vsched.Failed() {
				return
			}
			w.rc.Take()
			vsched.Mark()
			evil := ConnectPacket(ConnectOpts{ClientID: "evil-client", Clean: false, KeepAlive: 65535, Will: &Will{"pwn/will", "gotcha", 0, false}})
			wire := refcodec.Encode(evil)
			if v.mk != nil {
				v.mk(evil)
				wire = refcodec.Encode(evil)
			} else {
				wire = wire[:len(wire)-8] // ends inside the will message: never a complete CONNECT
			}
			a.Conn.Write(refcodec.Encode(ConnectPacket(ConnectOpts{ClientID: "good-client", Clean: false, KeepAlive: 65535})))
			b.Conn.Write(wire)
			if v.mk == nil {
				b.Cut()
			}
			t.w.Settle()
			if ga := a.Take(); len(ga) != 1 || ga[0].Type != refcodec.CONNACK || ga[0].ReturnCode != 0 || ga[0].SessionPresent {
				vsched.Failf("the well-formed CONNECT was answered by %s", Describe(ga))
				return
			}
			for _, g := range b.Take() {
				if g.Type != refcodec.CONNACK || g.ReturnCode == 0 {
					vsched.Failf("the refused CONNECT was answered by %s", g)
					return
				}
			}
			// the accepted connection ends abnormally: it had no will
			a.Cut()
			t.w.Settle()
			if got := w.rc.Take(); len(got) != 0 {
				vsched.Failf("the accepted connection (no will) was cut and the witness received %s: the will of the refused CONNECT", Describe(got))
				return
			}
			// its session is stored under its own identifier, none under the refused one
			for _, q := range []struct {
				cid  string
				want bool
			}{{"good-client", true}, {"evil-client", false}} {
				rc, err := t.w.Dial("R-" + q.cid)
				if err != nil {
					return
				}
				rc.Send(ConnectPacket(ConnectOpts{ClientID: q.cid, Clean: false, KeepAlive: 65535}))
				t.w.Settle()
				got := rc.Take()
				if len(got) != 1 || got[0].Type != refcodec.CONNACK || got[0].ReturnCode != 0 {
					vsched.Failf("a later CONNECT of %q was answered by %s", q.cid, Describe(got))
					return
				}
				if got[0].SessionPresent != q.want {
					vsched.Failf("a later CleanSession=0 CONNECT of %q got SessionPresent=%v, expected %v (accepted: good-client; refused: evil-client)", q.cid, got[0].SessionPresent, q.want)
					return
				}
			}
			if t.badStream() {
				return
			}
			vsched.Logf("ok")
		}})
	}
	for _, sc := range scs {
		if c.Expired() || c.HasViolation() {
			return
		}
		sc := sc
		st := c.RunSched(explore.SchedOpts{Name: sc.name, Bound: -1, DevBound: dev, Cache: true, UseMark: true, Body: sc.body, MaxPoints: 100000, Check: schedCheck, Shard: c.Shard, NShards: c.NShards},
			func(v *explore.Violation) string { return "C11 " + sc.name + " :: " + violClass(v.Message) })
		if st != nil && c.Shard == 0 {
			c.Rep.Sample(map[string]interface{}{"scenario": sc.name, "deviations": dev, "executions": st.Executions, "states": st.States})
		}
	}
}
