package broker

import (
	"fmt"
	"net"
	"sort"
	"strings"
	"time"
	"unsafe"

	"github.com/mdzio/go-mqtt/message"
	"github.com/mdzio/go-mqtt/service"
	"github.com/mdzio/go-mqtt/topics"
	"github.com/mdzio/go-mqtt/verifrt/vnet"
	"github.com/mdzio/go-mqtt/verifrt/vsched"
	"verif/models/refcodec"
	"verif/models/refmatch"
)

// ClientWorld is a library Client connected to a scripted server.
type ClientWorld struct {
	Ln        net.Listener
	Srv       *RawClient // the server end of the connection, driven by the harness
	Cl        *service.Client
	ConnErr   error
	ConnDone  bool
	Requests  []*creq // requests issued through the client API, in order
	Delivered map[int][]string
	Now       int64
}

// creq is one request issued through the client API.
type creq struct {
	Idx       int
	Kind      string // pub0 pub1 pub2 sub unsub ping
	Filters   []string
	QoSs      []byte
	ID        uint16 // packet id seen on the wire
	Completed int    // completion callback invocations
	CompErr   string
	CompAt    int // number of server packets sent when it completed
	// model
	Acked   bool // terminal ack sent by the server
	Granted []bool
	Active  []bool // filter active (granted, not yet unsubscribed)
	// Late: an Unsubscribe for this filter completed between this request's SUBACK and its
	// completion (held back behind an older Subscribe): the library registers the filter afterwards
	Late    []bool
	SentAt  int
	RecSent bool
	// schedule-exploration scenarios: id seen by the peer thread
	seen   bool
	wireID uint16
	// Payload of a publish request; CompWrong: the callback got somebody else's message
	Payload   string
	CompWrong string
	// Chain: kind of a request the completion callback issues itself
	Chain string
}

// NewClientWorld resets globals and opens the listener.
func NewClientWorld() *ClientWorld {
	service.VerifResetGlobals()
	message.VerifSetPacketIDCounter(0)
	topics.VerifResetProviders()
	ln, err := vnet.Listen("tcp", addr)
	if err != nil {
		vsched.Failf("harness: listen: %v", err)
	}
	return &ClientWorld{Ln: ln, Delivered: map[int][]string{}}
}

// StartConnect runs Client.Connect in its own thread and accepts the
// connection on the server side; it returns the CONNECT the client sent.
func (w *ClientWorld) StartConnect(cid string, keepAlive uint16, connectTimeout int) *refcodec.Packet {
	w.Cl = &service.Client{BufferSize: 16384, ConnectTimeout: connectTimeout}
	cm := message.NewConnectMessage()
	cm.SetVersion(4)
	cm.SetClientID([]byte(cid))
	cm.SetCleanSession(true)
	cm.SetKeepAlive(keepAlive)
	vsched.Go("app-connect", func() {
		w.ConnErr = w.Cl.Connect("tcp://"+addr, cm)
		w.ConnDone = true
		// (race builds: the application uses the client only after Connect has returned;
		// the harness threads that do so synchronise with this one here)
		vsched.RaceRelease(unsafe.Pointer(w))
	})
	c, err := w.Ln.Accept()
	if err != nil {
		vsched.Failf("harness: accept: %v", err)
		return nil
	}
	w.Srv = &RawClient{Name: "server", Conn: c, vc: c.(*vnet.Conn), pendRel: map[uint16]bool{}}
	w.Settle()
	ps := w.Srv.Take()
	if len(ps) != 1 || ps[0].Type != refcodec.CONNECT {
		vsched.Failf("harness: expected a CONNECT from the client, got %s", Describe(ps))
		return nil
	}
	return ps[0]
}

// Settle: quiescence, then read what the client sent.
func (w *ClientWorld) Settle() {
	for i := 0; i < 64; i++ {
		vsched.Quiesce()
		if w.Srv == nil || !w.Srv.pump() {
			return
		}
	}
	vsched.Failf("harness: the system does not settle")
}

// Connected accepts the client with CONNACK code 0.
func (w *ClientWorld) Connected(cid string) bool {
	if w.StartConnect(cid, 60, 0) == nil {
		return false
	}
	w.Srv.Send(&refcodec.Packet{Type: refcodec.CONNACK})
	w.Settle()
	vsched.RaceAcquire(unsafe.Pointer(w))
	if !w.ConnDone || w.ConnErr != nil {
		vsched.Failf("Client.Connect did not succeed after CONNACK code 0: done=%v err=%v", w.ConnDone, w.ConnErr)
		return false
	}
	return true
}

func (w *ClientWorld) onComplete(r *creq) service.OnCompleteFunc {
	return func(msg, ack message.Message, err error) error {
		r.Completed++
		r.CompAt = w.Srv.SentAck
		if err != nil {
			r.CompErr = err.Error()
		}
		// the callback must be handed the request it belongs to and that request's acknowledgement
		if pm, ok := msg.(*message.PublishMessage); ok && r.Payload != "" {
			if string(pm.Payload()) != r.Payload {
				r.CompWrong = fmt.Sprintf("was handed the message with payload %q instead of its own (%q)", pm.Payload(), r.Payload)
			}
			if ack != nil && ack.PacketID() != pm.PacketID() {
				r.CompWrong = fmt.Sprintf("was handed message id %d with acknowledgement id %d", pm.PacketID(), ack.PacketID())
			}
		}
		if r.Chain != "" {
			// the application sends its next request from inside the callback
			next := r.Chain
			r.Chain = ""
			w.Issue(next, []string{"t"}, nil, fmt.Sprintf("chained-after-%d", r.Idx))
		}
		// an application that hands the error it was told about back to the library
		// (refused filter, filter that was not subscribed locally): the library may log
		// it, nothing else depends on it
		return err
	}
}

// Issue performs a client API call; kind: pub0 pub1 pub2 sub unsub ping.
// FailingCallbacks: the message callbacks of every other Subscribe request (the first one
// included) return an error after taking the message.
var FailingCallbacks bool

func (w *ClientWorld) Issue(kind string, filters []string, qoss []byte, payload string) (*creq, error) {
	r := &creq{Idx: len(w.Requests), Kind: kind, Filters: filters, QoSs: qoss, SentAt: w.Srv.SentAck}
	if len(kind) == 4 && kind[:3] == "pub" {
		r.Payload = payload
	}
	w.Requests = append(w.Requests, r)
	var err error
	switch kind {
	case "pub0", "pub1", "pub2":
		m := message.NewPublishMessage()
		m.SetTopic([]byte(filters[0]))
		m.SetPayload([]byte(payload))
		m.SetQoS(kind[3] - '0')
		err = w.Cl.Publish(m, w.onComplete(r))
	case "sub":
		m := message.NewSubscribeMessage()
		for i, f := range filters {
			m.AddTopic([]byte(f), qoss[i])
		}
		idx := r.Idx
		err = w.Cl.Subscribe(m, w.onComplete(r), func(msg *message.PublishMessage) error {
			w.Delivered[idx] = append(w.Delivered[idx], fmt.Sprintf("%s=%s@%d", msg.Topic(), msg.Payload(), msg.QoS()))
			if FailingCallbacks && idx%2 == 0 {
				// an application callback that reports an error: nobody else's business
				return fmt.Errorf("application error in the callback of request %d", idx)
			}
			return nil
		})
		r.Granted = make([]bool, len(filters))
		r.Active = make([]bool, len(filters))
		r.Late = make([]bool, len(filters))
	case "unsub":
		m := message.NewUnsubscribeMessage()
		for _, f := range filters {
			m.AddTopic([]byte(f))
		}
		err = w.Cl.Unsubscribe(m, w.onComplete(r))
	case "ping":
		err = w.Cl.Ping(w.onComplete(r))
	}
	return r, err
}

// ServerSend sends a packet from the scripted server and counts it.
func (w *ClientWorld) ServerSend(p *refcodec.Packet) {
	w.Srv.Send(p)
	w.Srv.SentAck++
}

// expectedDeliveries: which subscribe requests must see a message on topic.
func (w *ClientWorld) expectedDeliveries(topic string) map[int]int {
	out := map[int]int{}
	for _, r := range w.Requests {
		if r.Kind != "sub" {
			continue
		}
		for i, f := range r.Filters {
			if r.Active[i] && refmatch.Matches(f, topic) {
				out[r.Idx]++
			}
		}
	}
	return out
}

// TakeDeliveries returns and clears what the message callbacks recorded.
func (w *ClientWorld) TakeDeliveries() map[int][]string {
	d := w.Delivered
	w.Delivered = map[int][]string{}
	return d
}

func fmtDeliv(d map[int][]string) string {
	var ks []int
	for k := range d {
		ks = append(ks, k)
	}
	sort.Ints(ks)
	var s []string
	for _, k := range ks {
		s = append(s, fmt.Sprintf("req%d:%v", k, d[k]))
	}
	return "{" + strings.Join(s, " ") + "}"
}

// Advance moves virtual time.
func (w *ClientWorld) Advance(d time.Duration) {
	vsched.Advance(d)
	w.Now += int64(d)
	w.Settle()
}
