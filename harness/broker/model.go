package broker

import (
	"bytes"
	"fmt"
	"sort"
	"strings"

	"verif/models/refcodec"
	"verif/models/refmatch"
)

// ---------------------------------------------------------------------------
// refbroker: a sequential MQTT 3.1.1 broker model, only as detailed as the
// properties are.

type msession struct {
	subs map[string]byte // filter -> granted QoS
}

type mconn struct {
	name      string
	cid       string
	clean     bool
	will      *Will
	open      bool
	accepted  bool
	keepAlive uint16
	qos2in    map[uint16]*q2ex // QoS 2 exchanges on this connection: the newest one per identifier
	qos2order []*q2ex          // all of them, oldest first (released ones wait here for their turn)
	sess      *msession
	lastRecv  int64 // virtual time of the last bytes the client sent
	dialed    int64
}

// q2ex is an inbound QoS 2 exchange: opened by the first PUBLISH with an id,
// closed by its PUBREL.
type q2ex struct {
	pkt       *refcodec.Packet
	released  bool // PUBREL processed
	delivered bool // handed on already (allowed as soon as its own PUBREL is processed)
}

type mretained struct {
	payload string
	qos     byte
}

// Model state.
type Model struct {
	sessions map[string]*msession // persistent and live sessions by client id
	conns    map[string]*mconn    // by client name
	retained map[string]mretained
	maxQos   byte
	local    map[string]map[string]byte // in-process subscribers: name -> filter -> qos
	auth     bool
	// authFn, when set, decides per user name (selective authenticator)
	authFn func(user, pass string) bool
}

// authOK: does the authenticator accept this user?
func (m *Model) authOK(user, pass string) bool {
	if m.authFn != nil {
		return m.authFn(user, pass)
	}
	return m.auth
}

// NewModel returns an empty broker model.
func NewModel(maxQos byte, authOK bool) *Model {
	return &Model{sessions: map[string]*msession{}, conns: map[string]*mconn{}, retained: map[string]mretained{}, maxQos: maxQos, local: map[string]map[string]byte{}, auth: authOK}
}

// Exp is what one connection must receive after an action.
type Exp struct {
	Comp string // component: acks, route, retained, will, closed
	Desc string
	// exact packets that must arrive (order among them is not demanded)
	Must []*refcodec.Packet
	// deliveries of one application message: between Min and Max copies, each
	// with a QoS from the allowed set
	Deliveries []Delivery
	// the connection must be closed by the broker afterwards
	MustClose bool
	// the connection must stay open
	MustStayOpen bool
	// MayCodes: a CONNACK with one of these return codes may precede the close
	MayCodes map[byte]bool
	// MayClose: closed or open are both acceptable
	MayClose bool
}

// Delivery expectation of one application message to one receiver.
type Delivery struct {
	Comp    string
	Topic   string
	Payload string
	Min     int
	Max     int
	QoS     map[byte]bool
	Retain  bool
	// RetainAny: the retain flag is not demanded (in-process callbacks)
	RetainAny bool
	// Got is filled in by Compare: how many copies arrived
	Got int
	Tag interface{}
}

func minb(a, b byte) byte {
	if a < b {
		return a
	}
	return b
}

// matching returns, for one publish, the deliveries every receiver must get.
func (m *Model) fanout(comp, topic, payload string, pq byte, exclude string) map[string]Delivery {
	out := map[string]Delivery{}
	for name, c := range m.conns {
		if !c.open || !c.accepted || c.sess == nil {
			continue
		}
		d := Delivery{Comp: comp, Topic: topic, Payload: payload, QoS: map[byte]bool{}}
		for f, g := range c.sess.subs {
			if refmatch.Matches(f, topic) {
				d.Max++
				d.QoS[minb(pq, g)] = true
			}
		}
		if d.Max > 0 {
			d.Min = 1
			out[name] = d
		}
	}
	for name, subs := range m.local {
		d := Delivery{Comp: comp, Topic: topic, Payload: payload, QoS: map[byte]bool{}, RetainAny: true}
		for f, g := range subs {
			if refmatch.Matches(f, topic) {
				d.Max++
				d.QoS[minb(pq, g)] = true
			}
		}
		if d.Max > 0 {
			d.Min = 1
			out["local:"+name] = d
		}
	}
	return out
}

// applyRetain updates the retained store for an accepted PUBLISH.
func (m *Model) applyRetain(topic, payload string, qos byte, retain bool) {
	if !retain {
		return
	}
	if payload == "" {
		delete(m.retained, topic)
	} else {
		m.retained[topic] = mretained{payload, qos}
	}
}

// Key is the canonical model state.
func (m *Model) Key() string {
	var ks []string
	for cid, s := range m.sessions {
		var fs []string
		for f, q := range s.subs {
			fs = append(fs, fmt.Sprintf("%s=%d", f, q))
		}
		sort.Strings(fs)
		ks = append(ks, "S:"+cid+"{"+strings.Join(fs, ",")+"}")
	}
	for n, c := range m.conns {
		if !c.open {
			continue
		}
		w := "-"
		if c.will != nil {
			w = fmt.Sprintf("%s/%s/%d/%v", c.will.Topic, c.will.Payload, c.will.QoS, c.will.Retain)
		}
		var q2 []string
		for _, x := range c.qos2order {
			q2 = append(q2, fmt.Sprintf("%d:%s:%v:%v", x.pkt.ID, short(string(x.pkt.Payload)), x.released, x.delivered))
		}
		ks = append(ks, fmt.Sprintf("C:%s=%s,clean=%v,acc=%v,will=%s,q2=%v", n, c.cid, c.clean, c.accepted, w, q2))
	}
	for t, r := range m.retained {
		ks = append(ks, fmt.Sprintf("R:%s=%s/%d", t, r.payload, r.qos))
	}
	for n, subs := range m.local {
		var fs []string
		for f, q := range subs {
			fs = append(fs, fmt.Sprintf("%s=%d", f, q))
		}
		sort.Strings(fs)
		ks = append(ks, "L:"+n+"{"+strings.Join(fs, ",")+"}")
	}
	sort.Strings(ks)
	return strings.Join(ks, ";")
}

// ---------------------------------------------------------------------------
// matching received packets against expectations

// Mismatch describes one disagreement.
type Mismatch struct {
	Comp string
	Msg  string
}

func samePacket(a, b *refcodec.Packet) bool {
	return bytes.Equal(refcodec.Encode(a), refcodec.Encode(b))
}

// isDelivery: does packet p look like a copy of delivery d (ignoring id, dup)?
func isDelivery(p *refcodec.Packet, d *Delivery) bool {
	return p.Type == refcodec.PUBLISH && string(p.Topic) == d.Topic && string(p.Payload) == d.Payload
}

// Compare checks what a receiver got against its expectation.  Anything left
// over is reported as unexpected.
func Compare(name string, got []*refcodec.Packet, e *Exp) []Mismatch {
	return CompareC(name, got, e, nil)
}

// CompareC is Compare with a classifier for unexpected PUBLISH packets.
func CompareC(name string, got []*refcodec.Packet, e *Exp, classify func(p *refcodec.Packet) string) []Mismatch {
	var mm []Mismatch
	used := make([]bool, len(got))
	if e == nil {
		e = &Exp{}
	}
	for _, want := range e.Must {
		found := false
		for i, p := range got {
			if !used[i] && samePacket(p, want) {
				used[i] = true
				found = true
				break
			}
		}
		if !found {
			mm = append(mm, Mismatch{e.Comp, fmt.Sprintf("%s did not receive %s (%s); it received %s", name, want, e.Desc, Describe(got))})
		}
	}
	for di := range e.Deliveries {
		d := &e.Deliveries[di]
		n := 0
		for i, p := range got {
			if used[i] || !isDelivery(p, d) {
				continue
			}
			if d.Max > 0 && n >= d.Max {
				continue
			}
			used[i] = true
			n++
			d.Got++
			if !d.QoS[p.QoS] {
				mm = append(mm, Mismatch{d.Comp, fmt.Sprintf("%s received %q at QoS %d, allowed %v", name, d.Topic, p.QoS, qosSet(d.QoS))})
			}
			if !d.RetainAny && p.Retain != d.Retain {
				mm = append(mm, Mismatch{d.Comp, fmt.Sprintf("%s received %q with retain flag %v, expected %v", name, d.Topic, p.Retain, d.Retain)})
			}
			if p.QoS > 0 && p.ID == 0 {
				mm = append(mm, Mismatch{d.Comp, fmt.Sprintf("%s received %q at QoS %d with packet identifier 0", name, d.Topic, p.QoS)})
			}
		}
		if n < d.Min {
			mm = append(mm, Mismatch{d.Comp, fmt.Sprintf("%s received %d copies of %q (payload %s), expected at least %d; it received %s", name, n, d.Topic, short(d.Payload), d.Min, Describe(got))})
		}
	}
	for i, p := range got {
		if used[i] {
			continue
		}
		comp := "route"
		switch p.Type {
		case refcodec.PUBLISH:
			if p.Retain {
				comp = "retained"
			}
			if classify != nil {
				if c := classify(p); c != "" {
					comp = c
				}
			}
		case refcodec.CONNACK:
			if e.MayCodes[p.ReturnCode] && !p.SessionPresent {
				continue
			}
			comp = "connect"
		case refcodec.PUBREL:
			// part of a QoS 2 delivery the client acknowledged with PUBREC
			continue
		default:
			comp = "acks"
		}
		mm = append(mm, Mismatch{comp, fmt.Sprintf("%s received an unexpected %s", name, p)})
	}
	return mm
}

func qosSet(m map[byte]bool) []int {
	var out []int
	for q := range m {
		out = append(out, int(q))
	}
	sort.Ints(out)
	return out
}

func short(s string) string {
	if len(s) > 24 {
		return fmt.Sprintf("%s…(%d bytes)", s[:24], len(s))
	}
	return fmt.Sprintf("%q", s)
}
