package broker

import (
	"fmt"
	"os"
	"strings"
	"unsafe"

	"github.com/mdzio/go-mqtt/message"
	"github.com/mdzio/go-mqtt/service"
	"github.com/mdzio/go-mqtt/verifrt/vsched"
	"verif/engine/explore"
	"verif/harness/core"
	"verif/models/refcodec"
)

// raceLog reads what the race detector has written since the last call.
type raceLog struct {
	path   string
	offset int64
	errs   int
}

func newRaceLog() *raceLog {
	p := ""
	for _, kv := range strings.Fields(os.Getenv("GORACE")) {
		if strings.HasPrefix(kv, "log_path=") {
			p = strings.TrimPrefix(kv, "log_path=") + fmt.Sprintf(".%d", os.Getpid())
		}
	}
	return &raceLog{path: p, errs: vsched.RaceErrors()}
}

// newReports returns the reports written since the last call.
func (r *raceLog) newReports() []string {
	n := vsched.RaceErrors()
	if n == r.errs {
		return nil
	}
	r.errs = n
	if r.path == "" {
		return []string{"(race detector reported a race; no log_path set)"}
	}
	b, err := os.ReadFile(r.path)
	if err != nil || int64(len(b)) <= r.offset {
		return []string{"(race detector reported a race; log not readable)"}
	}
	txt := string(b[r.offset:])
	r.offset = int64(len(b))
	var out []string
	for _, rep := range strings.Split(txt, "==================") {
		if strings.Contains(rep, "DATA RACE") {
			out = append(out, rep)
		}
	}
	return out
}

// accessSites extracts, for each of the two stacks of a report, the first
// frame that is not in the Go runtime: the racing accesses.
func accessSites(rep string) []string {
	var sites []string
	lines := strings.Split(rep, "\n")
	for i := 0; i < len(lines); i++ {
		l := lines[i]
		if (strings.Contains(l, " at 0x") && strings.Contains(l, "by ")) && !strings.HasPrefix(strings.TrimSpace(l), "Goroutine") {
			// following lines: function, then file:line (pairs)
			for j := i + 1; j+1 < len(lines); j += 2 {
				fn := strings.TrimSpace(lines[j])
				loc := strings.TrimSpace(lines[j+1])
				if fn == "" {
					break
				}
				if strings.HasPrefix(fn, "runtime.") || strings.HasPrefix(fn, "internal/") || strings.HasPrefix(fn, "sync.") || strings.HasPrefix(fn, "sync/atomic.") {
					continue
				}
				// the network shim's Read/Write stand for the system call that reads or fills the
				// CALLER's buffer (announced to the race detector at entry): the access belongs
				// to whoever passed the buffer - the frame below
				if strings.Contains(fn, "/verifrt/vsched.RaceReadRange") || strings.Contains(fn, "/verifrt/vsched.RaceWriteRange") ||
					strings.Contains(fn, "/verifrt/vnet.(*Conn).Write") || strings.Contains(fn, "/verifrt/vnet.(*Conn).Read") {
					continue
				}
				sites = append(sites, fn+" "+loc)
				break
			}
		}
	}
	return sites
}

// inLibrary: is the access in the repository's own code (not the runtime
// shims, not the harness)?
func inLibrary(site string) bool {
	if strings.Contains(site, "/verifrt/") || strings.Contains(site, "/verif/") {
		return false
	}
	return strings.Contains(site, "github.com/mdzio/go-mqtt/")
}

func siteKey(site string) string {
	// function name + file:line without the address offset
	f := strings.Fields(site)
	if len(f) >= 2 {
		loc := f[1]
		if i := strings.LastIndex(loc, "/"); i >= 0 {
			loc = loc[i+1:]
		}
		fn := f[0]
		if i := strings.LastIndex(fn, "/"); i >= 0 {
			fn = fn[i+1:]
		}
		return strings.TrimSuffix(fn, "()") + "@" + loc
	}
	return site
}

type raceScenario struct {
	name string
	body func()
	deep bool
}

// shallowScenarios: long executions, searched with one deviation fewer than the others
var shallowScenarios = map[string]bool{}

// raceScenarios: concurrent use the API permits, each with a default-schedule
// set-up and a marked exploration phase.
func raceScenarios() []raceScenario {
	var out []raceScenario
	// the sender stuck with a small chunk while the ring fills behind it and a larger message
	// waits for room (bodies shared with C17): the producer must not write into bytes the
	// sender is still putting on the wire
	for _, sc := range smallChunkCases(false) {
		if sc.small != 100 || sc.fill != (16384-(sc.small+20))/1012 || len(sc.pre) == 1 || len(sc.pre) == 3 {
			continue // two of the ring positions: ring start, second lap
		}
		shallowScenarios["outgoing ring: "+sc.name] = true
		out = append(out, raceScenario{"outgoing ring: " + sc.name, smallChunkBody(sc.pre, sc.small, sc.fill, sc.bigMsg), false})
	}
	// (i) connect || subscribe || publish || disconnect on three connections plus in-process calls
	out = append(out, raceScenario{"connect-subscribe-publish-disconnect + in-process", func() {
		t := newTD()
		a := t.connect("A", 0, 65535, false)
		b := t.connect("B", 0, 65535, false)
		t.subscribe("A", "t/#", 1)
		if vsched.Failed() {
			return
		}
		vsched.Mark()
		// a third client connects, subscribes and publishes while A publishes and B leaves
		vsched.Go("client-C", func() {
			c, err := t.w.Dial("C")
			if err != nil {
				return
			}
			c.Conn.Write(refcodec.Encode(ConnectPacket(ConnectOpts{ClientID: "c", Clean: true, KeepAlive: 600})))
			c.Conn.Write(refcodec.Encode(&refcodec.Packet{Type: refcodec.SUBSCRIBE, ID: 3, Topics: [][]byte{[]byte("t/+")}, QoSs: []byte{0}}))
			c.Conn.Write(refcodec.Encode(&refcodec.Packet{Type: refcodec.PUBLISH, Topic: []byte("t/c"), Retain: true, Payload: []byte("from-c")}))
		})
		a.rc.Conn.Write(refcodec.Encode(&refcodec.Packet{Type: refcodec.PUBLISH, Topic: []byte("t/a"), QoS: 1, ID: 7, Retain: true, Payload: []byte("from-a")}))
		b.rc.Conn.Write(refcodec.Encode(&refcodec.Packet{Type: refcodec.DISCONNECT}))
		vsched.Go("in-process", func() {
			h := &Harness{W: t.w}
			_ = h
			m := localPublish("t/x", 1, true, "from-server")
			t.w.Svr.Publish(m)
		})
		vsched.Quiesce()
	}, false})
	// (ii) retained replace || subscribe
	out = append(out, raceScenario{"retained-replace || subscribe", func() {
		t := newTD()
		p := t.connect("P", 0, 65535, false)
		s := t.connect("S", 0, 65535, false)
		p.rc.Send(&refcodec.Packet{Type: refcodec.PUBLISH, Topic: []byte("r"), Retain: true, QoS: 1, ID: 1, Payload: []byte("old-retained-value")})
		t.settleExcept()
		if vsched.Failed() {
			return
		}
		vsched.Mark()
		p.rc.Conn.Write(refcodec.Encode(&refcodec.Packet{Type: refcodec.PUBLISH, Topic: []byte("r"), Retain: true, QoS: 1, ID: 2, Payload: []byte("new")}))
		s.rc.Conn.Write(refcodec.Encode(&refcodec.Packet{Type: refcodec.SUBSCRIBE, ID: 5, Topics: [][]byte{[]byte("r")}, QoSs: []byte{1}}))
		vsched.Quiesce()
	}, true})
	// (ii') a retained message is cleared (empty payload) while a new subscription collects
	// retained messages and another retained message is stored
	out = append(out, raceScenario{"retained-clear || subscribe || retained insert", func() {
		t := newTD()
		p := t.connect("P", 0, 65535, false)
		p2 := t.connect("P2", 0, 65535, false)
		s := t.connect("S", 0, 65535, false)
		p.rc.Send(&refcodec.Packet{Type: refcodec.PUBLISH, Topic: []byte("r/a"), Retain: true, QoS: 1, ID: 1, Payload: []byte("kept-a")})
		p.rc.Send(&refcodec.Packet{Type: refcodec.PUBLISH, Topic: []byte("r/a/b"), Retain: true, QoS: 1, ID: 2, Payload: []byte("kept-b")})
		t.settleExcept()
		if vsched.Failed() {
			return
		}
		vsched.Mark()
		p.rc.Conn.Write(refcodec.Encode(&refcodec.Packet{Type: refcodec.PUBLISH, Topic: []byte("r/a/b"), Retain: true, QoS: 0}))
		s.rc.Conn.Write(refcodec.Encode(&refcodec.Packet{Type: refcodec.SUBSCRIBE, ID: 5, Topics: [][]byte{[]byte("r/#")}, QoSs: []byte{1}}))
		p2.rc.Conn.Write(refcodec.Encode(&refcodec.Packet{Type: refcodec.PUBLISH, Topic: []byte("r/c"), Retain: true, QoS: 0, Payload: []byte("new-c")}))
		vsched.Quiesce()
	}, false})
	// (ii'') two new subscriptions collect the same retained message at the same time, one
	// of them granted less than its QoS (the broker downgrades a copy for it), a third
	// one in-process
	out = append(out, raceScenario{"retained QoS 2 message || subscribe@0 || subscribe@2 || in-process subscribe@1", func() {
		t := newTD()
		p := t.connect("P", 0, 65535, false)
		s1 := t.connect("S1", 0, 65535, false)
		s2 := t.connect("S2", 0, 65535, false)
		p.rc.Send(&refcodec.Packet{Type: refcodec.PUBLISH, Topic: []byte("r"), Retain: true, QoS: 2, ID: 0x4142, Payload: []byte("retained-at-qos-2")})
		t.settleExcept()
		p.rc.Send(&refcodec.Packet{Type: refcodec.PUBREL, ID: 0x4142})
		t.settleExcept()
		if vsched.Failed() {
			return
		}
		vsched.Mark()
		s1.rc.Conn.Write(refcodec.Encode(&refcodec.Packet{Type: refcodec.SUBSCRIBE, ID: 5, Topics: [][]byte{[]byte("r")}, QoSs: []byte{0}}))
		s2.rc.Conn.Write(refcodec.Encode(&refcodec.Packet{Type: refcodec.SUBSCRIBE, ID: 6, Topics: [][]byte{[]byte("#")}, QoSs: []byte{2}}))
		vsched.Go("in-process", func() {
			cb := service.OnPublishFunc(func(m *message.PublishMessage) error { return nil })
			t.w.Svr.Subscribe("r", 1, &cb)
		})
		vsched.Quiesce()
	}, true})
	// (iii) teardown of a subscriber || fan-out to it
	out = append(out, raceScenario{"subscriber-teardown || fan-out", func() {
		t := newTD()
		p := t.connect("P", 0, 65535, false)
		s := t.connect("S", 0, 65535, false)
		t.subscribe("S", "f", 1)
		if vsched.Failed() {
			return
		}
		vsched.Mark()
		p.rc.Conn.Write(refcodec.Encode(&refcodec.Packet{Type: refcodec.PUBLISH, Topic: []byte("f"), QoS: 1, ID: 2, Payload: []byte("m1")}))
		s.rc.Cut()
		p.rc.Conn.Write(refcodec.Encode(&refcodec.Packet{Type: refcodec.PUBLISH, Topic: []byte("f"), QoS: 0, Payload: []byte("m2")}))
		vsched.Quiesce()
	}, true})
	// (iv) two publishers to one subscriber (shared outgoing ring) with acks flowing back
	out = append(out, raceScenario{"two publishers -> one subscriber with acks", func() {
		t := newTD()
		p1 := t.connect("P1", 0, 65535, false)
		p2 := t.connect("P2", 0, 65535, false)
		s := t.connect("S", 0, 65535, false)
		t.subscribe("S", "g", 1)
		if vsched.Failed() {
			return
		}
		vsched.Mark()
		p1.rc.Conn.Write(refcodec.Encode(&refcodec.Packet{Type: refcodec.PUBLISH, Topic: []byte("g"), QoS: 1, ID: 2, Payload: []byte("one")}))
		p2.rc.Conn.Write(refcodec.Encode(&refcodec.Packet{Type: refcodec.PUBLISH, Topic: []byte("g"), QoS: 1, ID: 3, Payload: []byte("two")}))
		s.rc.Conn.Write(refcodec.Encode(&refcodec.Packet{Type: refcodec.PINGREQ}))
		vsched.Quiesce()
		// the subscriber acknowledges
		for _, pk := range func() []*refcodec.Packet { s.rc.AutoAck = false; s.rc.pump(); return s.rc.Take() }() {
			if pk.Type == refcodec.PUBLISH && pk.QoS == 1 {
				s.rc.Conn.Write(refcodec.Encode(&refcodec.Packet{Type: refcodec.PUBACK, ID: pk.ID}))
			}
		}
		vsched.Quiesce()
	}, false})
	// (vii) two goroutines call Server.Publish / Server.Subscribe concurrently
	// (iv') an acknowledgement is being worked off by the subscriber's processor (which
	// decodes the entries handed back by the ack queue outside its lock) while another
	// publisher's processor registers the next delivery in the same queue
	out = append(out, raceScenario{"PUBACK being processed || next delivery registered", func() {
		t := newTD()
		p1 := t.connect("P1", 0, 65535, false)
		p2 := t.connect("P2", 0, 65535, false)
		s := t.connect("S", 0, 65535, false)
		t.subscribe("S", "g", 1)
		s.rc.AutoAck = false
		p1.rc.Send(&refcodec.Packet{Type: refcodec.PUBLISH, Topic: []byte("g"), QoS: 1, ID: 2, Payload: []byte("first-message")})
		t.settleExcept()
		var id uint16
		for _, pk := range s.rc.Take() {
			if pk.Type == refcodec.PUBLISH {
				id = pk.ID
			}
		}
		if id == 0 || vsched.Failed() {
			return
		}
		vsched.Mark()
		s.rc.Conn.Write(refcodec.Encode(&refcodec.Packet{Type: refcodec.PUBACK, ID: id}))
		p2.rc.Conn.Write(refcodec.Encode(&refcodec.Packet{Type: refcodec.PUBLISH, Topic: []byte("g"), QoS: 1, ID: 3, Payload: []byte("two")}))
		vsched.Quiesce()
	}, true})
	out = append(out, raceScenario{"concurrent in-process Publish x2 + Subscribe", func() {
		t := newTD()
		t.connect("A1", 0, 65535, false)
		t.connect("A2", 0, 65535, false)
		t.connect("B1", 0, 65535, false)
		t.subscribe("A1", "pa", 1)
		t.subscribe("A2", "pa", 0)
		t.subscribe("B1", "pb", 1)
		if vsched.Failed() {
			return
		}
		vsched.Mark()
		vsched.Go("publish-a", func() { t.w.Svr.Publish(localPublish("pa", 1, true, "message-a")) })
		vsched.Go("publish-b", func() { t.w.Svr.Publish(localPublish("pb", 1, false, "message-b")) })
		vsched.Go("subscribe-local", func() {
			h := &Harness{W: t.w, M: NewModel(2, true), localFn: map[string]*service.OnPublishFunc{}, localGot: map[string][]*refcodec.Packet{}}
			f := service.OnPublishFunc(func(msg *message.PublishMessage) error { return nil })
			h.W.Svr.Subscribe("pa", 1, &f)
		})
		vsched.Quiesce()
	}, false})
	// (vi) back-to-back large publishes: the publisher's incoming ring wraps while the
	// first message is still being fanned out
	out = append(out, raceScenario{"ring wraps during fan-out", func() {
		t := newTD()
		p := t.connect("P", 0, 65535, false)
		t.connect("S", 0, 65535, false)
		t.subscribe("S", "big", 0)
		if vsched.Failed() {
			return
		}
		vsched.Mark()
		var wire []byte
		for k := 0; k < 3; k++ {
			wire = append(wire, refcodec.Encode(bigPub("big", blockPayload, byte(k)))...)
		}
		p.rc.Conn.Write(wire)
		vsched.Quiesce()
	}, false})
	// (v) server close || traffic
	out = append(out, raceScenario{"Server.Close || publish", func() {
		t := newTD()
		p := t.connect("P", 0, 65535, false)
		t.connect("S", 0, 65535, false)
		t.subscribe("S", "h", 0)
		if vsched.Failed() {
			return
		}
		vsched.Mark()
		p.rc.Conn.Write(refcodec.Encode(&refcodec.Packet{Type: refcodec.PUBLISH, Topic: []byte("h"), Payload: []byte("bye")}))
		vsched.Go("closer", func() { t.w.Svr.Close() })
		vsched.Quiesce()
	}, false})
	// (v') the same with a publisher that has a will: Server.Close stops it from another
	// goroutine (and publishes its will) while its own processor may be in a fan-out
	out = append(out, raceScenario{"Server.Close || publish by a connection with a will", func() {
		t := newTD()
		t.connect("S", 0, 65535, false)
		t.subscribe("S", "h", 0)
		t.subscribe("S", "will/p", 0)
		p := t.connect("P", 0, 65535, true)
		if vsched.Failed() {
			return
		}
		vsched.Mark()
		p.rc.Conn.Write(refcodec.Encode(&refcodec.Packet{Type: refcodec.PUBLISH, Topic: []byte("h"), Payload: []byte("bye")}))
		vsched.Go("closer", func() { t.w.Svr.Close() })
		vsched.Quiesce()
	}, true})
	// (viii') the session store is shared by all connections: a clean-session connection is
	// cut (its session is deleted) while other clients connect (CleanSession 0: look-up
	// and insert; CleanSession 1: insert) and a persistent one disconnects
	out = append(out, raceScenario{"clean session discarded || other clients connect", func() {
		t := newTD()
		c1 := t.connect("C1", 0, 65535, false)
		old, err := t.w.Dial("OLD")
		if err != nil {
			return
		}
		old.Send(ConnectPacket(ConnectOpts{ClientID: "kept", Clean: false, KeepAlive: 600}))
		t.w.Settle()
		n1, err := t.w.Dial("N1")
		if err != nil {
			return
		}
		n2, err := t.w.Dial("N2")
		if err != nil || vsched.Failed() {
			return
		}
		vsched.Mark()
		c1.rc.Cut()
		n1.Conn.Write(refcodec.Encode(ConnectPacket(ConnectOpts{ClientID: "other", Clean: false, KeepAlive: 600})))
		n2.Conn.Write(refcodec.Encode(ConnectPacket(ConnectOpts{ClientID: "third", Clean: true, KeepAlive: 600})))
		old.Conn.Write(refcodec.Encode(&refcodec.Packet{Type: refcodec.DISCONNECT}))
		vsched.Quiesce()
	}, true})
	// (viii) a connection is cut and its successor with the same client id connects at
	// once (persistent session, so both share the session object for a moment)
	out = append(out, raceScenario{"cut || successor resumes the session", func() {
		t := newTD()
		p := t.connect("P", 0, 65535, false)
		x1, err := t.w.Dial("X1")
		if err != nil {
			return
		}
		x1.Send(ConnectPacket(ConnectOpts{ClientID: "x", Clean: false, KeepAlive: 600, Will: &Will{"w/x", "first", 1, false}}))
		t.w.Settle()
		x1.Send(&refcodec.Packet{Type: refcodec.SUBSCRIBE, ID: 3, Topics: [][]byte{[]byte("a")}, QoSs: []byte{1}})
		t.w.Settle()
		x2, err := t.w.Dial("X2")
		if err != nil || vsched.Failed() {
			return
		}
		vsched.Mark()
		p.rc.Conn.Write(refcodec.Encode(&refcodec.Packet{Type: refcodec.PUBLISH, Topic: []byte("a"), QoS: 1, ID: 7, Payload: []byte("m")}))
		x1.Cut()
		x2.Conn.Write(append(refcodec.Encode(ConnectPacket(ConnectOpts{ClientID: "x", Clean: false, KeepAlive: 600, Will: &Will{"w/x", "second", 0, false}})),
			refcodec.Encode(&refcodec.Packet{Type: refcodec.SUBSCRIBE, ID: 4, Topics: [][]byte{[]byte("b")}, QoSs: []byte{0}})...))
		vsched.Quiesce()
	}, false})
	// (viii-a) the same with a successor whose CONNECT is as long as (and shorter than) the one the
	// session holds: whatever buffer the session keeps the stored CONNECT in must not be written
	// while the ending connection still publishes its will from it
	for _, w2 := range []string{"other", "2nd"} {
		w2 := w2
		out = append(out, raceScenario{fmt.Sprintf("cut || successor resumes the session with a CONNECT of %d bytes less", 5-len(w2)), func() {
			t := newTD()
			wt := t.connect("W", 0, 65535, false)
			t.subscribe("W", "w/#", 1)
			x1, err := t.w.Dial("X1")
			if err != nil || wt == nil {
				return
			}
			x1.Send(ConnectPacket(ConnectOpts{ClientID: "x", Clean: false, KeepAlive: 600, Will: &Will{"w/x", "first", 1, false}}))
			t.w.Settle()
			x2, err := t.w.Dial("X2")
			if err != nil || vsched.Failed() {
				return
			}
			vsched.Mark()
			x1.Cut()
			x2.Conn.Write(refcodec.Encode(ConnectPacket(ConnectOpts{ClientID: "x", Clean: false, KeepAlive: 600, Will: &Will{"w/x", w2, 1, false}})))
			vsched.Quiesce()
		}, false})
	}
	// (viii-b) the same with a DISCONNECT packet instead of the cut: the old connection's
	// processor takes the will back while the successor's handshake looks at the stored CONNECT
	out = append(out, raceScenario{"DISCONNECT || successor resumes the session", func() {
		t := newTD()
		x1, err := t.w.Dial("X1")
		if err != nil {
			return
		}
		x1.Send(ConnectPacket(ConnectOpts{ClientID: "x", Clean: false, KeepAlive: 600, Will: &Will{"w/x", "first", 1, false}}))
		t.w.Settle()
		x2, err := t.w.Dial("X2")
		if err != nil || vsched.Failed() {
			return
		}
		vsched.Mark()
		x1.Conn.Write(refcodec.Encode(&refcodec.Packet{Type: refcodec.DISCONNECT}))
		x2.Conn.Write(refcodec.Encode(ConnectPacket(ConnectOpts{ClientID: "x", Clean: false, KeepAlive: 600, Will: &Will{"w/x", "second", 0, false}})))
		vsched.Quiesce()
	}, false})
	// (ix) Server.Close || a client that is just connecting
	out = append(out, raceScenario{"Server.Close || connecting client", func() {
		t := newTD()
		t.connect("A", 0, 65535, false)
		if vsched.Failed() {
			return
		}
		vsched.Mark()
		vsched.Go("closer", func() { t.w.Svr.Close() })
		vsched.Go("client-N", func() {
			rc, err := t.w.Dial("N")
			if err != nil {
				return
			}
			rc.Dead = true
			rc.Conn.Write(append(refcodec.Encode(ConnectPacket(ConnectOpts{ClientID: "n", Clean: true, KeepAlive: 600})),
				refcodec.Encode(&refcodec.Packet{Type: refcodec.SUBSCRIBE, ID: 4, Topics: [][]byte{[]byte("t")}, QoSs: []byte{0}})...))
		})
		vsched.Quiesce()
	}, true})
	// (x) in-process Subscribe / Unsubscribe || network publish on the same topic
	out = append(out, raceScenario{"in-process Subscribe+Unsubscribe || network publish", func() {
		t := newTD()
		p := t.connect("P", 0, 65535, false)
		s := t.connect("S", 0, 65535, false)
		t.subscribe("S", "t", 1)
		f := service.OnPublishFunc(func(msg *message.PublishMessage) error { return nil })
		g := service.OnPublishFunc(func(msg *message.PublishMessage) error { return nil })
		t.w.Svr.Subscribe("t", 1, &g)
		if vsched.Failed() {
			return
		}
		vsched.Mark()
		p.rc.Conn.Write(refcodec.Encode(&refcodec.Packet{Type: refcodec.PUBLISH, Topic: []byte("t"), QoS: 1, ID: 7, Retain: true, Payload: []byte("m1")}))
		vsched.Go("local-sub", func() { t.w.Svr.Subscribe("t", 0, &f) })
		vsched.Go("local-unsub", func() { t.w.Svr.Unsubscribe("t", &g) })
		_ = s
		vsched.Quiesce()
	}, false})
	// (xi) two handshakes with one client id at the same time
	out = append(out, raceScenario{"two overlapping handshakes with one client id", func() {
		t := newTD()
		a, err := t.w.Dial("A")
		if err != nil {
			return
		}
		b, err := t.w.Dial("B")
		if err != nil || vsched.Failed() {
			return
		}
		vsched.Mark()
		a.Conn.Write(refcodec.Encode(ConnectPacket(ConnectOpts{ClientID: "x", Clean: false, KeepAlive: 600, Will: &Will{"w/a", "will of A", 1, false}})))
		b.Conn.Write(refcodec.Encode(ConnectPacket(ConnectOpts{ClientID: "x", Clean: false, KeepAlive: 600, Will: &Will{"w/b", "will of B", 0, false}})))
		vsched.Quiesce()
		a.Cut()
		vsched.Quiesce()
	}, false})
	// (xi') the same with one of the two asking for a clean session (either one first)
	for _, cleanFirst := range []bool{true, false} {
		cleanFirst := cleanFirst
		out = append(out, raceScenario{fmt.Sprintf("two overlapping handshakes with one client id, one of them CleanSession=1 (the older connection: %v)", cleanFirst), func() {
			t := newTD()
			a, err := t.w.Dial("A")
			if err != nil {
				return
			}
			b, err := t.w.Dial("B")
			if err != nil || vsched.Failed() {
				return
			}
			vsched.Mark()
			a.Conn.Write(refcodec.Encode(ConnectPacket(ConnectOpts{ClientID: "x", Clean: cleanFirst, KeepAlive: 600, Will: &Will{"w/a", "will of A", 1, false}})))
			b.Conn.Write(refcodec.Encode(ConnectPacket(ConnectOpts{ClientID: "x", Clean: !cleanFirst, KeepAlive: 600})))
			vsched.Quiesce()
			b.Cut()
			vsched.Quiesce()
		}, true})
	}
	// (v'') the application publishes and subscribes in-process while it closes the server
	// from another goroutine
	out = append(out, raceScenario{"Server.Close || in-process Publish + Subscribe", func() {
		t := newTD()
		s := t.connect("S", 0, 65535, false)
		t.subscribe("S", "t", 1)
		s.ended = true
		if vsched.Failed() {
			return
		}
		vsched.Mark()
		vsched.Go("closer", func() { t.w.Svr.Close() })
		vsched.Go("in-process", func() {
			t.w.Svr.Publish(localPublish("t", 1, true, "late"))
			cb := service.OnPublishFunc(func(m *message.PublishMessage) error { return nil })
			t.w.Svr.Subscribe("t/#", 1, &cb)
			t.w.Svr.Publish(localPublish("t/x", 0, false, "later"))
		})
		vsched.Quiesce()
	}, true})
	// (xii) client role: the processor acknowledges incoming QoS 1 publishes (a producer of the
	// outgoing ring) while the application publishes and then calls Disconnect
	out = append(out, raceScenario{"client: incoming QoS 1 publishes || Publish + Disconnect", func() {
		w := NewClientWorld()
		if !w.Connected("cid") {
			return
		}
		if _, err := w.Issue("sub", []string{"t"}, []byte{1}, ""); err != nil {
			return
		}
		w.Settle()
		ps := w.Srv.Take()
		if len(ps) != 1 {
			return
		}
		w.ServerSend(&refcodec.Packet{Type: refcodec.SUBACK, ID: ps[0].ID, Codes: []byte{1}})
		w.Settle()
		vsched.Mark()
		for i := 0; i < 2; i++ {
			w.Srv.Conn.Write(refcodec.Encode(&refcodec.Packet{Type: refcodec.PUBLISH, Topic: []byte("t"), QoS: 1, ID: uint16(30 + i), Payload: []byte("in")}))
		}
		vsched.RaceRelease(unsafe.Pointer(w))
		vsched.Go("app", func() {
			vsched.RaceAcquire(unsafe.Pointer(w))
			w.Issue("pub0", []string{"u"}, nil, "out")
			w.Cl.Disconnect()
		})
		vsched.Go("server-reader", func() {
			buf := make([]byte, 4096)
			for {
				if _, err := w.Srv.Conn.Read(buf); err != nil {
					return
				}
			}
		})
		vsched.Quiesce()
	}, true})
	// (xiv) the broker does not close an older connection with the same client identifier: two
	// live connections share one persistent session (its acknowledgement queues included) and
	// both publish at QoS 2 at the same time
	out = append(out, raceScenario{"two live connections of one persistent session, QoS 2 publishes on both", func() {
		t := newTD()
		w := t.connect("W", 0, 65535, false)
		t.subscribe("W", "q/#", 0)
		var xs []*RawClient
		for i := 0; i < 2; i++ {
			x, err := t.w.Dial(fmt.Sprintf("X%d", i+1))
			if err != nil {
				return
			}
			x.Send(ConnectPacket(ConnectOpts{ClientID: "x", Clean: false, KeepAlive: 600}))
			t.w.Settle()
			x.Take()
			xs = append(xs, x)
		}
		if vsched.Failed() || w == nil {
			return
		}
		vsched.Mark()
		// the first connection's exchanges are released newest first, so that its second PUBREL
		// hands on a batch of two messages
		q2 := func(id uint16, pl string) []byte {
			return refcodec.Encode(&refcodec.Packet{Type: refcodec.PUBLISH, Topic: []byte("q/a"), QoS: 2, ID: id, Payload: []byte(pl)})
		}
		rel := func(id uint16) []byte { return refcodec.Encode(&refcodec.Packet{Type: refcodec.PUBREL, ID: id}) }
		var w1 []byte
		w1 = append(w1, q2(10, "m10")...)
		w1 = append(w1, q2(11, "m11")...)
		w1 = append(w1, rel(11)...)
		w1 = append(w1, rel(10)...)
		xs[0].Conn.Write(w1)
		xs[1].Conn.Write(append(q2(20, "m20"), rel(20)...))
		vsched.Quiesce()
	}, false})
	// (xiii) two Clients of one process (a bridge, say) connect and disconnect at the same time:
	// Connect and the end of a client connection write the process-wide provider registry
	out = append(out, raceScenario{"client: two Clients of one process, Connect || Connect, then Disconnect || Disconnect", func() {
		w := NewClientWorld()
		vsched.Mark()
		for i := 0; i < 2; i++ {
			i := i
			vsched.Go(fmt.Sprintf("app%d", i), func() {
				cl := &service.Client{BufferSize: 16384}
				cm := message.NewConnectMessage()
				cm.SetVersion(4)
				cm.SetClientID([]byte(fmt.Sprintf("c%d", i)))
				cm.SetCleanSession(true)
				cm.SetKeepAlive(60)
				if cl.Connect("tcp://"+addr, cm) == nil {
					cl.Disconnect()
				}
			})
		}
		vsched.Go("server", func() {
			for k := 0; k < 2; k++ {
				c, err := w.Ln.Accept()
				if err != nil {
					return
				}
				vsched.Go(fmt.Sprintf("server-conn%d", k), func() {
					buf := make([]byte, 4096)
					if _, err := c.Read(buf); err != nil {
						return
					}
					c.Write(refcodec.Encode(&refcodec.Packet{Type: refcodec.CONNACK}))
					for {
						if _, err := c.Read(buf); err != nil {
							return
						}
					}
				})
			}
		})
		vsched.Quiesce()
	}, true})
	return out
}

// C18: no unsynchronised access to shared broker state, decided by
// ThreadSanitizer on every explored schedule (DESIGN §2.6).
func C18(c *core.Ctx) {
	if !vsched.RaceBuild {
		panic("ENGINE-ERROR: C18 needs the race build of the worker")
	}
	dev := 1
	if c.Thorough() {
		dev = 2
	}
	c.Rep.Bound = fmt.Sprintf("SCHED under ThreadSanitizer: %d scenarios of concurrent connection handling, handshakes with one client id, fan-out, retained updates, subscription churn, teardown, Server.Close, in-process Publish/Subscribe and the client role (2-4 connections; two Clients of one process), default-schedule set-up, then every schedule deviating from the default at <= %d points (selected small scenarios one more); the scheduler's own hand-offs are hidden from the race detector, the shims reproduce the happens-before edges of the real sync primitives", len(raceScenarios()), dev)
	c.Rep.Rule = "oracle: after every execution the race detector's error count must not have grown; a report counts when both racing accesses are in the repository's packages (not in the runtime shims or the harness); distinct = distinct happens-before states"
	rl := newRaceLog()
	known := map[string]int{}
	for _, sc := range raceScenarios() {
		if c.Expired() || c.HasViolation() {
			break
		}
		sc := sc
		var pending string
		check := func(r *vsched.Result) explore.Verdict {
			if r.Status == vsched.StCrash {
				return explore.Verdict{Outcome: "crash"}
			}
			for _, rep := range rl.newReports() {
				sites := accessSites(rep)
				lib := len(sites) >= 2
				for _, s := range sites {
					if !inLibrary(s) {
						lib = false
					}
				}
				if !lib {
					continue
				}
				key := "C18 race " + siteKey(sites[0]) + " <-> " + siteKey(sites[1])
				if siteKey(sites[1]) < siteKey(sites[0]) {
					key = "C18 race " + siteKey(sites[1]) + " <-> " + siteKey(sites[0])
				}
				if c.Known[key] {
					known[key]++
					continue
				}
				pending = key + "\n" + rep
				return explore.Verdict{Violation: "data race between " + siteKey(sites[0]) + " and " + siteKey(sites[1]), Outcome: "race"}
			}
			return explore.Verdict{Outcome: "clean"}
		}
		if only := os.Getenv("VERIF_ONLY"); only != "" && !strings.Contains(sc.name, only) {
			continue // debugging aid, as in RunSched
		}
		dev := dev
		if sc.deep && dev < 2 {
			dev = 2 // small scenarios are searched one deviation deeper already in the quick tier
		}
		if shallowScenarios[sc.name] && dev > 1 {
			dev--
		}
		st := c.RunSchedRace(explore.SchedOpts{Name: sc.name, Bound: -1, DevBound: dev, Cache: true, UseMark: true, Body: sc.body, MaxPoints: 100000, Check: check, Shard: c.Shard, NShards: c.NShards},
			func(v *explore.Violation) (string, string) {
				parts := strings.SplitN(pending, "\n", 2)
				if len(parts) == 2 {
					return parts[0], parts[1]
				}
				return "C18 race " + violClass(v.Message), ""
			})
		if st != nil && c.Shard == 0 {
			c.Rep.Sample(map[string]interface{}{"scenario": sc.name, "deviations": dev, "executions": st.Executions, "states": st.States})
		}
	}
	for k, n := range known {
		c.Rep.KnownHits[k] += n
	}
}

func init() { core.Register("C18", C18) }
