package broker

import (
	"encoding/json"
	"fmt"
	"strings"

	"verif/engine/explore"
	"verif/harness/core"
)

// c02client: the library in the client role as receiver of QoS 1/2 messages:
// a library Client with one granted subscription against a scripted server.
func c02client(c *core.Ctx) {
	p8k := big(8000, 8)
	prefix := []cop{{kind: "api:sub", filters: []string{"t/+"}, qoss: []byte{2}}, {kind: "srv:suback"}}
	ops := []cop{
		{kind: "srv:pub", topic: "t/a", qos: 1, id: 5, payload: "A1"},
		{kind: "srv:pub", topic: "t/a", qos: 1, id: 5, dup: true, payload: "A1"},
		{kind: "srv:pub", topic: "t/a", qos: 2, id: 6, payload: "A2"},
		{kind: "srv:pub", topic: "t/a", qos: 2, id: 6, dup: true, payload: "B2"},
		{kind: "srv:pubrel", id: 6},
		{kind: "srv:pub", topic: "t/b", qos: 2, id: 7, payload: p8k},
		{kind: "srv:pubrel", id: 7},
		{kind: "srv:pub", topic: "zz", qos: 0, payload: p8k},
	}
	all := append(append([]cop{}, prefix...), ops...)
	d1, d2 := 6, 4
	if c.Thorough() {
		d1, d2 = 8, 5
	}
	for _, s := range []struct {
		name  string
		depth int
		dedup bool
	}{{"client-receiver", d1, true}, {"client-receiver-sequences", d2, false}} {
		o := explore.HistOpts{Name: s.name, NOps: len(ops), OpName: func(i int) string { return ops[i].String() }, MaxDepth: s.depth, Dedup: s.dedup,
			Shard: c.Shard, NShards: c.NShards, Deadline: c.Deadline,
			Run: func(h []int) (string, string, int) {
				hh := []int{0, 1}
				for _, x := range h {
					hh = append(hh, x+2)
				}
				return runDispatch(all, hh, false)
			}}
		st := explore.Hist(o)
		r := c.Rep
		r.Scenarios++
		r.States += int64(st.States)
		r.Transitions += int64(st.Transitions)
		r.Executions += int64(st.Histories)
		r.Evaluations += int64(st.Histories)
		r.Nontrivial += int64(st.States)
		if !st.Exhaustive {
			r.Exhaustive = false
			r.AddCap(st.CapHit)
		}
		r.Notes = append(r.Notes, fmt.Sprintf("%s: complete to depth %d (fixpoint=%v)", s.name, st.DepthDone, st.Fixpoint))
		r.Sample(map[string]interface{}{"search": s.name, "alphabet": len(ops), "depth": st.DepthDone, "states": st.States, "histories": st.Histories})
		if st.Violation != "" {
			in, _ := json.Marshal(st.Hist)
			if c.Violate("C02 "+s.name+" :: "+violClass(st.Violation), core.Replay{Scenario: s.name + ": " + explore.HistString(o, st.Hist), Message: st.Violation, Input: in}) {
				return
			}
		}
	}
	c02clientBurst(c)
}

// c02clientBurst: many inbound QoS 2 exchanges open at once in the client role
// (every count 1..36, so the inbound queue is exactly full at 16 and 32 and grows
// at 17 and 33), released in three orders.
func c02clientBurst(c *core.Ctx) {
	if c.Replay != nil && !strings.HasPrefix(c.Replay.Scenario, "client-burst") {
		return
	}
	n := 0
	for inflight := 1; inflight <= 36; inflight++ {
		for _, order := range []string{"fifo", "lifo", "rot5"} {
			n++
			name := fmt.Sprintf("client-burst: %d QoS 2 exchanges in flight, released %s", inflight, order)
			if c.Replay != nil {
				if c.Replay.Scenario != name {
					continue
				}
			} else {
				if c.NShards > 1 && n%c.NShards != c.Shard {
					continue
				}
				if !c.Thorough() && (inflight > 33 || (inflight < 14 && inflight%4 != 0)) {
					continue
				}
			}
			if c.Expired() || c.HasViolation() {
				return
			}
			all := []cop{{kind: "api:sub", filters: []string{"t/+"}, qoss: []byte{2}}, {kind: "srv:suback"}}
			hist := []int{0, 1}
			for i := 0; i < inflight; i++ {
				all = append(all, cop{kind: "srv:pub", topic: "t/a", qos: 2, id: uint16(100 + i), payload: fmt.Sprintf("m-%d", i)})
				hist = append(hist, len(all)-1)
			}
			idx := make([]int, inflight)
			for i := range idx {
				idx[i] = i
			}
			switch order {
			case "lifo":
				for a, b := 0, len(idx)-1; a < b; a, b = a+1, b-1 {
					idx[a], idx[b] = idx[b], idx[a]
				}
			case "rot5":
				k := 5 % len(idx)
				idx = append(idx[k:], idx[:k]...)
			}
			for _, i := range idx {
				all = append(all, cop{kind: "srv:pubrel", id: uint16(100 + i)})
				hist = append(hist, len(all)-1)
			}
			v, _, steps := runDispatch(all, hist, c.Replay != nil)
			if c.Replay != nil {
				fmt.Println("replay:", name, "\n  violation:", v)
				c.Rep.Scenarios++
				return
			}
			c.Rep.Executions++
			c.Rep.Evaluations++
			c.Rep.States++
			c.Rep.Nontrivial++
			c.Rep.Transitions += int64(steps)
			if v != "" {
				if c.Violate("C02 client-burst :: "+violClass(v), core.Replay{Scenario: name, Message: v}) {
					return
				}
			}
		}
	}
	c.Rep.Scenarios++
	c.Rep.Sample(map[string]interface{}{"search": "client-burst", "in_flight": "1..36 (quick: 4,8,12,14..33)", "orders": []string{"fifo", "lifo", "rot5"}})
}
