package broker

import (
	"encoding/json"
	"fmt"

	"verif/engine/explore"
	"verif/harness/core"
)

// c02client: the library in the client role as receiver of QoS 1/2 messages:
// a library Client with one granted subscription against a scripted server.
func c02client(c *core.Ctx) {
	p8k := big(8000, 8)
	prefix := []cop{{kind: "api:sub", filters: []string{"t/+"}, qoss: []byte{2}}, {kind: "srv:suback"}}
	ops := []cop{
		{kind: "srv:pub", topic: "t/a", qos: 1, id: 5, payload: "A1"},
		{kind: "srv:pub", topic: "t/a", qos: 1, id: 5, dup: true, payload: "A1"},
		{kind: "srv:pub", topic: "t/a", qos: 2, id: 6, payload: "A2"},
		{kind: "srv:pub", topic: "t/a", qos: 2, id: 6, dup: true, payload: "B2"},
		{kind: "srv:pubrel", id: 6},
		{kind: "srv:pub", topic: "t/b", qos: 2, id: 7, payload: p8k},
		{kind: "srv:pubrel", id: 7},
		{kind: "srv:pub", topic: "zz", qos: 0, payload: p8k},
	}
	all := append(append([]cop{}, prefix...), ops...)
	d1, d2 := 6, 4
	if c.Thorough() {
		d1, d2 = 8, 5
	}
	for _, s := range []struct {
		name  string
		depth int
		dedup bool
	}{{"client-receiver", d1, true}, {"client-receiver-sequences", d2, false}} {
		o := explore.HistOpts{Name: s.name, NOps: len(ops), OpName: func(i int) string { return ops[i].String() }, MaxDepth: s.depth, Dedup: s.dedup,
			Shard: c.Shard, NShards: c.NShards, Deadline: c.Deadline,
			Run: func(h []int) (string, string, int) {
				hh := []int{0, 1}
				for _, x := range h {
					hh = append(hh, x+2)
				}
				return runDispatch(all, hh, false)
			}}
		st := explore.Hist(o)
		r := c.Rep
		r.Scenarios++
		r.States += int64(st.States)
		r.Transitions += int64(st.Transitions)
		r.Executions += int64(st.Histories)
		r.Evaluations += int64(st.Histories)
		r.Nontrivial += int64(st.States)
		if !st.Exhaustive {
			r.Exhaustive = false
			r.AddCap(st.CapHit)
		}
		r.Notes = append(r.Notes, fmt.Sprintf("%s: complete to depth %d (fixpoint=%v)", s.name, st.DepthDone, st.Fixpoint))
		r.Sample(map[string]interface{}{"search": s.name, "alphabet": len(ops), "depth": st.DepthDone, "states": st.States, "histories": st.Histories})
		if st.Violation != "" {
			in, _ := json.Marshal(st.Hist)
			if c.Violate("C02 "+s.name+" :: "+violClass(st.Violation), core.Replay{Scenario: s.name + ": " + explore.HistString(o, st.Hist), Message: st.Violation, Input: in}) {
				return
			}
		}
	}
}
