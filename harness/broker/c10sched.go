package broker

import (
	"fmt"

	"github.com/mdzio/go-mqtt/verifrt/vsched"
	"verif/engine/explore"
	"verif/harness/core"
	"verif/models/refcodec"
)

// c10sched: "active again as soon as the new connection has answered its
// first request", and the hand-over from a connection that was just cut to its
// successor with the same client identifier, under every schedule of the
// broker's goroutines (within the deviation bound).
func c10sched(c *core.Ctx) {
	dev := 2
	if c.Thorough() {
		dev = 3
	}
	type scen struct {
		name string
		body func()
	}
	// dial+CONNECT, settled
	connectAs := func(t *tdWorld, name, cid string, clean bool) (*RawClient, *refcodec.Packet) {
		rc, err := t.w.Dial(name)
		if err != nil {
			vsched.Failf("harness: dial: %v", err)
			return nil, nil
		}
		rc.Send(ConnectPacket(ConnectOpts{ClientID: cid, Clean: clean, KeepAlive: 65535}))
		t.w.Settle()
		ps := rc.Take()
		if len(ps) != 1 || ps[0].Type != refcodec.CONNACK || ps[0].ReturnCode != 0 {
			vsched.Failf("harness: CONNECT answered by %s", Describe(ps))
			return nil, nil
		}
		return rc, ps[0]
	}
	subscribeAs := func(t *tdWorld, rc *RawClient, id uint16, f string, q byte) {
		rc.Send(&refcodec.Packet{Type: refcodec.SUBSCRIBE, ID: id, Topics: [][]byte{[]byte(f)}, QoSs: []byte{q}})
		t.w.Settle()
		rc.Take()
	}
	count := func(ps []*refcodec.Packet, topic, payload string) (n int, qos byte) {
		for _, p := range ps {
			if p.Type == refcodec.PUBLISH && string(p.Topic) == topic && string(p.Payload) == payload {
				n++
				qos = p.QoS
			}
		}
		return
	}
	var scs []scen
	// (1) the first request of the resumed connection is a PINGREQ pipelined behind the
	// CONNECT; the moment the PINGRESP has arrived a publisher sends probes
	for _, first := range []string{"PINGREQ", "SUBSCRIBE other"} {
		first := first
		scs = append(scs, scen{"resumed session, probe at the answer to the first request (" + first + ")", func() {
			t := newTD()
			p := t.connect("P", 0, 65535, false)
			x1, _ := connectAs(t, "X1", "x", false)
			if x1 == nil {
				return
			}
			subscribeAs(t, x1, 1, "a", 1)
			subscribeAs(t, x1, 2, "b/#", 0)
			x1.Send(&refcodec.Packet{Type: refcodec.DISCONNECT})
			t.w.Settle()
			if vsched.Failed() {
				return
			}
			x2, err := t.w.Dial("X2")
			if err != nil {
				vsched.Failf("harness: dial: %v", err)
				return
			}
			x2.Dead = true // World.Settle must not read this connection: the reactor owns it
			vsched.Mark()
			trigger := func(pk *refcodec.Packet) bool { return pk.Type == refcodec.PINGRESP || pk.Type == refcodec.SUBACK }
			r := startReactor("X2", x2, trigger, func() {
				p.rc.Conn.Write(append(refcodec.Encode(&refcodec.Packet{Type: refcodec.PUBLISH, Topic: []byte("a"), QoS: 1, ID: 77, Payload: []byte("probe-a")}),
					refcodec.Encode(&refcodec.Packet{Type: refcodec.PUBLISH, Topic: []byte("b/c"), Payload: []byte("probe-b")})...))
			})
			req := &refcodec.Packet{Type: refcodec.PINGREQ}
			if first != "PINGREQ" {
				req = &refcodec.Packet{Type: refcodec.SUBSCRIBE, ID: 5, Topics: [][]byte{[]byte("other")}, QoSs: []byte{0}}
			}
			x2.Conn.Write(append(refcodec.Encode(ConnectPacket(ConnectOpts{ClientID: "x", Clean: false, KeepAlive: 65535})), refcodec.Encode(req)...))
			t.settleExcept()
			if len(r.pkts) == 0 || r.pkts[0].Type != refcodec.CONNACK || !r.pkts[0].SessionPresent || r.pkts[0].ReturnCode != 0 {
				vsched.Failf("the persistent session was not resumed: %s", Describe(r.pkts))
				return
			}
			if r.ackAt < 0 {
				vsched.Failf("the first request was not answered: %s", Describe(r.pkts))
				return
			}
			after := r.pkts[r.ackAt:]
			if n, q := count(after, "a", "probe-a"); n != 1 || q != 1 {
				vsched.Failf("filter a (granted QoS 1) of the resumed session: probe published after the first answer was delivered %d times (QoS %d): %s", n, q, Describe(r.pkts))
				return
			}
			if n, q := count(after, "b/c", "probe-b"); n != 1 || q != 0 {
				vsched.Failf("filter b/# (granted QoS 0) of the resumed session: probe published after the first answer was delivered %d times (QoS %d): %s", n, q, Describe(r.pkts))
				return
			}
			if t.badStream() {
				return
			}
			vsched.Logf("ok")
		}})
	}
	// (2) a connection is cut and its successor connects at once
	for _, v := range []struct {
		name               string
		oldClean, newClean bool
	}{{"persistent -> persistent", false, false}, {"persistent -> clean", false, true}, {"clean -> persistent", true, false}, {"clean -> clean", true, true}} {
		v := v
		scs = append(scs, scen{"connection cut, successor with the same id connects at once (" + v.name + ")", func() {
			t := newTD()
			p := t.connect("P", 0, 65535, false)
			x1, _ := connectAs(t, "X1", "x", v.oldClean)
			if x1 == nil {
				return
			}
			subscribeAs(t, x1, 1, "a", 1)
			if vsched.Failed() {
				return
			}
			x2, err := t.w.Dial("X2")
			if err != nil {
				vsched.Failf("harness: dial: %v", err)
				return
			}
			vsched.Mark()
			x1.Cut()
			x2.Conn.Write(append(refcodec.Encode(ConnectPacket(ConnectOpts{ClientID: "x", Clean: v.newClean, KeepAlive: 65535})), refcodec.Encode(&refcodec.Packet{Type: refcodec.PINGREQ})...))
			t.w.Settle()
			got := x2.Take()
			if len(got) < 2 || got[0].Type != refcodec.CONNACK || got[0].ReturnCode != 0 || !hasType(got, refcodec.PINGRESP) {
				vsched.Failf("CONNECT + PINGREQ of the successor answered by %s", Describe(got))
				return
			}
			wantSP := !v.oldClean && !v.newClean
			if got[0].SessionPresent != wantSP {
				vsched.Failf("successor (CleanSession=%v) of a CleanSession=%v connection that was cut just before: SessionPresent=%v", v.newClean, v.oldClean, got[0].SessionPresent)
				return
			}
			// quiet now: a probe is delivered exactly when the old subscription must be active
			p.rc.Send(&refcodec.Packet{Type: refcodec.PUBLISH, Topic: []byte("a"), QoS: 1, ID: 78, Payload: []byte("probe")})
			t.w.Settle()
			n, _ := count(x2.Take(), "a", "probe")
			want := 0
			if wantSP {
				want = 1
			}
			if n != want {
				vsched.Failf("after the hand-over (%s) a probe on the old filter was delivered %d times, expected %d", v.name, n, want)
				return
			}
			// the successor ends; what a later persistent CONNECT finds
			x2.Send(&refcodec.Packet{Type: refcodec.DISCONNECT})
			t.w.Settle()
			x3, ack := connectAs(t, "X3", "x", false)
			if x3 == nil {
				return
			}
			if ack.SessionPresent != !v.newClean {
				vsched.Failf("%s: a later persistent CONNECT got SessionPresent=%v", v.name, ack.SessionPresent)
				return
			}
			p.rc.Send(&refcodec.Packet{Type: refcodec.PUBLISH, Topic: []byte("a"), QoS: 1, ID: 79, Payload: []byte("probe3")})
			t.w.Settle()
			n, _ = count(x3.Take(), "a", "probe3")
			if n != want {
				vsched.Failf("%s: third connection received the probe on the old filter %d times, expected %d", v.name, n, want)
				return
			}
			if t.badStream() {
				return
			}
			vsched.Logf("ok")
		}})
	}
	// (3) a connection attempt that never gets established: the client sends its CONNECT
	// and is gone before the CONNACK can be written.  Whatever was stored for that
	// client identifier is untouched by it (CleanSession=0), and a clean attempt of
	// that kind leaves nothing behind
	for _, v := range []struct {
		name     string
		stored   bool // a persistent session with a subscription exists
		newClean bool
	}{{"stored session, persistent attempt", true, false}, {"no stored session, persistent attempt", false, false}, {"no stored session, clean attempt", false, true}} {
		v := v
		scs = append(scs, scen{"CONNECT whose sender is gone before the CONNACK (" + v.name + ")", func() {
			t := newTD()
			p := t.connect("P", 0, 65535, false)
			if v.stored {
				x1, _ := connectAs(t, "X1", "x", false)
				if x1 == nil {
					return
				}
				subscribeAs(t, x1, 1, "a", 1)
				x1.Send(&refcodec.Packet{Type: refcodec.DISCONNECT})
				t.w.Settle()
			}
			x2, err := t.w.Dial("X2")
			if err != nil || vsched.Failed() {
				return
			}
			vsched.Mark()
			x2.Conn.Write(refcodec.Encode(ConnectPacket(ConnectOpts{ClientID: "x", Clean: v.newClean, KeepAlive: 65535})))
			x2.Cut()
			t.w.Settle()
			x3, ack := connectAs(t, "X3", "x", false)
			if x3 == nil {
				return
			}
			// the attempt may or may not count as a connection (it does when the CONNACK was
			// written before the broker noticed the end); a persistent one keeps or creates state,
			// it never destroys any
			if v.stored && !ack.SessionPresent {
				vsched.Failf("a persistent session with a subscription was stored; after a connection attempt that ended before its CONNACK the next CleanSession=0 CONNECT got SessionPresent=0")
				return
			}
			if v.newClean && ack.SessionPresent {
				vsched.Failf("a CleanSession=1 connection attempt that ended before its CONNACK left a session behind (SessionPresent=1 afterwards)")
				return
			}
			p.rc.Send(&refcodec.Packet{Type: refcodec.PUBLISH, Topic: []byte("a"), QoS: 1, ID: 78, Payload: []byte("probe")})
			t.w.Settle()
			n, _ := count(x3.Take(), "a", "probe")
			want := 0
			if v.stored {
				want = 1
			}
			if n != want {
				vsched.Failf("%s: the next connection received a probe on the stored filter %d times, expected %d", v.name, n, want)
				return
			}
			if t.badStream() {
				return
			}
			vsched.Logf("ok")
		}})
	}
	// (4) the broker does not close an older connection with the same client identifier, so a
	// second CleanSession=0 connection may be accepted while the first is still there (a client
	// that moved to another network; the old socket lingers).  The subscriptions acknowledged
	// on either connection belong to the one session: whichever connection ends first, by a
	// cut or by DISCONNECT, the next CleanSession=0 connection has all of them active again
	for _, v := range []struct {
		name       string
		olderFirst bool
		disc       bool
	}{{"the older one is cut first", true, false}, {"the newer one is cut first", false, false}, {"the older one sends DISCONNECT first", true, true}, {"the newer one sends DISCONNECT first", false, true}} {
		v := v
		scs = append(scs, scen{"two connections share a persistent session, each subscribes; " + v.name, func() {
			t := newTD()
			p := t.connect("P", 0, 65535, false)
			x1, _ := connectAs(t, "X1", "x", false)
			if x1 == nil {
				return
			}
			subscribeAs(t, x1, 1, "a", 1)
			x2, ack2 := connectAs(t, "X2", "x", false)
			if x2 == nil {
				return
			}
			if !ack2.SessionPresent {
				vsched.Failf("second CleanSession=0 connection of a client identifier whose session exists: SessionPresent=0")
				return
			}
			subscribeAs(t, x2, 2, "b", 1)
			subscribeAs(t, x1, 3, "c", 0)
			if vsched.Failed() {
				return
			}
			vsched.Mark()
			end := func(rc *RawClient) {
				if v.disc {
					rc.Send(&refcodec.Packet{Type: refcodec.DISCONNECT})
				}
				rc.Cut()
				t.w.Settle()
			}
			if v.olderFirst {
				end(x1)
				end(x2)
			} else {
				end(x2)
				end(x1)
			}
			x3, ack := connectAs(t, "X3", "x", false)
			if x3 == nil {
				return
			}
			if !ack.SessionPresent {
				vsched.Failf("%s: the next CleanSession=0 CONNECT got SessionPresent=0", v.name)
				return
			}
			for i, f := range []string{"a", "b", "c"} {
				pl := "probe-" + f
				p.rc.Send(&refcodec.Packet{Type: refcodec.PUBLISH, Topic: []byte(f), QoS: 1, ID: uint16(90 + i), Payload: []byte(pl)})
				t.w.Settle()
				if n, _ := count(x3.Take(), f, pl); n != 1 {
					vsched.Failf("%s: filter %q was acknowledged on one of the two connections of the session; the resuming connection received a probe on it %d times", v.name, f, n)
					return
				}
			}
			if t.badStream() {
				return
			}
			vsched.Logf("ok")
		}})
	}
	// (5) as (4), and the older connection unsubscribes the filter the newer one subscribed
	// (UNSUBACK received): the filter is out of the session, whichever connection's entry in
	// the subscription tree it was; the next CleanSession=0 connection does not have it
	for _, olderFirst := range []bool{true, false} {
		olderFirst := olderFirst
		nm := "the newer one is cut first"
		if olderFirst {
			nm = "the older one is cut first"
		}
		scs = append(scs, scen{"two connections share a persistent session; the older one unsubscribes the newer one's filter; " + nm, func() {
			t := newTD()
			p := t.connect("P", 0, 65535, false)
			x1, _ := connectAs(t, "X1", "x", false)
			if x1 == nil {
				return
			}
			subscribeAs(t, x1, 1, "a", 1)
			x2, _ := connectAs(t, "X2", "x", false)
			if x2 == nil {
				return
			}
			subscribeAs(t, x2, 2, "b", 1)
			x1.Send(&refcodec.Packet{Type: refcodec.UNSUBSCRIBE, ID: 3, Topics: [][]byte{[]byte("b")}})
			t.w.Settle()
			if ps := x1.Take(); len(ps) != 1 || ps[0].Type != refcodec.UNSUBACK || ps[0].ID != 3 {
				vsched.Failf("UNSUBSCRIBE(b) on the older connection answered by %s", Describe(ps))
				return
			}
			if vsched.Failed() {
				return
			}
			vsched.Mark()
			if olderFirst {
				x1.Cut()
				t.w.Settle()
				x2.Cut()
			} else {
				x2.Cut()
				t.w.Settle()
				x1.Cut()
			}
			t.w.Settle()
			x3, ack := connectAs(t, "X3", "x", false)
			if x3 == nil {
				return
			}
			if !ack.SessionPresent {
				vsched.Failf("%s: the next CleanSession=0 CONNECT got SessionPresent=0", nm)
				return
			}
			for i, f := range []string{"a", "b"} {
				pl := "probe-" + f
				p.rc.Send(&refcodec.Packet{Type: refcodec.PUBLISH, Topic: []byte(f), QoS: 1, ID: uint16(95 + i), Payload: []byte(pl)})
				t.w.Settle()
				n, _ := count(x3.Take(), f, pl)
				want := 1
				if f == "b" {
					want = 0
				}
				if n != want {
					vsched.Failf("%s: filter %q (b was unsubscribed with an UNSUBACK, a was not): the resuming connection received a probe on it %d times, expected %d", nm, f, n, want)
					return
				}
			}
			if t.badStream() {
				return
			}
			vsched.Logf("ok")
		}})
	}
	for _, sc := range scs {
		if c.Expired() || c.HasViolation() {
			return
		}
		sc := sc
		st := c.RunSched(explore.SchedOpts{Name: sc.name, Bound: -1, DevBound: dev, Cache: true, UseMark: true, Body: sc.body, MaxPoints: 100000, Check: schedCheck, Shard: c.Shard, NShards: c.NShards},
			func(v *explore.Violation) string { return "C10 " + sc.name + " :: " + violClass(v.Message) })
		if st != nil && c.Shard == 0 {
			c.Rep.Sample(map[string]interface{}{"scenario": sc.name, "deviations": dev, "executions": st.Executions, "states": st.States})
		}
	}
	_ = fmt.Sprint
}
