// Package core is the glue between the per-property harnesses, the worker
// process and the coordinator (cmd/vcheck).
package core

import (
	"encoding/json"
	"fmt"
	"os"
	"sort"
	"strings"
	"time"

	"github.com/mdzio/go-mqtt/verifrt/vsched"
	"verif/engine/explore"
	"verif/rep"
)

// Plain data types live in package rep.
type (
	Replay    = rep.Replay
	Violation = rep.Violation
	Report    = rep.Report
	Heavy     = rep.Heavy
)

// NewReport returns an empty report.
func NewReport(prop string) *Report { return rep.NewReport(prop) }

func parked(ps []vsched.Parked) []rep.Parked {
	var out []rep.Parked
	for _, p := range ps {
		out = append(out, rep.Parked{ID: p.ID, Name: p.Name, Lib: p.Lib, Kind: p.Kind.String(), Obj: p.Obj, Note: p.Note})
	}
	return out
}

// Ctx is what a property harness gets.
type Ctx struct {
	Prop     string
	Tier     string // quick | thorough
	Shard    int
	NShards  int
	Seed     int64
	Deadline time.Time
	Known    map[string]bool // fingerprints listed as finding: in known_findings.txt
	Replay   *Replay         // non-nil: replay instead of search
	Race     bool
	Rep      *Report
	scen     int
}

// Thorough reports the tier.
func (c *Ctx) Thorough() bool { return c.Tier == "thorough" }

// Mine implements round-robin scenario sharding: call once per scenario.
func (c *Ctx) Mine() bool {
	i := c.scen
	c.scen++
	if c.NShards <= 1 {
		return true
	}
	return i%c.NShards == c.Shard
}

// Expired reports whether the internal time cap was reached (the run then ends
// with exhaustive:false and exit 0).
func (c *Ctx) Expired() bool {
	if c.Deadline.IsZero() || time.Now().Before(c.Deadline) {
		return false
	}
	c.Rep.Exhaustive = false
	c.Rep.AddCap("time cap")
	return true
}

// Violate records a violation unless its key is a known finding; it returns
// true when the search should stop (a new violation).
func (c *Ctx) Violate(key string, rp Replay) bool {
	rp.Property = c.Prop
	rp.Key = key
	if c.Known[key] {
		c.Rep.KnownHits[key]++
		return false
	}
	for _, v := range c.Rep.Violations {
		if v.Key == key {
			return true
		}
	}
	c.Rep.Violations = append(c.Rep.Violations, Violation{Key: key, Replay: rp})
	return true
}

// HasViolation reports whether a new violation was recorded.
func (c *Ctx) HasViolation() bool { return len(c.Rep.Violations) > 0 }

// RunSched runs one schedule search and folds its statistics into the report.
// keyOf maps a violation to its known-findings fingerprint.  The determinism
// self-check (same choice sequence twice, identical observations) is run on
// the first execution of every scenario and on every violation.
func (c *Ctx) RunSched(o explore.SchedOpts, keyOf func(v *explore.Violation) string) *explore.SchedStats {
	if c.Replay != nil {
		if c.Replay.Scenario == o.Name {
			for i := 0; i < 2; i++ {
				rr := explore.Replay(o.Body, c.Replay.Choices)
				vd := o.Check(rr)
				if i == 0 {
					for _, l := range rr.Trace {
						fmt.Println(l)
					}
					for _, l := range rr.Log {
						fmt.Println("LOG:", l)
					}
					fmt.Println("PARKED:", ParkedString(rr.Parked))
					if rr.Crash != "" {
						fmt.Println("CRASH:", rr.Crash)
					}
				}
				fmt.Printf("replay %d: status=%s outcome=%q violation=%q\n", i+1, rr.Status, vd.Outcome, vd.Violation)
			}
			c.Rep.Scenarios++
		}
		return nil
	}
	if only := os.Getenv("VERIF_ONLY"); only != "" && !strings.Contains(o.Name, only) {
		return nil // debugging aid: run the scenarios whose name contains VERIF_ONLY
	}
	o.Deadline = c.Deadline
	st := explore.Sched(o)
	r := c.Rep
	r.Scenarios++
	r.Executions += int64(st.Executions)
	r.Pruned += int64(st.Pruned)
	r.States += int64(st.States)
	r.Transitions += int64(st.Transitions)
	if st.MaxDepth > r.MaxDepth {
		r.MaxDepth = st.MaxDepth
	}
	r.Heaviest = append(r.Heaviest, Heavy{o.Name, st.Executions, st.States, st.MaxDepth})
	sort.Slice(r.Heaviest, func(i, j int) bool { return r.Heaviest[i].Executions > r.Heaviest[j].Executions })
	if len(r.Heaviest) > 5 {
		r.Heaviest = r.Heaviest[:5]
	}
	if !st.Exhaustive {
		r.Exhaustive = false
		r.AddCap(st.CapHit)
	}
	if st.Fallback {
		r.BoundedScenarios++
	} else if st.Exhaustive {
		r.FullScenarios++
	}
	for k, v := range st.Outcomes {
		r.Outcomes[k] += v
	}
	if st.SampleTrace != nil && r.DetChecks < 3 {
		// determinism self-check on a recorded schedule
		a := explore.Replay(o.Body, st.SampleTrace)
		b := explore.Replay(o.Body, st.SampleTrace)
		if d := explore.SameObservations(a, b); d != "" {
			r.EngineErrors = append(r.EngineErrors, fmt.Sprintf("scenario %s: nondeterministic replay: %s", o.Name, d))
		}
		r.DetChecks++
	}
	if st.Violation != nil {
		v := st.Violation
		// re-execute five times before believing it
		for i := 0; i < 5; i++ {
			rr := explore.Replay(o.Body, v.Choices)
			vd := o.Check(rr)
			if rr.Status == vsched.StHorizon && strings.HasPrefix(v.Message, "no quiescence") {
				vd.Violation = v.Message // a livelock reproduces as a livelock
				rr.Trace = tail(rr.Trace, 400)
			}
			if vd.Violation == "" {
				r.EngineErrors = append(r.EngineErrors, fmt.Sprintf("scenario %s: violation %q did not reproduce on replay %d", o.Name, v.Message, i))
				return &st
			}
			if i == 0 {
				v.Trace = rr.Trace
			}
		}
		key := keyOf(v)
		c.Violate(key, Replay{Scenario: v.Scenario, Message: v.Message, Choices: v.Choices, Log: v.Log, Parked: parked(v.Parked), Crash: v.Crash, Trace: tail(v.Trace, 400)})
	}
	return &st
}

func tail(s []string, n int) []string {
	if len(s) <= n {
		return s
	}
	return s[len(s)-n:]
}

// RunSchedRace is RunSched for the race oracle: a race report is produced by
// the first execution that exhibits the two accesses and never again, so the
// violation is not re-executed; the report text goes into the replay file.
func (c *Ctx) RunSchedRace(o explore.SchedOpts, keyOf func(v *explore.Violation) (string, string)) *explore.SchedStats {
	if c.Replay != nil {
		return c.RunSched(o, func(v *explore.Violation) string { k, _ := keyOf(v); return k })
	}
	o.Deadline = c.Deadline
	st := explore.Sched(o)
	r := c.Rep
	r.Scenarios++
	r.Executions += int64(st.Executions)
	r.Pruned += int64(st.Pruned)
	r.States += int64(st.States)
	r.Transitions += int64(st.Transitions)
	if st.MaxDepth > r.MaxDepth {
		r.MaxDepth = st.MaxDepth
	}
	if !st.Exhaustive {
		r.Exhaustive = false
		r.AddCap(st.CapHit)
	}
	for k, v := range st.Outcomes {
		r.Outcomes[k] += v
	}
	if st.Violation != nil {
		v := st.Violation
		key, report := keyOf(v)
		c.Violate(key, Replay{Scenario: v.Scenario, Message: v.Message, Choices: v.Choices, Log: strings.Split(report, "\n"), Parked: parked(v.Parked)})
	}
	return &st
}

// WriteReport stores the worker's report.
func WriteReport(path string, r *Report) error {
	b, err := json.Marshal(r)
	if err != nil {
		return err
	}
	return os.WriteFile(path, b, 0o644)
}

// ParkedString renders parked threads compactly.
func ParkedString(ps []vsched.Parked) string {
	var out []string
	for _, p := range ps {
		out = append(out, fmt.Sprintf("T%s(%s) at %s %s", p.ID, p.Name, p.Kind, p.Obj))
	}
	sort.Strings(out)
	return strings.Join(out, "; ")
}

// Property harness registry.
type Harness func(c *Ctx)

var registry = map[string]Harness{}
var replayers = map[string]Harness{}

// Register adds a harness for a property.
func Register(prop string, h Harness) { registry[prop] = h }

// Extras: parts of a check that live in another harness package (registered in that package's
// init, run by the check's own entry point through RunExtras).
var extras = map[string][]Harness{}

func RegisterExtra(prop string, h Harness) { extras[prop] = append(extras[prop], h) }
func RunExtras(prop string, c *Ctx) {
	for _, h := range extras[prop] {
		if c.HasViolation() || c.Expired() {
			return
		}
		h(c)
	}
}

// Lookup finds it.
func Lookup(prop string) Harness { return registry[prop] }
