// Package instr rewrites the repository's non-test sources so that every
// source of nondeterminism goes through the verifrt runtime, and produces a
// `go build -overlay` description.  /repo itself is never modified.
//
// Rewrites (DESIGN §2.1):
//
//	import "sync"            -> import sync ".../verifrt/vsync"
//	import "sync/atomic"     -> import atomic ".../verifrt/vatomic"
//	go f(a, b)               -> { f0, a0, a1 := f, a, b; vsched.GoLib(pos, func(){ f0(a0, a1) }) }
//	close(ch)                -> vsched.ChanClose(ch)
//	ch <- v, <-ch, x := <-ch -> vsched.ChanSend / ChanRecv / ChanRecv2 (modelled: a blocked goroutine parks in the scheduler)
//	select { case <-ch: … }  -> vsched.ChanPoint(ch, false) before the statement
//	net.Listen / net.Dial    -> vnet.Listen / vnet.Dial
//	time.Now / time.Sleep    -> vsched.Now / vsched.Sleep
//	for k, v := range x.f    -> sorted-key iteration when f is a map[string]… struct field
package instr

import (
	"bytes"
	"encoding/json"
	"fmt"
	"go/ast"
	"go/format"
	"go/parser"
	"go/printer"
	"go/token"
	"os"
	"path/filepath"
	"sort"
	"strconv"
	"strings"
)

const rtPath = "github.com/mdzio/go-mqtt/verifrt/"

// Packages of the repository that are rewritten.
var Packages = []string{"message", "sessions", "topics", "service", "auth"}

// Skip lists files compiled unchanged (outside all properties).
// Skip lists files that are not instrumented.  (service/websocket.go was
// skipped until session 3; its gorilla/websocket import is now replaced by the
// vws shim, which brings the bridge under the scheduler.)
var Skip = map[string]bool{}

// Options of Build.
type Options struct {
	Repo    string // /repo
	Verif   string // /verif
	WorkDir string // where rewritten copies and overlay.json go
	// ExtraInject maps repo-relative virtual paths to files of /verif that are
	// added to repository packages (build-tagged `verif`).
	ExtraInject map[string]string
}

// Stats reports what was rewritten.
type Stats struct {
	Files      int
	GoStmts    int
	ChanPoints int
	NetCalls   int
	TimeCalls  int
	MapRanges  int
	Imports    int
}

// Build writes the rewritten sources and overlay.json; returns the overlay path.
func Build(o Options) (string, Stats, error) {
	var st Stats
	replace := map[string]string{}
	if err := os.MkdirAll(o.WorkDir, 0o755); err != nil {
		return "", st, err
	}
	for _, pkg := range Packages {
		dir := filepath.Join(o.Repo, pkg)
		ents, err := os.ReadDir(dir)
		if err != nil {
			return "", st, err
		}
		// first pass: map-typed struct fields with string keys in this package
		mapFields := map[string]bool{}
		var files []string
		for _, e := range ents {
			n := e.Name()
			if e.IsDir() || !strings.HasSuffix(n, ".go") || strings.HasSuffix(n, "_test.go") {
				continue
			}
			files = append(files, n)
		}
		sort.Strings(files)
		fset := token.NewFileSet()
		parsed := map[string]*ast.File{}
		for _, n := range files {
			f, err := parser.ParseFile(fset, filepath.Join(dir, n), nil, parser.ParseComments)
			if err != nil {
				return "", st, fmt.Errorf("instr: %v", err)
			}
			parsed[n] = f
			ast.Inspect(f, func(nd ast.Node) bool {
				if stt, ok := nd.(*ast.StructType); ok {
					for _, fld := range stt.Fields.List {
						if mt, ok := fld.Type.(*ast.MapType); ok {
							if id, ok := mt.Key.(*ast.Ident); ok && id.Name == "string" {
								for _, nm := range fld.Names {
									mapFields[nm.Name] = true
								}
							}
						}
					}
				}
				return true
			})
		}
		for _, n := range files {
			rel := pkg + "/" + n
			if Skip[rel] {
				continue
			}
			f := parsed[n]
			r := &rewriter{fset: fset, file: f, rel: rel, mapFields: mapFields, st: &st}
			r.rewrite()
			// SourcePos: //line directives keep file names and line numbers of the
			// original sources in stack traces, race reports and scheduler traces
			var buf bytes.Buffer
			pc := printer.Config{Mode: printer.SourcePos | printer.UseSpaces | printer.TabIndent, Tabwidth: 8}
			if err := pc.Fprint(&buf, fset, f); err != nil {
				return "", st, fmt.Errorf("instr: printing %s: %v", rel, err)
			}
			out := filepath.Join(o.WorkDir, "src", pkg, n)
			if err := os.MkdirAll(filepath.Dir(out), 0o755); err != nil {
				return "", st, err
			}
			data := buf.Bytes()
			if r.generic && !bytes.Contains(data, []byte("//go:build")) {
				// the modelled channel operations are generic functions; the
				// repository's go.mod says go 1.15, so the file gets its own
				// language version (the //line directives keep positions right)
				data = append([]byte("//go:build go1.18\n\n"), data...)
			}
			if err := os.WriteFile(out, data, 0o644); err != nil {
				return "", st, err
			}
			replace[filepath.Join(dir, n)] = out
			st.Files++
		}
	}
	// the runtime as virtual packages inside the repository's module
	rtDir := filepath.Join(o.Verif, "engine", "verifrt")
	err := filepath.Walk(rtDir, func(p string, info os.FileInfo, err error) error {
		if err != nil {
			return err
		}
		if info.IsDir() || !strings.HasSuffix(p, ".go") {
			return nil
		}
		rel, _ := filepath.Rel(rtDir, p)
		replace[filepath.Join(o.Repo, "verifrt", rel)] = p
		return nil
	})
	if err != nil {
		return "", st, err
	}
	for virt, real := range o.ExtraInject {
		replace[filepath.Join(o.Repo, virt)] = real
	}
	ov := struct{ Replace map[string]string }{replace}
	data, _ := json.MarshalIndent(ov, "", " ")
	ovPath := filepath.Join(o.WorkDir, "overlay.json")
	if err := os.WriteFile(ovPath, data, 0o644); err != nil {
		return "", st, err
	}
	return ovPath, st, nil
}

type rewriter struct {
	fset      *token.FileSet
	file      *ast.File
	rel       string
	mapFields map[string]bool
	st        *Stats
	needSched bool
	generic   bool // calls to generic shim functions were inserted
	needNet   bool
	tmp       int
}

func (r *rewriter) rewrite() {
	// imports
	for _, imp := range r.file.Imports {
		p, _ := strconv.Unquote(imp.Path.Value)
		switch p {
		case "sync":
			if imp.Name == nil {
				imp.Name = ast.NewIdent("sync")
			}
			imp.Path.Value = strconv.Quote(rtPath + "vsync")
			r.st.Imports++
		case "sync/atomic":
			if imp.Name == nil {
				imp.Name = ast.NewIdent("atomic")
			}
			imp.Path.Value = strconv.Quote(rtPath + "vatomic")
			r.st.Imports++
		case "github.com/gorilla/websocket":
			if imp.Name == nil {
				imp.Name = ast.NewIdent("websocket")
			}
			imp.Path.Value = strconv.Quote(rtPath + "vws")
			r.st.Imports++
		}
	}
	for _, d := range r.file.Decls {
		if fd, ok := d.(*ast.FuncDecl); ok && fd.Body != nil {
			r.block(fd.Body)
		}
	}
	// function literals at package level (var x = func…) are not present today;
	// handle expression-level rewrites everywhere
	ast.Inspect(r.file, func(n ast.Node) bool {
		if call, ok := n.(*ast.CallExpr); ok {
			if sel, ok := call.Fun.(*ast.SelectorExpr); ok {
				if id, ok := sel.X.(*ast.Ident); ok && id.Obj == nil {
					switch {
					case id.Name == "net" && (sel.Sel.Name == "Listen" || sel.Sel.Name == "Dial"):
						id.Name = "vnet"
						r.needNet = true
						r.st.NetCalls++
					case id.Name == "time" && (sel.Sel.Name == "Now" || sel.Sel.Name == "Sleep"):
						id.Name = "vsched"
						r.needSched = true
						r.st.TimeCalls++
					}
				}
			}
		}
		return true
	})
	if r.needSched {
		r.addImport("vsched", rtPath+"vsched")
	}
	if r.needNet {
		r.addImport("vnet", rtPath+"vnet")
	}
	// imports that became unused ("net" is still used for types everywhere it
	// is imported today; "time" likewise) are kept alive with blank uses
	r.keepAlive()
}

func (r *rewriter) addImport(name, path string) {
	spec := &ast.ImportSpec{Name: ast.NewIdent(name), Path: &ast.BasicLit{Kind: token.STRING, Value: strconv.Quote(path)}}
	for _, d := range r.file.Decls {
		if gd, ok := d.(*ast.GenDecl); ok && gd.Tok == token.IMPORT {
			gd.Specs = append(gd.Specs, spec)
			if !gd.Lparen.IsValid() {
				gd.Lparen = gd.Pos()
				gd.Rparen = gd.End()
			}
			r.file.Imports = append(r.file.Imports, spec)
			return
		}
	}
	gd := &ast.GenDecl{Tok: token.IMPORT, Specs: []ast.Spec{spec}}
	r.file.Decls = append([]ast.Decl{gd}, r.file.Decls...)
	r.file.Imports = append(r.file.Imports, spec)
}

func (r *rewriter) keepAlive() {
	used := map[string]bool{}
	ast.Inspect(r.file, func(n ast.Node) bool {
		if sel, ok := n.(*ast.SelectorExpr); ok {
			if id, ok := sel.X.(*ast.Ident); ok && id.Obj == nil {
				used[id.Name] = true
			}
		}
		return true
	})
	for _, imp := range r.file.Imports {
		p, _ := strconv.Unquote(imp.Path.Value)
		name := filepath.Base(p)
		if imp.Name != nil {
			name = imp.Name.Name
		}
		if name == "_" || name == "." {
			continue
		}
		if !used[name] && (p == "net" || p == "time") {
			imp.Name = ast.NewIdent("_")
		}
	}
}

func (r *rewriter) pos(n ast.Node) string {
	p := r.fset.Position(n.Pos())
	return fmt.Sprintf("%s:%d", r.rel, p.Line)
}

func (r *rewriter) block(b *ast.BlockStmt) {
	if b == nil {
		return
	}
	b.List = r.stmts(b.List)
}

func (r *rewriter) stmts(list []ast.Stmt) []ast.Stmt {
	var out []ast.Stmt
	for _, s := range list {
		out = append(out, r.stmt(s)...)
	}
	return out
}

func call(pkg, fn string, args ...ast.Expr) *ast.CallExpr {
	return &ast.CallExpr{Fun: &ast.SelectorExpr{X: ast.NewIdent(pkg), Sel: ast.NewIdent(fn)}, Args: args}
}

func strLit(s string) ast.Expr { return &ast.BasicLit{Kind: token.STRING, Value: strconv.Quote(s)} }

// stmt rewrites one statement and returns its replacement(s).
func (r *rewriter) stmt(s ast.Stmt) []ast.Stmt {
	switch s := s.(type) {
	case *ast.BlockStmt:
		r.block(s)
	case *ast.IfStmt:
		r.block(s.Body)
		if s.Else != nil {
			repl := r.stmt(s.Else)
			if len(repl) == 1 {
				s.Else = repl[0]
			}
		}
		r.funcLitsIn(s.Init)
		r.funcLitsInExpr(s.Cond)
	case *ast.ForStmt:
		r.block(s.Body)
	case *ast.RangeStmt:
		r.block(s.Body)
		if repl := r.mapRange(s); repl != nil {
			return repl
		}
	case *ast.SwitchStmt:
		r.block(s.Body)
	case *ast.TypeSwitchStmt:
		r.block(s.Body)
	case *ast.CaseClause:
		s.Body = r.stmts(s.Body)
	case *ast.CommClause:
		s.Body = r.stmts(s.Body)
	case *ast.LabeledStmt:
		repl := r.stmt(s.Stmt)
		if len(repl) == 1 {
			s.Stmt = repl[0]
		} else {
			s.Stmt = &ast.BlockStmt{List: repl}
		}
	case *ast.SelectStmt:
		r.block(s.Body)
		var pre []ast.Stmt
		for _, c := range s.Body.List {
			cc := c.(*ast.CommClause)
			if cc.Comm == nil {
				continue
			}
			if ch := commChan(cc.Comm); ch != nil {
				pre = append(pre, &ast.ExprStmt{X: call("vsched", "ChanPoint", ch, ast.NewIdent("false"))})
				r.needSched = true
				r.st.ChanPoints++
			}
		}
		return append(pre, s)
	case *ast.GoStmt:
		r.funcLitsInExpr(s.Call)
		return r.goStmt(s)
	case *ast.ExprStmt:
		r.funcLitsInExpr(s.X)
		if c, ok := s.X.(*ast.CallExpr); ok {
			if id, ok := c.Fun.(*ast.Ident); ok && id.Name == "close" && len(c.Args) == 1 {
				r.needSched = true
				r.st.ChanPoints++
				r.generic = true
				return []ast.Stmt{&ast.ExprStmt{X: call("vsched", "ChanClose", c.Args[0])}}
			}
		}
		if u, ok := s.X.(*ast.UnaryExpr); ok && u.Op == token.ARROW {
			r.needSched = true
			r.st.ChanPoints++
			r.generic = true
			return []ast.Stmt{&ast.ExprStmt{X: call("vsched", "ChanRecv", u.X)}}
		}
	case *ast.SendStmt:
		r.needSched = true
		r.st.ChanPoints++
		r.funcLitsInExpr(s.Value)
		r.generic = true
		return []ast.Stmt{&ast.ExprStmt{X: call("vsched", "ChanSend", s.Chan, s.Value)}}
	case *ast.AssignStmt:
		for _, e := range s.Rhs {
			r.funcLitsInExpr(e)
		}
		if len(s.Rhs) == 1 {
			if u, ok := s.Rhs[0].(*ast.UnaryExpr); ok && u.Op == token.ARROW {
				r.needSched = true
				r.st.ChanPoints++
				fn := "ChanRecv"
				if len(s.Lhs) == 2 {
					fn = "ChanRecv2"
				}
				r.generic = true
				s.Rhs[0] = call("vsched", fn, u.X)
			}
		}
	case *ast.DeclStmt:
		ast.Inspect(s, func(n ast.Node) bool {
			if fl, ok := n.(*ast.FuncLit); ok {
				r.block(fl.Body)
				return false
			}
			return true
		})
	case *ast.DeferStmt:
		r.funcLitsInExpr(s.Call)
	case *ast.ReturnStmt:
		for _, e := range s.Results {
			r.funcLitsInExpr(e)
		}
	}
	return []ast.Stmt{s}
}

func (r *rewriter) funcLitsIn(s ast.Stmt) {
	if s == nil {
		return
	}
	ast.Inspect(s, func(n ast.Node) bool {
		if fl, ok := n.(*ast.FuncLit); ok {
			r.block(fl.Body)
			return false
		}
		return true
	})
}

func (r *rewriter) funcLitsInExpr(e ast.Expr) {
	if e == nil {
		return
	}
	ast.Inspect(e, func(n ast.Node) bool {
		if fl, ok := n.(*ast.FuncLit); ok {
			r.block(fl.Body)
			return false
		}
		return true
	})
}

func commChan(s ast.Stmt) ast.Expr {
	switch s := s.(type) {
	case *ast.ExprStmt:
		if u, ok := s.X.(*ast.UnaryExpr); ok && u.Op == token.ARROW {
			return u.X
		}
	case *ast.AssignStmt:
		if len(s.Rhs) == 1 {
			if u, ok := s.Rhs[0].(*ast.UnaryExpr); ok && u.Op == token.ARROW {
				return u.X
			}
		}
	case *ast.SendStmt:
		return s.Chan
	}
	return nil
}

func (r *rewriter) goStmt(s *ast.GoStmt) []ast.Stmt {
	r.needSched = true
	r.st.GoStmts++
	c := s.Call
	label := r.pos(s) + " go " + exprString(r.fset, c.Fun)
	if fl, ok := c.Fun.(*ast.FuncLit); ok && len(c.Args) == 0 {
		return []ast.Stmt{&ast.ExprStmt{X: call("vsched", "GoLib", strLit(label), fl)}}
	}
	// evaluate the function value and the arguments now, run them later
	r.tmp++
	var lhs []ast.Expr
	var rhs []ast.Expr
	fn := ast.NewIdent(fmt.Sprintf("vgo%d_f", r.tmp))
	lhs = append(lhs, fn)
	rhs = append(rhs, c.Fun)
	var args []ast.Expr
	for i, a := range c.Args {
		id := ast.NewIdent(fmt.Sprintf("vgo%d_a%d", r.tmp, i))
		lhs = append(lhs, id)
		rhs = append(rhs, a)
		args = append(args, id)
	}
	inner := &ast.CallExpr{Fun: fn, Args: args, Ellipsis: c.Ellipsis}
	lit := &ast.FuncLit{Type: &ast.FuncType{Params: &ast.FieldList{}}, Body: &ast.BlockStmt{List: []ast.Stmt{&ast.ExprStmt{X: inner}}}}
	return []ast.Stmt{&ast.BlockStmt{List: []ast.Stmt{
		&ast.AssignStmt{Lhs: lhs, Tok: token.DEFINE, Rhs: rhs},
		&ast.ExprStmt{X: call("vsched", "GoLib", strLit(label), lit)},
	}}}
}

func exprString(fset *token.FileSet, e ast.Expr) string {
	var b bytes.Buffer
	format.Node(&b, fset, e)
	s := b.String()
	if len(s) > 40 {
		s = s[:40]
	}
	return strings.ReplaceAll(s, "\n", " ")
}

// mapRange rewrites `for k, v := range x.f {…}` over a map[string]… struct
// field into iteration over the sorted keys.
func (r *rewriter) mapRange(s *ast.RangeStmt) []ast.Stmt {
	sel, ok := s.X.(*ast.SelectorExpr)
	if !ok || !r.mapFields[sel.Sel.Name] {
		return nil
	}
	if s.Tok != token.DEFINE && s.Key != nil {
		return nil
	}
	r.needSched = true
	r.st.MapRanges++
	r.tmp++
	kname := fmt.Sprintf("vmk%d", r.tmp)
	var key ast.Expr = ast.NewIdent(kname)
	if id, ok := s.Key.(*ast.Ident); ok && id.Name != "_" {
		key = ast.NewIdent(id.Name)
		kname = id.Name
	}
	var pre []ast.Stmt
	okName := fmt.Sprintf("vmok%d", r.tmp)
	var val ast.Expr = ast.NewIdent("_")
	if id, ok := s.Value.(*ast.Ident); ok && id.Name != "_" {
		val = ast.NewIdent(id.Name)
	}
	// v, ok := m[k]; if !ok { continue }
	pre = append(pre, &ast.AssignStmt{
		Lhs: []ast.Expr{val, ast.NewIdent(okName)}, Tok: token.DEFINE,
		Rhs: []ast.Expr{&ast.IndexExpr{X: s.X, Index: ast.NewIdent(kname)}},
	})
	pre = append(pre, &ast.IfStmt{Cond: &ast.UnaryExpr{Op: token.NOT, X: ast.NewIdent(okName)},
		Body: &ast.BlockStmt{List: []ast.Stmt{&ast.BranchStmt{Tok: token.CONTINUE}}}})
	body := &ast.BlockStmt{List: append(pre, s.Body.List...)}
	ns := &ast.RangeStmt{Key: ast.NewIdent("_"), Value: key, Tok: token.DEFINE,
		X: call("vsched", "SortedKeys", s.X), Body: body}
	return []ast.Stmt{ns}
}
