// Package vnet is the in-memory network the instrumented repository code and
// the harness actors talk over: an ordered reliable byte pipe per direction
// with optional capacity, local/remote close and virtual read deadlines.
// Every operation is one scheduling point; blocking is enabledness.
package vnet

import (
	"errors"
	"fmt"
	"io"
	"net"
	"os"
	"time"
	"unsafe"

	"github.com/mdzio/go-mqtt/verifrt/vsched"
)

var errClosed = errors.New("use of closed network connection")

type addr string

func (a addr) Network() string { return "tcp" }
func (a addr) String() string  { return string(a) }

type pipe struct {
	obj     vsched.Obj
	buf     []byte
	cap     int  // <=0: unbounded
	wclosed bool // writing end closed: reader sees EOF after draining
	rclosed bool // reading end closed: writer gets an error
	total   int64
	// reader-side facts mirrored here so that they are part of the state key
	deadline int64
	lclosed  bool
}

//go:norace
func (p *pipe) state() uint64 {
	h := uint64(p.total)*1099511628211 ^ uint64(len(p.buf))
	h = h*1099511628211 ^ uint64(p.deadline)
	if p.wclosed {
		h ^= 1 << 62
	}
	if p.rclosed {
		h ^= 1 << 61
	}
	if p.lclosed {
		h ^= 1 << 60
	}
	return h*1099511628211 ^ uint64(p.cap)
}

// Conn is one end of a connection.
type Conn struct {
	in, out  *pipe
	closed   bool
	deadline int64 // virtual ns, 0 = none
	local    addr
	remote   addr
	peer     *Conn
	ioSync   *byte
	// eofWithData: Read returns the last bytes together with io.EOF
	eofWithData bool
}

// Listener is a vnet listener.
type Listener struct {
	key     uintptr
	addr    addr
	backlog []*Conn
	closed  bool
}

type registry struct {
	listeners map[string]*Listener
	nconn     int
	ioSync    byte
	// DefaultCap is the capacity given to the pipes of new connections.
	defaultCap int
}

//go:norace
func reg() *registry {
	s := vsched.Cur()
	r, _ := s.Locals["vnet"].(*registry)
	if r == nil {
		r = &registry{listeners: map[string]*Listener{}}
		s.Locals["vnet"] = r
	}
	return r
}

// Listen replaces net.Listen.
//
//go:norace
func Listen(network, address string) (net.Listener, error) {
	if !vsched.Active() {
		return net.Listen(network, address)
	}
	var l *Listener
	var err error
	vsched.Do(&vsched.Op{Kind: vsched.KListen, Note: address, Addr: lkey(address), AddrLabel: "listener", Write: true, Do: func() {
		r := reg()
		if _, dup := r.listeners[address]; dup {
			err = &net.OpError{Op: "listen", Net: network, Err: errors.New("address already in use")}
			return
		}
		l = &Listener{addr: addr(address), key: lkey(address)}
		r.listeners[address] = l
	}})
	if err != nil {
		return nil, err
	}
	return l, nil
}

//go:norace
func (l *Listener) Accept() (net.Conn, error) {
	var c *Conn
	var err error
	vsched.Do(&vsched.Op{Kind: vsched.KAccept, Addr: l.key, AddrLabel: "listener", Write: true,
		En: func() bool { return l.closed || len(l.backlog) > 0 },
		Do: func() {
			if l.closed {
				err = &net.OpError{Op: "accept", Net: "tcp", Addr: l.addr, Err: errClosed}
				return
			}
			c = l.backlog[0]
			l.backlog = l.backlog[1:]
		}})
	if err != nil {
		return nil, err
	}
	vsched.RaceAcquire(unsafe.Pointer(c.ioSync))
	return c, nil
}

//go:norace
func (l *Listener) Close() error {
	var err error
	vsched.Do(&vsched.Op{Kind: vsched.KClose, Addr: l.key, AddrLabel: "listener", Write: true, Do: func() {
		if l.closed {
			err = &net.OpError{Op: "close", Net: "tcp", Addr: l.addr, Err: errClosed}
			return
		}
		l.closed = true
		delete(reg().listeners, string(l.addr))
	}})
	return err
}

func (l *Listener) Addr() net.Addr { return l.addr }

// Dial replaces net.Dial.
//
//go:norace
func Dial(network, address string) (net.Conn, error) {
	if !vsched.Active() {
		return net.Dial(network, address)
	}
	return DialCap(address, 0, 0)
}

// DialCap dials with explicit pipe capacities (bytes the client→server and the
// server→client direction can hold before the writer blocks; 0 = unbounded).
//
//go:norace
func DialCap(address string, c2sCap, s2cCap int) (net.Conn, error) {
	var c *Conn
	var err error
	op := &vsched.Op{Kind: vsched.KDial, Note: address, Write: true, Addr: lkey(address), AddrLabel: "listener", Do: func() {
		r := reg()
		l := r.listeners[address]
		if l == nil || l.closed {
			err = &net.OpError{Op: "dial", Net: "tcp", Err: errors.New("connection refused")}
			return
		}
		r.nconn++
		up := &pipe{cap: c2sCap}
		down := &pipe{cap: s2cCap}
		up.obj.State = up.state
		down.obj.State = down.state
		up.obj.Label = fmt.Sprintf("pipe-c2s-%d", r.nconn)
		down.obj.Label = fmt.Sprintf("pipe-s2c-%d", r.nconn)
		cl := &Conn{in: down, out: up, local: addr(fmt.Sprintf("client:%d", r.nconn)), remote: l.addr, ioSync: &r.ioSync}
		sv := &Conn{in: up, out: down, local: l.addr, remote: cl.local, ioSync: &r.ioSync}
		cl.peer, sv.peer = sv, cl
		l.backlog = append(l.backlog, sv)
		c = cl
	}}
	vsched.Do(op)
	if err != nil {
		return nil, err
	}
	vsched.RaceReleaseMerge(unsafe.Pointer(c.ioSync))
	return c, nil
}

// lkey is the pseudo-address under which all operations on the listener of one
// address are ordered (listen/dial/accept/close).
func lkey(address string) uintptr {
	h := uint64(1469598103934665603)
	for i := 0; i < len(address); i++ {
		h ^= uint64(address[i])
		h *= 1099511628211
	}
	return uintptr(h | 1)
}

type timeoutError struct{}

func (timeoutError) Error() string   { return "i/o timeout" }
func (timeoutError) Timeout() bool   { return true }
func (timeoutError) Temporary() bool { return true }
func (timeoutError) Is(err error) bool {
	return err == os.ErrDeadlineExceeded
}

// PeerReadsEOFWithData makes the other end of this connection report the end
// of the stream together with the last bytes it reads (n > 0 and io.EOF from
// one Read), as the io.Reader contract permits.
//
//go:norace
func (c *Conn) PeerReadsEOFWithData() { c.peer.eofWithData = true }

//go:norace
func (c *Conn) Read(p []byte) (int, error) {
	var n int
	var err error
	s := vsched.Cur()
	vsched.Do(&vsched.Op{Kind: vsched.KRead, Obj: &c.in.obj, Write: true,
		En: func() bool {
			return c.closed || len(c.in.buf) > 0 || c.in.wclosed || len(p) == 0 ||
				(c.deadline != 0 && s.ClockNoPoint() >= c.deadline)
		},
		Do: func() {
			switch {
			case c.closed:
				err = &net.OpError{Op: "read", Net: "tcp", Source: c.local, Addr: c.remote, Err: errClosed}
			case c.deadline != 0 && s.ClockNoPoint() >= c.deadline:
				err = &net.OpError{Op: "read", Net: "tcp", Source: c.local, Addr: c.remote, Err: timeoutError{}}
			case len(c.in.buf) > 0:
				// (on the scheduler's goroutine: the write into the reader's buffer is announced
				// on the reader's own goroutine below)
				n = rawCopy(p, c.in.buf)
				c.in.buf = c.in.buf[n:]
				if c.eofWithData && len(c.in.buf) == 0 && c.in.wclosed {
					// the io.Reader contract allows the last bytes and the end of the stream in
					// one call (crypto/tls does that when close_notify follows the last record)
					err = io.EOF
				}
			case len(p) == 0:
			case c.in.wclosed:
				err = io.EOF
			}
		}})
	if n > 0 {
		vsched.RaceWriteRange(unsafe.Pointer(&p[0]), n)
	}
	vsched.RaceAcquire(unsafe.Pointer(c.ioSync))
	h := uint64(n) + 3
	for _, b := range p[:n] {
		h = (h ^ uint64(b)) * 1099511628211
	}
	if err != nil {
		h ^= 0xe44
		if err == io.EOF {
			h ^= 0xe0f
		}
	}
	vsched.Observe(h)
	return n, err
}

// rawCopy moves bytes between a pipe and a caller's buffer without telling the race detector:
// it runs on the scheduler's goroutine on behalf of a parked thread, whose own goroutine
// announces the access (RaceReadRange at the entry of Write, RaceWriteRange at the end of Read)
// with that thread's happens-before history.  The scheduler's goroutine has no such history;
// its accesses would only push the announced ones out of the detector's shadow cells.
//
//go:norace
//go:norace
func rawCopy(dst, src []byte) int {
	n := len(src)
	if len(dst) < n {
		n = len(dst)
	}
	for i := 0; i < n; i++ {
		dst[i] = src[i]
	}
	return n
}

func (c *Conn) Write(p []byte) (int, error) {
	done := 0
	var err error
	if len(p) > 0 {
		vsched.RaceReadRange(unsafe.Pointer(&p[0]), len(p))
	}
	// what a thread puts on the wire is part of its fingerprint: two schedules
	// that send different bytes must never be merged by state caching, even if
	// the difference comes from a plain-memory race the scheduler cannot see
	wh := uint64(len(p)) + 11
	for _, b := range p {
		wh = (wh ^ uint64(b)) * 1099511628211
	}
	vsched.Observe(wh)
	vsched.RaceReleaseMerge(unsafe.Pointer(c.ioSync))
	for {
		vsched.Do(&vsched.Op{Kind: vsched.KWrite, Obj: &c.out.obj, Write: true,
			En: func() bool {
				return c.closed || c.out.rclosed || c.out.cap <= 0 || len(c.out.buf) < c.out.cap
			},
			Do: func() {
				switch {
				case c.closed:
					err = &net.OpError{Op: "write", Net: "tcp", Source: c.local, Addr: c.remote, Err: errClosed}
				case c.out.rclosed:
					err = &net.OpError{Op: "write", Net: "tcp", Source: c.local, Addr: c.remote, Err: errors.New("broken pipe")}
				default:
					k := len(p) - done
					if c.out.cap > 0 && k > c.out.cap-len(c.out.buf) {
						k = c.out.cap - len(c.out.buf)
					}
					// (on the scheduler's goroutine: the read of the writer's buffer was announced
					// on the writer's own goroutine at entry)
					old := len(c.out.buf)
					c.out.buf = append(c.out.buf, make([]byte, k)...)
					rawCopy(c.out.buf[old:], p[done:done+k])
					c.out.total += int64(k)
					done += k
				}
			}})
		if err != nil || done == len(p) {
			return done, err
		}
	}
}

// CloseRead shuts down the reading side of this end only (what a peer sees
// when the other host has gone but its own data still arrives, or after
// shutdown(SHUT_RD)): the other end's writes fail with "broken pipe" from now
// on, its reads and this end's writes go on working.
//
//go:norace
func (c *Conn) CloseRead() {
	vsched.Do(&vsched.Op{Kind: vsched.KClose, Obj: &c.in.obj, Write: true, Do: func() {
		c.in.rclosed = true
		c.in.buf = nil
	}})
}

//go:norace
func (c *Conn) Close() error {
	var err error
	vsched.Do(&vsched.Op{Kind: vsched.KClose, Obj: &c.in.obj, Obj2: &c.out.obj, Write: true, Do: func() {
		if c.closed {
			err = &net.OpError{Op: "close", Net: "tcp", Source: c.local, Addr: c.remote, Err: errClosed}
			return
		}
		c.closed = true
		c.in.lclosed = true
		c.out.lclosed = true
		c.in.rclosed = true
		c.out.wclosed = true
	}})
	vsched.RaceReleaseMerge(unsafe.Pointer(c.ioSync))
	return err
}

func (c *Conn) LocalAddr() net.Addr  { return c.local }
func (c *Conn) RemoteAddr() net.Addr { return c.remote }

//go:norace
func (c *Conn) SetDeadline(t time.Time) error { return c.SetReadDeadline(t) }

//go:norace
func (c *Conn) SetReadDeadline(t time.Time) error {
	var err error
	d := int64(0)
	if !t.IsZero() {
		d = int64(t.Sub(vsched.Epoch))
		if d == 0 {
			d = 1
		}
	}
	vsched.Do(&vsched.Op{Kind: vsched.KDeadline, Obj: &c.in.obj, Write: true, Do: func() {
		if c.closed {
			err = &net.OpError{Op: "set", Net: "tcp", Source: c.local, Addr: c.remote, Err: errClosed}
			return
		}
		c.deadline = d
		c.in.deadline = d
	}})
	return err
}

func (c *Conn) SetWriteDeadline(t time.Time) error { return nil }

// Pending returns the number of bytes written by the peer and not yet read
// (scheduler-side state; call at quiescence).
//
//go:norace
func (c *Conn) Pending() int { return len(c.in.buf) }

// Totals returns the number of bytes ever written by this end and by the peer.
//
//go:norace
func (c *Conn) Totals() (sent, received int64) { return c.out.total, c.in.total }

// PeerClosed reports whether the other end has closed (call at quiescence).
//
//go:norace
func (c *Conn) PeerClosed() bool { return c.in.wclosed }

// SetOutCap changes the capacity of the pipe this end writes to.
//
//go:norace
func (c *Conn) SetOutCap(n int) { c.out.cap = n }

// SetInCap changes the capacity of the pipe this end reads from (how many
// bytes the peer can have in flight towards us).
//
//go:norace
func (c *Conn) SetInCap(n int) { c.in.cap = n }
