// Package vatomic replaces sync/atomic in the instrumented repository sources:
// every operation is one scheduling point followed by the real atomic
// operation (performed by the calling thread, which is the only one running);
// the value obtained is folded into the thread's fingerprint.
package vatomic

import (
	"sync/atomic"
	"unsafe"

	"github.com/mdzio/go-mqtt/verifrt/vsched"
)

//go:norace
func rd(p unsafe.Pointer, size uint8) {
	if vsched.Active() {
		vsched.Do(&vsched.Op{Kind: vsched.KAtomicLoad, Ptr: p, AddrLabel: "atomic", Size: size})
	}
}

//go:norace
func wr(p unsafe.Pointer, size uint8) {
	if vsched.Active() {
		vsched.Do(&vsched.Op{Kind: vsched.KAtomicStore, Ptr: p, AddrLabel: "atomic", Write: true, Size: size})
	}
}

// obs folds the value an operation returned into the thread's fingerprint.
func obs(v uint64) { vsched.Observe(v) }

func b2u(b bool) uint64 {
	if b {
		return 1
	}
	return 0
}

func LoadInt32(addr *int32) int32 {
	rd(unsafe.Pointer(addr), 4)
	v := atomic.LoadInt32(addr)
	obs(uint64(v))
	return v
}
func StoreInt32(addr *int32, val int32) { wr(unsafe.Pointer(addr), 4); atomic.StoreInt32(addr, val) }
func AddInt32(addr *int32, delta int32) int32 {
	wr(unsafe.Pointer(addr), 4)
	v := atomic.AddInt32(addr, delta)
	obs(uint64(v))
	return v
}
func SwapInt32(addr *int32, new int32) int32 {
	wr(unsafe.Pointer(addr), 4)
	v := atomic.SwapInt32(addr, new)
	obs(uint64(v))
	return v
}
func CompareAndSwapInt32(addr *int32, old, new int32) bool {
	wr(unsafe.Pointer(addr), 4)
	ok := atomic.CompareAndSwapInt32(addr, old, new)
	obs(b2u(ok))
	return ok
}

func LoadInt64(addr *int64) int64 {
	rd(unsafe.Pointer(addr), 8)
	v := atomic.LoadInt64(addr)
	obs(uint64(v))
	return v
}
func StoreInt64(addr *int64, val int64) { wr(unsafe.Pointer(addr), 8); atomic.StoreInt64(addr, val) }
func AddInt64(addr *int64, delta int64) int64 {
	wr(unsafe.Pointer(addr), 8)
	v := atomic.AddInt64(addr, delta)
	obs(uint64(v))
	return v
}
func SwapInt64(addr *int64, new int64) int64 {
	wr(unsafe.Pointer(addr), 8)
	v := atomic.SwapInt64(addr, new)
	obs(uint64(v))
	return v
}
func CompareAndSwapInt64(addr *int64, old, new int64) bool {
	wr(unsafe.Pointer(addr), 8)
	ok := atomic.CompareAndSwapInt64(addr, old, new)
	obs(b2u(ok))
	return ok
}

func LoadUint32(addr *uint32) uint32 {
	rd(unsafe.Pointer(addr), 4)
	v := atomic.LoadUint32(addr)
	obs(uint64(v))
	return v
}
func StoreUint32(addr *uint32, val uint32) {
	wr(unsafe.Pointer(addr), 4)
	atomic.StoreUint32(addr, val)
}
func AddUint32(addr *uint32, delta uint32) uint32 {
	wr(unsafe.Pointer(addr), 4)
	v := atomic.AddUint32(addr, delta)
	obs(uint64(v))
	return v
}
func SwapUint32(addr *uint32, new uint32) uint32 {
	wr(unsafe.Pointer(addr), 4)
	v := atomic.SwapUint32(addr, new)
	obs(uint64(v))
	return v
}
func CompareAndSwapUint32(addr *uint32, old, new uint32) bool {
	wr(unsafe.Pointer(addr), 4)
	ok := atomic.CompareAndSwapUint32(addr, old, new)
	obs(b2u(ok))
	return ok
}

func LoadUint64(addr *uint64) uint64 {
	rd(unsafe.Pointer(addr), 8)
	v := atomic.LoadUint64(addr)
	obs(uint64(v))
	return v
}
func StoreUint64(addr *uint64, val uint64) {
	wr(unsafe.Pointer(addr), 8)
	atomic.StoreUint64(addr, val)
}
func AddUint64(addr *uint64, delta uint64) uint64 {
	wr(unsafe.Pointer(addr), 8)
	v := atomic.AddUint64(addr, delta)
	obs(uint64(v))
	return v
}
func SwapUint64(addr *uint64, new uint64) uint64 {
	wr(unsafe.Pointer(addr), 8)
	v := atomic.SwapUint64(addr, new)
	obs(uint64(v))
	return v
}
func CompareAndSwapUint64(addr *uint64, old, new uint64) bool {
	wr(unsafe.Pointer(addr), 8)
	ok := atomic.CompareAndSwapUint64(addr, old, new)
	obs(b2u(ok))
	return ok
}

func LoadUintptr(addr *uintptr) uintptr {
	rd(unsafe.Pointer(addr), 8)
	v := atomic.LoadUintptr(addr)
	obs(uint64(v))
	return v
}
func StoreUintptr(addr *uintptr, val uintptr) {
	wr(unsafe.Pointer(addr), 8)
	atomic.StoreUintptr(addr, val)
}
func AddUintptr(addr *uintptr, delta uintptr) uintptr {
	wr(unsafe.Pointer(addr), 8)
	v := atomic.AddUintptr(addr, delta)
	obs(uint64(v))
	return v
}
func SwapUintptr(addr *uintptr, new uintptr) uintptr {
	wr(unsafe.Pointer(addr), 8)
	v := atomic.SwapUintptr(addr, new)
	obs(uint64(v))
	return v
}
func CompareAndSwapUintptr(addr *uintptr, old, new uintptr) bool {
	wr(unsafe.Pointer(addr), 8)
	ok := atomic.CompareAndSwapUintptr(addr, old, new)
	obs(b2u(ok))
	return ok
}

func LoadPointer(addr *unsafe.Pointer) unsafe.Pointer {
	rd(unsafe.Pointer(addr), 0)
	return atomic.LoadPointer(addr)
}
func StorePointer(addr *unsafe.Pointer, val unsafe.Pointer) {
	wr(unsafe.Pointer(addr), 0)
	atomic.StorePointer(addr, val)
}
func SwapPointer(addr *unsafe.Pointer, new unsafe.Pointer) unsafe.Pointer {
	wr(unsafe.Pointer(addr), 0)
	return atomic.SwapPointer(addr, new)
}
func CompareAndSwapPointer(addr *unsafe.Pointer, old, new unsafe.Pointer) bool {
	wr(unsafe.Pointer(addr), 0)
	return atomic.CompareAndSwapPointer(addr, old, new)
}

// Value mirrors atomic.Value (keyed by history: its content is opaque).
type Value struct{ v atomic.Value }

func (v *Value) Load() interface{}              { rd(unsafe.Pointer(v), 0); return v.v.Load() }
func (v *Value) Store(x interface{})            { wr(unsafe.Pointer(v), 0); v.v.Store(x) }
func (v *Value) Swap(x interface{}) interface{} { wr(unsafe.Pointer(v), 0); return v.v.Swap(x) }
func (v *Value) CompareAndSwap(o, n interface{}) bool {
	wr(unsafe.Pointer(v), 0)
	return v.v.CompareAndSwap(o, n)
}

// Bool mirrors atomic.Bool.
type Bool struct{ v atomic.Bool }

func (b *Bool) Load() bool       { rd(unsafe.Pointer(b), 0); return b.v.Load() }
func (b *Bool) Store(x bool)     { wr(unsafe.Pointer(b), 0); b.v.Store(x) }
func (b *Bool) Swap(x bool) bool { wr(unsafe.Pointer(b), 0); return b.v.Swap(x) }
func (b *Bool) CompareAndSwap(o, n bool) bool {
	wr(unsafe.Pointer(b), 0)
	return b.v.CompareAndSwap(o, n)
}

// Int32 mirrors atomic.Int32 (keyed by history).
type Int32 struct{ v atomic.Int32 }

func (x *Int32) Load() int32        { rd(unsafe.Pointer(x), 0); return x.v.Load() }
func (x *Int32) Store(v int32)      { wr(unsafe.Pointer(x), 0); x.v.Store(v) }
func (x *Int32) Add(d int32) int32  { wr(unsafe.Pointer(x), 0); return x.v.Add(d) }
func (x *Int32) Swap(v int32) int32 { wr(unsafe.Pointer(x), 0); return x.v.Swap(v) }
func (x *Int32) CompareAndSwap(o, n int32) bool {
	wr(unsafe.Pointer(x), 0)
	return x.v.CompareAndSwap(o, n)
}

// Int64 mirrors atomic.Int64 (keyed by history).
type Int64 struct{ v atomic.Int64 }

func (x *Int64) Load() int64        { rd(unsafe.Pointer(x), 0); return x.v.Load() }
func (x *Int64) Store(v int64)      { wr(unsafe.Pointer(x), 0); x.v.Store(v) }
func (x *Int64) Add(d int64) int64  { wr(unsafe.Pointer(x), 0); return x.v.Add(d) }
func (x *Int64) Swap(v int64) int64 { wr(unsafe.Pointer(x), 0); return x.v.Swap(v) }
func (x *Int64) CompareAndSwap(o, n int64) bool {
	wr(unsafe.Pointer(x), 0)
	return x.v.CompareAndSwap(o, n)
}

// Uint32 mirrors atomic.Uint32 (keyed by history).
type Uint32 struct{ v atomic.Uint32 }

func (x *Uint32) Load() uint32         { rd(unsafe.Pointer(x), 0); return x.v.Load() }
func (x *Uint32) Store(v uint32)       { wr(unsafe.Pointer(x), 0); x.v.Store(v) }
func (x *Uint32) Add(d uint32) uint32  { wr(unsafe.Pointer(x), 0); return x.v.Add(d) }
func (x *Uint32) Swap(v uint32) uint32 { wr(unsafe.Pointer(x), 0); return x.v.Swap(v) }
func (x *Uint32) CompareAndSwap(o, n uint32) bool {
	wr(unsafe.Pointer(x), 0)
	return x.v.CompareAndSwap(o, n)
}

// Uint64 mirrors atomic.Uint64 (keyed by history).
type Uint64 struct{ v atomic.Uint64 }

func (x *Uint64) Load() uint64         { rd(unsafe.Pointer(x), 0); return x.v.Load() }
func (x *Uint64) Store(v uint64)       { wr(unsafe.Pointer(x), 0); x.v.Store(v) }
func (x *Uint64) Add(d uint64) uint64  { wr(unsafe.Pointer(x), 0); return x.v.Add(d) }
func (x *Uint64) Swap(v uint64) uint64 { wr(unsafe.Pointer(x), 0); return x.v.Swap(v) }
func (x *Uint64) CompareAndSwap(o, n uint64) bool {
	wr(unsafe.Pointer(x), 0)
	return x.v.CompareAndSwap(o, n)
}
