//go:build race

package vsched

import (
	"runtime"
	"unsafe"
)

// RaceBuild reports whether the race detector is compiled in.
const RaceBuild = true

func raceDisable() { runtime.RaceDisable() }
func raceEnable()  { runtime.RaceEnable() }

func RaceAcquire(p unsafe.Pointer)      { runtime.RaceAcquire(p) }
func RaceRelease(p unsafe.Pointer)      { runtime.RaceRelease(p) }
func RaceReleaseMerge(p unsafe.Pointer) { runtime.RaceReleaseMerge(p) }
func RaceErrors() int                   { return runtime.RaceErrors() }
func RaceWriteRange(p unsafe.Pointer, n int) {
	if n > 0 {
		runtime.RaceWriteRange(p, n)
	}
}
func RaceReadRange(p unsafe.Pointer, n int) {
	if n > 0 {
		runtime.RaceReadRange(p, n)
	}
}
