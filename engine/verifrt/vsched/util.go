package vsched

import (
	"reflect"
	"sort"
	"sync/atomic"
)

// atomicState reads the current value of an atomically accessed word.
//
//go:norace
func (o *Obj) atomicState() uint64 {
	p := o.ptr
	if o.size == 4 {
		return uint64(atomic.LoadUint32((*uint32)(p)))
	}
	return atomic.LoadUint64((*uint64)(p))
}

func chanAddr(ch interface{}) uintptr {
	if ch == nil {
		return 1
	}
	v := reflect.ValueOf(ch)
	if v.Kind() != reflect.Chan || v.IsNil() {
		return 1
	}
	return v.Pointer()
}

func sortedKeys(m interface{}) []string {
	v := reflect.ValueOf(m)
	if v.Kind() != reflect.Map {
		panic("vsched.SortedKeys: not a map")
	}
	keys := make([]string, 0, v.Len())
	it := v.MapRange()
	for it.Next() {
		keys = append(keys, it.Key().String())
	}
	sort.Strings(keys)
	return keys
}
