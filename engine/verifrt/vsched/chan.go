//go:build go1.18

package vsched

import "reflect"

// Modelled channel operations.  The instrumenter rewrites statement-level
// sends, receives and close() of the repository code to these functions, so a
// goroutine that would block on a channel parks in the scheduler (and shows up
// as parked in a deadlock) instead of blocking the one running OS goroutine.
//
//   - buffered channels keep their content in the real channel; an operation is
//     enabled when the real operation cannot block (room / element / closed),
//     and is then carried out on the real channel by the thread itself;
//   - unbuffered channels are a rendezvous kept in a scheduler-side table: a
//     sender registers its value and parks until a receiver has taken it.
//
// select statements are not rewritten (the repository only uses non-blocking
// ones on channels that are closed to signal); close() also closes the real
// channel so that those keep working.

type chanModel struct {
	closed  bool
	senders []*pendingSend
}

type pendingSend struct {
	val   interface{}
	taken bool
}

// chanOf runs in the scheduler goroutine (inside En/Do closures).
//
//go:norace
func (s *Sched) chanOf(addr uintptr) *chanModel {
	if s.chans == nil {
		s.chans = map[uintptr]*chanModel{}
	}
	m := s.chans[addr]
	if m == nil {
		m = &chanModel{}
		s.chans[addr] = m
	}
	return m
}

// ChanSend replaces `ch <- v`.
func ChanSend[T any](ch chan<- T, v T) {
	s := cur
	if s == nil || ch == nil {
		ch <- v
		return
	}
	addr := reflect.ValueOf(ch).Pointer()
	if cap(ch) > 0 {
		closed := false
		point(&Op{Kind: KChan, Write: true, Addr: addr, AddrLabel: "chan", Note: "send",
			En: func() bool { return s.chanOf(addr).closed || len(ch) < cap(ch) },
			Do: func() { closed = s.chanOf(addr).closed }})
		_ = closed
		ch <- v // cannot block: there is room (or it panics: send on closed channel)
		return
	}
	ps := &pendingSend{val: v}
	point(&Op{Kind: KChan, Write: true, Addr: addr, AddrLabel: "chan", Note: "send (offer)",
		Do: func() {
			m := s.chanOf(addr)
			if !m.closed {
				m.senders = append(m.senders, ps)
			}
		}})
	closed := false
	point(&Op{Kind: KChan, Write: true, Addr: addr, AddrLabel: "chan", Note: "send (taken)",
		En: func() bool { return ps.taken || s.chanOf(addr).closed },
		Do: func() { closed = !ps.taken }})
	if closed {
		panic("send on closed channel")
	}
}

// ChanRecv replaces `<-ch` and `x := <-ch`.
func ChanRecv[T any](ch <-chan T) T {
	v, _ := ChanRecv2(ch)
	return v
}

// ChanRecv2 replaces `x, ok := <-ch`.
func ChanRecv2[T any](ch <-chan T) (T, bool) {
	s := cur
	if s == nil || ch == nil {
		v, ok := <-ch
		return v, ok
	}
	addr := reflect.ValueOf(ch).Pointer()
	if cap(ch) > 0 {
		point(&Op{Kind: KChan, Write: true, Addr: addr, AddrLabel: "chan", Note: "recv",
			En: func() bool { return len(ch) > 0 || s.chanOf(addr).closed }})
		v, ok := <-ch // cannot block
		return v, ok
	}
	var got interface{}
	ok := false
	point(&Op{Kind: KChan, Write: true, Addr: addr, AddrLabel: "chan", Note: "recv",
		En: func() bool { m := s.chanOf(addr); return len(m.senders) > 0 || m.closed },
		Do: func() {
			m := s.chanOf(addr)
			if len(m.senders) > 0 {
				ps := m.senders[0]
				m.senders = m.senders[1:]
				ps.taken = true
				got, ok = ps.val, true
			}
		}})
	if !ok {
		var zero T
		return zero, false
	}
	if got == nil {
		var zero T
		return zero, true
	}
	return got.(T), true
}

// ChanClose replaces close(ch).
func ChanClose[T any](ch chan<- T) {
	s := cur
	if s == nil || ch == nil {
		close(ch)
		return
	}
	addr := reflect.ValueOf(ch).Pointer()
	point(&Op{Kind: KChan, Write: true, Addr: addr, AddrLabel: "chan", Note: "close",
		Do: func() { s.chanOf(addr).closed = true }})
	close(ch)
}
