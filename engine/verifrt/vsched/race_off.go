//go:build !race

package vsched

import "unsafe"

// RaceBuild reports whether the race detector is compiled in.
const RaceBuild = false

func raceDisable() {}
func raceEnable()  {}

func RaceAcquire(p unsafe.Pointer)           {}
func RaceRelease(p unsafe.Pointer)           {}
func RaceReleaseMerge(p unsafe.Pointer)      {}
func RaceErrors() int                        { return 0 }
func RaceWriteRange(p unsafe.Pointer, n int) {}
func RaceReadRange(p unsafe.Pointer, n int)  {}
