// Package vsched is the cooperative scheduler that owns every source of
// nondeterminism of the code under test.  It is injected into the repository's
// module through a `go build -overlay` file (virtual package
// github.com/mdzio/go-mqtt/verifrt/vsched), see /verif/DESIGN.md §2.
//
// Exactly one registered thread runs at a time.  A thread runs until its next
// *point* (any shim operation), where it posts its pending operation to the
// scheduler goroutine and parks.  The scheduler evaluates which pending
// operations are enabled on its own model of the synchronisation state, picks
// one by the current choice sequence, applies its effect and resumes that
// thread.  An execution is fully determined by its choice sequence.
//
// All bookkeeping lives in the scheduler goroutine (the caller of Run); the
// thread side only fills in its own Thread record and exchanges two channel
// messages.  That split, `//go:norace` on both sides and RaceDisable/Enable
// around the hand-off keep ThreadSanitizer blind to the scheduler itself while
// it still sees the code under test (DESIGN §2.6).
package vsched

import (
	"fmt"
	"os"
	"runtime"
	"runtime/debug"
	"sort"
	"strings"
	"sync/atomic"
	"time"
	"unsafe"
)

// Kind names an operation for traces and hashing.
type Kind uint8

const (
	KStart Kind = iota
	KLock
	KUnlock
	KTryLock
	KRLock
	KRUnlock
	KCondWait
	KCondWake
	KSignal
	KBroadcast
	KWgAdd
	KWgWait
	KOnceEnter
	KOnceExit
	KAtomicLoad
	KAtomicStore
	KGo
	KChan
	KAccept
	KDial
	KListen
	KRead
	KWrite
	KClose
	KDeadline
	KNow
	KAdvance
	KQuiesce
	KYield
	KNote
	KSleep
)

var kindNames = [...]string{"start", "lock", "unlock", "trylock", "rlock", "runlock", "cond.wait", "cond.wake",
	"signal", "broadcast", "wg.add", "wg.wait", "once.enter", "once.exit", "atomic.load", "atomic.store", "go",
	"chan", "accept", "dial", "listen", "read", "write", "close", "deadline", "now", "advance", "quiesce", "yield", "note", "sleep"}

func (k Kind) String() string {
	if int(k) < len(kindNames) {
		return kindNames[k]
	}
	return fmt.Sprintf("kind%d", k)
}

// Obj is the header every shim object embeds.  It is only touched by the
// scheduler goroutine.
type Obj struct {
	epoch uint64
	id    uint64
	hash  uint64
	racc  uint64 // commutative accumulator of readers since the last write
	Label string
	// State, when set, returns a hash of the object's current value (mutex
	// locked flag, counter, atomic word, pipe fill …).  Objects with a State are
	// folded into state keys by value, all others by their write history.
	State func() uint64
	// Lock marks mutexes: they guard plain memory the scheduler cannot see, so
	// they are folded by history unless the harness declares DataFreeLocks.
	Lock    bool
	contrib uint64
	size    uint8
	ptr     unsafe.Pointer
}

// Op is a pending operation.  En and Do run in the scheduler goroutine.
type Op struct {
	Kind  Kind
	Obj   *Obj
	Obj2  *Obj
	Write bool
	En    func() bool // nil: always enabled
	Do    func()      // effect on the scheduler-side model, nil: none
	Note  string
	// Addr identifies an object by address (atomics, channels); the scheduler
	// goroutine resolves it to an Obj so that the map is only touched there.
	Addr      uintptr        // synthetic key (channels, listeners) …
	Ptr       unsafe.Pointer // … or the address of an atomic word
	AddrLabel string
	Size      uint8  // 4 or 8 for atomic words (enables value keys), 0 otherwise
	Pos       string // source position of the call (filled when tracing)
}

// Thread is one goroutine of the code under test or of the harness.
type Thread struct {
	path     []int32
	ID       string
	Name     string
	Lib      bool // started by instrumented repository code
	wake     chan struct{}
	pending  *Op
	done     bool
	started  bool
	aborting bool
	hash     uint64
	nspawn   int32
	nobj     uint32
	crash    interface{}
	stack    string
	log      []logEntry
}

type logEntry struct {
	seq  uint64
	fail bool
	msg  string
}

// Point records one scheduling decision.
type Point struct {
	NEnabled       int
	Chosen         int
	RunningEnabled bool // the previously running thread was among the enabled ones (it is then index 0)
	Preempt        bool
	Key            uint64
	Thread         string
	Kind           Kind
	ObjID          uint64
}

// Parked describes a thread that had not finished when the execution ended.
type Parked struct {
	ID, Name string
	Lib      bool
	Kind     Kind
	Obj      string
	Note     string
}

// Status of an execution.
const (
	StDone     = "done"     // no thread enabled (all finished or parked)
	StCrash    = "crash"    // uncaught panic in a thread
	StPruned   = "pruned"   // strategy asked to stop (state already visited)
	StHorizon  = "horizon"  // too many points
	StDiverged = "diverged" // replay prefix did not fit
)

// Result of one execution.
type Result struct {
	Status   string
	Points   []Point
	Choices  []int
	Parked   []Parked
	Crash    string
	CrashBy  string
	Log      []string
	Failures []string
	Diverged string
	NThreads int
	Trace    []string // only when Options.Trace
	// Mark is the step at which the harness called Mark(): exploration starts
	// there, everything before ran under the default schedule (0: from the start)
	Mark int
}

// Chooser decides at each point.  enabled >= 1.  Return -1 to stop the
// execution (pruned).
type Chooser interface {
	Choose(step int, p *Point) int
}

// Options for one execution.
type Options struct {
	Chooser   Chooser
	MaxPoints int
	Trace     bool
	NeedKeys  bool
	// KeyRunning includes the identity of the last running thread in state
	// keys (needed when preemptions are counted).
	KeyRunning bool
	// UseMark: the body calls Mark() after its set-up phase.
	UseMark bool
	// DataFreeLocks: the harness asserts that no plain memory that influences
	// control flow is guarded by a mutex (true for the ring buffer, whose
	// shared words are all atomics); mutexes are then keyed by value.
	DataFreeLocks bool
}

// Sched is the state of one execution.
type Sched struct {
	opts     Options
	threads  []*Thread
	running  *Thread
	yield    chan *Thread
	res      *Result
	clock    int64
	epoch    uint64
	atomics  map[uintptr]*Obj
	nextObj  uint64
	Locals   map[string]interface{} // per-execution registry for shim packages (listeners …)
	ClockObj Obj
	stopping bool
	logSeq   uint64
	nfail    int
	objXor   uint64
	useMark  bool
	dirty    []*Obj                 // value-keyed objects whose real state changes after the point (atomic words)
	chans    map[uintptr]*chanModel // modelled channels (chan.go), scheduler goroutine only
	mapRanges int                   // ranges over maps so far (SortedKeys), running thread only
}

var execSync byte

var (
	cur      *Sched
	epochCtr uint64
	progress uint64
	wdOnce   int32
)

// Active reports whether a scheduler owns the calling goroutine's world.
//
//go:norace
func Active() bool { return cur != nil }

// ExecEpoch identifies the running execution.  Synchronisation objects that
// outlive an execution (package-level variables of the code under test) use it
// to forget the state a previous execution left behind: an execution that is
// cut short (pruned, horizon) unwinds its threads wherever they are, also
// inside critical sections.
//
//go:norace
func ExecEpoch() uint64 {
	if cur == nil {
		return 0
	}
	return cur.epoch
}

// Cur returns the scheduler of the running execution (scheduler goroutine or
// the running thread only).
//
//go:norace
func Cur() *Sched { return cur }

func mix(a, b uint64) uint64 {
	x := a ^ (b + 0x9e3779b97f4a7c15 + (a << 6) + (a >> 2))
	x ^= x >> 32
	x *= 0xd6e8feb86659fd93
	x ^= x >> 29
	x *= 0x94d049bb133111eb
	x ^= x >> 32
	return x
}

func hashStr(s string) uint64 {
	h := uint64(1469598103934665603)
	for i := 0; i < len(s); i++ {
		h ^= uint64(s[i])
		h *= 1099511628211
	}
	return h
}

// Run executes main as thread 0 under the scheduler and returns when no thread
// is enabled any more (or the chooser stops, a thread crashes, the horizon is
// hit).  Every thread still alive is then unwound with runtime.Goexit.
//
//go:norace
func Run(o Options, main func()) *Result {
	if cur != nil {
		panic("vsched: nested Run")
	}
	if o.MaxPoints == 0 {
		o.MaxPoints = 200000
	}
	startWatchdog()
	RaceAcquire(unsafe.Pointer(&execSync))
	s := &Sched{opts: o, yield: make(chan *Thread), res: &Result{}, atomics: map[uintptr]*Obj{}, Locals: map[string]interface{}{}}
	s.epoch = atomic.AddUint64(&epochCtr, 1)
	s.useMark = o.UseMark
	s.ClockObj.Label = "clock"
	s.ClockObj.State = func() uint64 { return uint64(s.clock) }
	cur = s
	t0 := s.spawn(nil, "main", false, main)
	_ = t0
	s.loop()
	s.stopping = true
	// unwind everything that is still alive
	for _, t := range s.threads {
		if !t.done {
			s.res.Parked = append(s.res.Parked, s.describe(t))
		}
	}
	for _, t := range s.threads {
		for !t.done {
			t.aborting = true
			s.running = t
			raceDisable()
			t.wake <- struct{}{}
			x := <-s.yield
			raceEnable()
			if x != t {
				// a different thread reporting done is impossible: only t runs
				fatal("vsched: abort protocol violated: %s vs %s", x.ID, t.ID)
			}
		}
	}
	s.res.NThreads = len(s.threads)
	// merge the per-thread observation logs by sequence number
	var all []logEntry
	for _, t := range s.threads {
		all = append(all, t.log...)
	}
	sort.Slice(all, func(i, j int) bool { return all[i].seq < all[j].seq })
	for _, e := range all {
		if e.fail {
			s.res.Failures = append(s.res.Failures, e.msg)
			s.res.Log = append(s.res.Log, "FAIL: "+e.msg)
		} else {
			s.res.Log = append(s.res.Log, e.msg)
		}
	}
	cur = nil
	return s.res
}

//go:norace
func (s *Sched) describe(t *Thread) Parked {
	p := Parked{ID: t.ID, Name: t.Name, Lib: t.Lib}
	if t.pending != nil {
		p.Kind = t.pending.Kind
		p.Note = t.pending.Note
		if t.pending.Obj != nil {
			p.Obj = fmt.Sprintf("%s#%d", t.pending.Obj.Label, t.pending.Obj.id)
		}
	}
	return p
}

//go:norace
func (s *Sched) spawn(parent *Thread, name string, lib bool, fn func()) *Thread {
	t := &Thread{Name: name, Lib: lib, wake: make(chan struct{})}
	if parent == nil {
		t.path = []int32{0}
	} else {
		parent.nspawn++
		t.path = append(append([]int32{}, parent.path...), parent.nspawn)
	}
	var sb strings.Builder
	for i, p := range t.path {
		if i > 0 {
			sb.WriteByte('.')
		}
		fmt.Fprintf(&sb, "%d", p)
	}
	t.ID = sb.String()
	t.hash = hashStr(t.ID)
	t.pending = &Op{Kind: KStart}
	// keep the thread list in canonical (path) order
	i := sort.Search(len(s.threads), func(i int) bool { return pathLess(t.path, s.threads[i].path) })
	s.threads = append(s.threads, nil)
	copy(s.threads[i+1:], s.threads[i:])
	s.threads[i] = t
	go s.threadMain(t, fn)
	return t
}

func pathLess(a, b []int32) bool {
	for i := 0; i < len(a) && i < len(b); i++ {
		if a[i] != b[i] {
			return a[i] < b[i]
		}
	}
	return len(a) < len(b)
}

//go:norace
func (s *Sched) threadMain(t *Thread, fn func()) {
	defer func() {
		if r := recover(); r != nil && !t.aborting {
			t.crash = r
			t.stack = string(debug.Stack())
		}
		// everything this thread did happens-before the next execution
		RaceReleaseMerge(unsafe.Pointer(&execSync))
		t.done = true
		raceDisable()
		s.yield <- t
		raceEnable()
	}()
	raceDisable()
	<-t.wake
	raceEnable()
	if t.aborting {
		return
	}
	t.started = true
	fn()
}

// point is the thread side of a scheduling point.
//
//go:norace
func point(op *Op) {
	s := cur
	t := s.running
	if t.aborting {
		runtime.Goexit()
	}
	if s.opts.Trace {
		op.Pos = callerPos()
	}
	t.pending = op
	raceDisable()
	s.yield <- t
	<-t.wake
	raceEnable()
	if t.aborting {
		runtime.Goexit()
	}
}

// Do is the exported entry used by the shim packages.
//
//go:norace
func Do(op *Op) { point(op) }

//go:norace
func (s *Sched) objID(t *Thread, o *Obj) {
	if o.epoch != s.epoch {
		t.nobj++
		o.epoch = s.epoch
		o.id = mix(hashStr(t.ID), uint64(t.nobj))
		o.hash = o.id
		o.racc = 0
		o.contrib = 0
	}
}

//go:norace
func (s *Sched) loop() {
	var enabled []*Thread
	for {
		// enabled set in canonical order: previously running thread first
		enabled = enabled[:0]
		prev := s.running
		prevEnabled := false
		var quiescers []*Thread
		for _, t := range s.threads {
			if t.done || t.pending == nil {
				continue
			}
			if t.pending.Kind == KQuiesce {
				quiescers = append(quiescers, t)
				continue
			}
			if t.pending.En == nil || t.pending.En() {
				if t == prev {
					prevEnabled = true
				} else {
					enabled = append(enabled, t)
				}
			}
		}
		if prevEnabled {
			enabled = append(enabled, nil)
			copy(enabled[1:], enabled)
			enabled[0] = prev
		}
		if len(enabled) == 0 {
			// quiescence: a thread waiting for it may now run
			if len(quiescers) > 0 {
				enabled = append(enabled, quiescers[0])
				if quiescers[0] == prev {
					prevEnabled = true
				}
			} else {
				s.res.Status = StDone
				return
			}
		}
		step := len(s.res.Points)
		if step >= s.opts.MaxPoints {
			s.res.Status = StHorizon
			return
		}
		p := Point{NEnabled: len(enabled), RunningEnabled: prevEnabled}
		if s.opts.NeedKeys {
			for _, o := range s.dirty {
				s.touch(o)
			}
			s.dirty = s.dirty[:0]
			p.Key = s.stateKey(prev)
		}
		idx := 0
		if s.opts.Chooser != nil {
			idx = s.opts.Chooser.Choose(step, &p)
		}
		if idx < 0 {
			s.res.Status = StPruned
			return
		}
		if idx >= len(enabled) {
			s.res.Status = StDiverged
			s.res.Diverged = fmt.Sprintf("step %d: choice %d of %d enabled", step, idx, len(enabled))
			return
		}
		nt := enabled[idx]
		op := nt.pending
		nt.pending = nil
		if op.Obj == nil && op.Ptr != nil {
			op.Obj = s.AtomicObj(uintptr(op.Ptr), op.Ptr, op.AddrLabel, op.Size)
		} else if op.Obj == nil && op.Addr != 0 {
			op.Obj = s.AtomicObj(op.Addr, nil, op.AddrLabel, 0)
		}
		p.Chosen = idx
		p.Preempt = prevEnabled && idx != 0
		p.Thread = nt.ID
		p.Kind = op.Kind
		// hashes: by value for objects whose state the scheduler knows, by
		// write history (happens-before fingerprint) for the rest
		if op.Obj != nil {
			s.objID(nt, op.Obj)
			p.ObjID = op.Obj.id
			if s.byValue(op.Obj) {
				nt.hash = mix(mix(nt.hash, op.Obj.id), uint64(op.Kind)+1)
			} else {
				s.fold(nt, op.Obj, op.Kind, op.Write)
			}
		} else {
			nt.hash = mix(nt.hash, uint64(op.Kind)+1)
		}
		if op.Obj2 != nil {
			s.objID(nt, op.Obj2)
			if !s.byValue(op.Obj2) {
				s.fold(nt, op.Obj2, op.Kind, true)
			}
		}
		if s.opts.Trace {
			lbl := ""
			if op.Obj != nil {
				lbl = fmt.Sprintf(" %s#%x", op.Obj.Label, op.Obj.id&0xffff)
			}
			s.res.Trace = append(s.res.Trace, fmt.Sprintf("%4d [%d/%d] T%s(%s) %s%s %s", step, idx, len(enabled), nt.ID, nt.Name, op.Kind, lbl, op.Note+" "+op.Pos))
		}
		if op.Do != nil {
			op.Do()
		}
		if s.opts.NeedKeys {
			if op.Obj != nil {
				s.touch(op.Obj)
				if op.Obj.ptr != nil && op.Write {
					s.dirty = append(s.dirty, op.Obj)
				}
			}
			if op.Obj2 != nil {
				s.touch(op.Obj2)
			}
		}
		s.res.Points = append(s.res.Points, p)
		s.res.Choices = append(s.res.Choices, idx)
		s.running = nt
		raceDisable()
		nt.wake <- struct{}{}
		y := <-s.yield
		raceEnable()
		atomic.AddUint64(&progress, 1)
		if y.done && y.crash != nil {
			s.res.Status = StCrash
			s.res.Crash = fmt.Sprintf("%v\n%s", y.crash, y.stack)
			s.res.CrashBy = y.ID + " " + y.Name
			return
		}
	}
}

//go:norace
func (s *Sched) byValue(o *Obj) bool {
	return o.State != nil && (!o.Lock || s.opts.DataFreeLocks)
}

// touch refreshes the object's contribution to the state key.
//
//go:norace
func (s *Sched) touch(o *Obj) {
	var v uint64
	if s.byValue(o) {
		v = o.State()
	} else {
		v = mix(o.hash, o.racc)
	}
	n := mix(o.id, v)
	s.objXor ^= o.contrib ^ n
	o.contrib = n
}

// Observe folds a value the running thread has just obtained from shared state
// (an atomic word, bytes from a pipe, the clock) into its fingerprint.
//
//go:norace
func Observe(v uint64) {
	if cur == nil {
		return
	}
	t := cur.running
	t.hash = mix(t.hash, v+0x51)
}

//go:norace
func (s *Sched) fold(t *Thread, o *Obj, k Kind, write bool) {
	if write {
		t.hash = mix(mix(mix(t.hash, o.hash), o.racc), uint64(k)+1)
		o.hash = t.hash
		o.racc = 0
	} else {
		t.hash = mix(mix(t.hash, o.hash), uint64(k)+1)
		o.racc += t.hash
	}
}

// stateKey fingerprints the Mazurkiewicz trace of the prefix executed so far:
// the per-thread hash chains determine the partial order (see DESIGN §2.3).
//
//go:norace
func (s *Sched) stateKey(prev *Thread) uint64 {
	k := uint64(0x1234567)
	for _, t := range s.threads {
		k = mix(k, t.hash)
		if t.done {
			k = mix(k, 1)
		}
	}
	if prev != nil && s.opts.KeyRunning {
		k = mix(k, hashStr(prev.ID))
	}
	return k ^ s.objXor
}

// ---------------------------------------------------------------------
// thread-side API

// Go starts fn as a new thread.  lib marks threads started by repository code.
//
//go:norace
func Go(name string, fn func()) { goImpl(name, false, fn) }

// GoLib is what the instrumenter rewrites `go f(x)` statements to.
//
//go:norace
func GoLib(name string, fn func()) {
	if cur == nil {
		go fn()
		return
	}
	goImpl(name, true, fn)
}

//go:norace
func goImpl(name string, lib bool, fn func()) {
	s := cur
	parent := s.running
	// the go statement happens-before the start of the new goroutine; the
	// goroutine itself is created by the scheduler, so the edge is made explicit
	tok := new(byte)
	RaceRelease(unsafe.Pointer(tok))
	wrapped := func() {
		RaceAcquire(unsafe.Pointer(tok))
		fn()
	}
	point(&Op{Kind: KGo, Note: name, Do: func() { s.spawn(parent, name, lib, wrapped) }})
}

// SelfID is a stable identifier of the calling thread.
//
//go:norace
func SelfID() uint64 { return hashStr(cur.running.ID) }

// Marked reports whether the exploration phase has begun (always true when the
// harness never calls Mark).
//
//go:norace
func (s *Sched) Marked() bool { return !s.useMark || s.res.Mark > 0 }

// UseMark announces that the body will call Mark (set by the explorer).
//
//go:norace
func (s *Sched) UseMark() { s.useMark = true }

// Mark tells the explorer that the set-up phase is over: only scheduling
// points from here on are branched on.
//
//go:norace
func Mark() {
	if cur != nil && cur.res.Mark == 0 {
		cur.res.Mark = len(cur.res.Points)
	}
}

// Quiesce parks the calling thread until no other thread is enabled.
//
//go:norace
func Quiesce() { point(&Op{Kind: KQuiesce}) }

// Yield is a plain scheduling point.
//
//go:norace
func Yield() {
	if cur == nil {
		return
	}
	point(&Op{Kind: KYield})
}

// Logf appends to the observation log of the execution (used by the
// determinism self-check and by replays).
//
//go:norace
func Logf(format string, a ...interface{}) {
	if cur == nil {
		return
	}
	s := cur
	t := s.running
	s.logSeq++
	t.log = append(t.log, logEntry{seq: s.logSeq, msg: fmt.Sprintf(format, a...)})
}

// Failf records a property violation observed by a harness.
//
//go:norace
func Failf(format string, a ...interface{}) {
	if cur == nil {
		return
	}
	s := cur
	t := s.running
	s.logSeq++
	s.nfail++
	t.log = append(t.log, logEntry{seq: s.logSeq, fail: true, msg: fmt.Sprintf(format, a...)})
}

// Failed reports whether a failure was recorded.
//
//go:norace
func Failed() bool { return cur != nil && cur.nfail > 0 }

// Snapshot of the threads that are not finished, for use after Quiesce.
//
//go:norace
func Alive() []Parked {
	s := cur
	var out []Parked
	for _, t := range s.threads {
		if !t.done && t != s.running {
			out = append(out, s.describe(t))
		}
	}
	return out
}

// NumPoints is the number of scheduling points executed so far.
//
//go:norace
func NumPoints() int { return len(cur.res.Points) }

// ---------------------------------------------------------------------
// virtual time

// NowNanos reads the virtual clock (a scheduling point).
//
//go:norace
func NowNanos() int64 {
	s := cur
	var v int64
	point(&Op{Kind: KNow, Obj: &s.ClockObj, Do: func() { v = s.clock }})
	Observe(uint64(v))
	return v
}

// ClockNoPoint reads the virtual clock from scheduler-side closures.
//
//go:norace
func (s *Sched) ClockNoPoint() int64 { return s.clock }

// Epoch is the virtual-time origin.
var Epoch = time.Date(2030, 1, 1, 0, 0, 0, 0, time.UTC)

// Now replaces time.Now in package service.
//
//go:norace
func Now() time.Time {
	if cur == nil {
		return time.Now()
	}
	return Epoch.Add(time.Duration(NowNanos()))
}

// Advance moves the virtual clock (harness only).
//
//go:norace
func Advance(d time.Duration) {
	s := cur
	point(&Op{Kind: KAdvance, Obj: &s.ClockObj, Write: true, Do: func() { s.clock += int64(d) }})
}

// Sleep replaces time.Sleep: it parks until the virtual clock has advanced.
//
//go:norace
func Sleep(d time.Duration) {
	if cur == nil {
		time.Sleep(d)
		return
	}
	s := cur
	until := int64(-1)
	point(&Op{Kind: KNow, Obj: &s.ClockObj, Do: func() { until = s.clock + int64(d) }})
	point(&Op{Kind: KSleep, Obj: &s.ClockObj, En: func() bool { return s.clock >= until }})
}

// AtomicObj maps the address of an atomically accessed word to its object.
//
//go:norace
func (s *Sched) AtomicObj(addr uintptr, ptr unsafe.Pointer, label string, size uint8) *Obj {
	o := s.atomics[addr]
	if o == nil {
		o = &Obj{Label: label, size: size, ptr: ptr}
		if ptr != nil && (size == 4 || size == 8) {
			o.State = o.atomicState
		}
		s.atomics[addr] = o
	}
	return o
}

// ChanPoint is inserted before channel operations of the repository code
// (today all of them are non-blocking).
//
//go:norace
func ChanPoint(ch interface{}, write bool) {
	if cur == nil {
		return
	}
	point(&Op{Kind: KChan, Write: write, Addr: chanAddr(ch), AddrLabel: "chan"})
}

// ---------------------------------------------------------------------
// watchdog: the running thread must reach a point within a wall-clock limit;
// otherwise this is an engine error (exit 2), never a verdict.

func startWatchdog() {
	if !atomic.CompareAndSwapInt32(&wdOnce, 0, 1) {
		return
	}
	limit := 60
	go func() {
		last := uint64(0)
		stuck := 0
		for {
			time.Sleep(time.Second)
			c := curActive()
			p := atomic.LoadUint64(&progress)
			if c && p == last {
				stuck++
				if stuck >= limit {
					buf := make([]byte, 1<<20)
					n := runtime.Stack(buf, true)
					fmt.Fprintf(os.Stderr, "ENGINE-ERROR: watchdog: no scheduling point for %d s\n%s\n", limit, buf[:n])
					os.Exit(2)
				}
			} else {
				stuck = 0
			}
			last = p
		}
	}()
}

//go:norace
func curActive() bool { return cur != nil }

// callerPos finds the first frame outside the runtime shims.
func callerPos() string {
	var pcs [24]uintptr
	n := runtime.Callers(3, pcs[:])
	fr := runtime.CallersFrames(pcs[:n])
	for {
		f, more := fr.Next()
		if !strings.Contains(f.File, "/verifrt/") {
			file := f.File
			if i := strings.LastIndex(file, "/"); i >= 0 {
				if j := strings.LastIndex(file[:i], "/"); j >= 0 {
					file = file[j+1:]
				}
			}
			return fmt.Sprintf("%s:%d", file, f.Line)
		}
		if !more {
			return ""
		}
	}
}

func fatal(format string, a ...interface{}) {
	fmt.Fprintf(os.Stderr, "ENGINE-ERROR: "+format+"\n", a...)
	os.Exit(2)
}

// SortedKeys returns the string keys of a map in sorted order; the
// instrumenter rewrites `range` over map-typed struct fields to iterate in this
// order so that hash-iteration randomness cannot leak into the schedule.
//
// Go leaves the iteration order of a map unspecified and draws a new one for
// every range statement, so no single order is "the" behaviour.  The order is
// owned here: within one execution the first, third, ... range over a map with
// more than one key runs in ascending key order, the second, fourth, ... in
// descending order.  Code that needs two iterations of one map to agree, or
// that depends on one particular order, therefore meets both orders in every
// execution, and an execution is still a function of its choice sequence.
//
//go:norace
func SortedKeys(m interface{}) []string {
	keys := sortedKeys(m)
	if s := cur; s != nil && len(keys) > 1 {
		s.mapRanges++
		if s.mapRanges%2 == 0 {
			for i, j := 0, len(keys)-1; i < j; i, j = i+1, j-1 {
				keys[i], keys[j] = keys[j], keys[i]
			}
		}
	}
	return keys
}
