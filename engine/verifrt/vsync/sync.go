// Package vsync replaces package sync in the instrumented repository sources.
// Each operation is one scheduling point of vsched; blocking is modelled by the
// operation's enabledness, never by really blocking.  Without an active
// scheduler every type falls back to the real primitive it embeds, so that the
// instrumented packages also work in plain programs and tests.
package vsync

import (
	"sync"
	"unsafe"

	"github.com/mdzio/go-mqtt/verifrt/vsched"
)

// Locker is sync.Locker.
type Locker = sync.Locker

// Pass-through aliases for types the scheduler does not need to model.
type (
	Map  = sync.Map
	Pool = sync.Pool
)

// ---------------------------------------------------------------------

// Mutex models sync.Mutex.
type Mutex struct {
	obj    vsched.Obj
	locked bool
	real   sync.Mutex
	ep     uint64 // execution the scheduler-side state belongs to (see vsched.ExecEpoch)
}

//go:norace
func (m *Mutex) Lock() {
	if !vsched.Active() {
		m.real.Lock()
		return
	}
	m.init()
	vsched.Do(&vsched.Op{Kind: vsched.KLock, Obj: &m.obj, Write: true,
		En: func() bool { return !m.locked },
		Do: func() { m.locked = true }})
	vsched.RaceAcquire(unsafe.Pointer(m))
}

//go:norace
func (m *Mutex) init() {
	if e := vsched.ExecEpoch(); m.ep != e {
		m.ep, m.locked = e, false
	}
	if m.obj.State == nil {
		m.obj.Label = "mutex"
		m.obj.Lock = true
		m.obj.State = m.state
	}
}

//go:norace
func (m *Mutex) state() uint64 {
	if m.locked {
		return 1
	}
	return 0
}

//go:norace
func (m *Mutex) TryLock() bool {
	if !vsched.Active() {
		return m.real.TryLock()
	}
	m.init()
	ok := false
	vsched.Do(&vsched.Op{Kind: vsched.KTryLock, Obj: &m.obj, Write: true,
		Do: func() {
			if !m.locked {
				m.locked = true
				ok = true
			}
		}})
	if ok {
		vsched.RaceAcquire(unsafe.Pointer(m))
		vsched.Observe(1)
	} else {
		vsched.Observe(0)
	}
	return ok
}

//go:norace
func (m *Mutex) Unlock() {
	if !vsched.Active() {
		m.real.Unlock()
		return
	}
	m.init()
	vsched.RaceRelease(unsafe.Pointer(m))
	bad := false
	vsched.Do(&vsched.Op{Kind: vsched.KUnlock, Obj: &m.obj, Write: true,
		Do: func() {
			if !m.locked {
				bad = true
			}
			m.locked = false
		}})
	if bad {
		panic("sync: unlock of unlocked mutex")
	}
}

// Locked is a probe for harnesses (scheduler-side state, read at quiescence).
//
//go:norace
func (m *Mutex) Locked() bool { return m.locked }

// ---------------------------------------------------------------------

// RWMutex models sync.RWMutex (writer preference is not modelled: both orders
// of a pending writer and a new reader are explored).
type RWMutex struct {
	obj     vsched.Obj
	writer  bool
	readers int
	real    sync.RWMutex
	rtag    byte // address used for the reader side race annotations
	wtag    byte
	ep      uint64
}

//go:norace
func (m *RWMutex) init() {
	if e := vsched.ExecEpoch(); m.ep != e {
		m.ep, m.writer, m.readers = e, false, 0
	}
	if m.obj.State == nil {
		m.obj.Label = "rwmutex"
		m.obj.Lock = true
		m.obj.State = m.state
	}
}

//go:norace
func (m *RWMutex) state() uint64 {
	v := uint64(m.readers) << 1
	if m.writer {
		v |= 1
	}
	return v
}

//go:norace
func (m *RWMutex) Lock() {
	if !vsched.Active() {
		m.real.Lock()
		return
	}
	m.init()
	vsched.Do(&vsched.Op{Kind: vsched.KLock, Obj: &m.obj, Write: true,
		En: func() bool { return !m.writer && m.readers == 0 },
		Do: func() { m.writer = true }})
	vsched.RaceAcquire(unsafe.Pointer(&m.rtag))
	vsched.RaceAcquire(unsafe.Pointer(&m.wtag))
}

//go:norace
func (m *RWMutex) Unlock() {
	if !vsched.Active() {
		m.real.Unlock()
		return
	}
	m.init()
	vsched.RaceRelease(unsafe.Pointer(&m.rtag))
	bad := false
	vsched.Do(&vsched.Op{Kind: vsched.KUnlock, Obj: &m.obj, Write: true,
		Do: func() {
			if !m.writer {
				bad = true
			}
			m.writer = false
		}})
	if bad {
		panic("sync: Unlock of unlocked RWMutex")
	}
}

//go:norace
func (m *RWMutex) RLock() {
	if !vsched.Active() {
		m.real.RLock()
		return
	}
	m.init()
	vsched.Do(&vsched.Op{Kind: vsched.KRLock, Obj: &m.obj, Write: true,
		En: func() bool { return !m.writer },
		Do: func() { m.readers++ }})
	vsched.RaceAcquire(unsafe.Pointer(&m.rtag))
}

//go:norace
func (m *RWMutex) RUnlock() {
	if !vsched.Active() {
		m.real.RUnlock()
		return
	}
	m.init()
	vsched.RaceReleaseMerge(unsafe.Pointer(&m.wtag))
	bad := false
	vsched.Do(&vsched.Op{Kind: vsched.KRUnlock, Obj: &m.obj, Write: true,
		Do: func() {
			if m.readers <= 0 {
				bad = true
			}
			m.readers--
		}})
	if bad {
		panic("sync: RUnlock of unlocked RWMutex")
	}
}

// RLocker returns a Locker for the read side.
func (m *RWMutex) RLocker() Locker { return (*rlocker)(m) }

type rlocker RWMutex

func (r *rlocker) Lock()   { (*RWMutex)(r).RLock() }
func (r *rlocker) Unlock() { (*RWMutex)(r).RUnlock() }

// Busy is a probe for harnesses.
//
//go:norace
func (m *RWMutex) Busy() bool { return m.writer || m.readers != 0 }

// ---------------------------------------------------------------------

// Cond models sync.Cond: FIFO wake-up order, no spurious wake-ups.
type Cond struct {
	L       Locker
	obj     vsched.Obj
	waiters []*condWaiter
	real    *sync.Cond
}

type condWaiter struct {
	signalled bool
	tid       uint64
}

//go:norace
func (c *Cond) init() {
	if c.obj.State == nil {
		c.obj.Label = "cond"
		c.obj.State = c.state
	}
}

//go:norace
func (c *Cond) state() uint64 {
	h := uint64(len(c.waiters)) + 7
	for _, w := range c.waiters {
		h = h*1099511628211 ^ w.tid
	}
	return h
}

// NewCond returns a new Cond with Locker l.
func NewCond(l Locker) *Cond {
	return &Cond{L: l, real: sync.NewCond(l)}
}

//go:norace
func (c *Cond) Wait() {
	if !vsched.Active() {
		if c.real == nil {
			c.real = sync.NewCond(c.L)
		}
		c.real.Wait()
		return
	}
	c.init()
	w := &condWaiter{tid: vsched.SelfID()}
	m, isShim := c.L.(*Mutex)
	if !isShim {
		// a Locker the scheduler does not know: release it for real, wait, re-acquire
		vsched.Do(&vsched.Op{Kind: vsched.KCondWait, Obj: &c.obj, Write: true,
			Do: func() { c.waiters = append(c.waiters, w) }})
		c.L.Unlock()
		vsched.Do(&vsched.Op{Kind: vsched.KCondWake, Obj: &c.obj, En: func() bool { return w.signalled }})
		c.L.Lock()
		return
	}
	// step 1: release L and enqueue, atomically
	vsched.RaceRelease(unsafe.Pointer(m))
	bad := false
	vsched.Do(&vsched.Op{Kind: vsched.KCondWait, Obj: &c.obj, Obj2: &m.obj, Write: true,
		Do: func() {
			if !m.locked {
				bad = true
			}
			m.locked = false
			c.waiters = append(c.waiters, w)
		}})
	if bad {
		panic("sync: unlock of unlocked mutex")
	}
	// steps 2+3: signalled, then re-acquire L
	vsched.Do(&vsched.Op{Kind: vsched.KCondWake, Obj: &c.obj, Obj2: &m.obj,
		En: func() bool { return w.signalled && !m.locked },
		Do: func() { m.locked = true }})
	vsched.RaceAcquire(unsafe.Pointer(m))
}

//go:norace
func (c *Cond) Signal() {
	if !vsched.Active() {
		if c.real == nil {
			c.real = sync.NewCond(c.L)
		}
		c.real.Signal()
		return
	}
	c.init()
	vsched.Do(&vsched.Op{Kind: vsched.KSignal, Obj: &c.obj, Write: true,
		Do: func() {
			if len(c.waiters) > 0 {
				c.waiters[0].signalled = true
				c.waiters = c.waiters[1:]
			}
		}})
}

//go:norace
func (c *Cond) Broadcast() {
	if !vsched.Active() {
		if c.real == nil {
			c.real = sync.NewCond(c.L)
		}
		c.real.Broadcast()
		return
	}
	c.init()
	vsched.Do(&vsched.Op{Kind: vsched.KBroadcast, Obj: &c.obj, Write: true,
		Do: func() {
			for _, w := range c.waiters {
				w.signalled = true
			}
			c.waiters = nil
		}})
}

// NWaiters is a probe for harnesses.
//
//go:norace
func (c *Cond) NWaiters() int { return len(c.waiters) }

// ---------------------------------------------------------------------

// WaitGroup models sync.WaitGroup.
type WaitGroup struct {
	obj  vsched.Obj
	n    int
	real sync.WaitGroup
}

//go:norace
func (wg *WaitGroup) Add(delta int) {
	if !vsched.Active() {
		wg.real.Add(delta)
		return
	}
	wg.init()
	if delta < 0 {
		vsched.RaceReleaseMerge(unsafe.Pointer(wg))
	}
	bad := false
	vsched.Do(&vsched.Op{Kind: vsched.KWgAdd, Obj: &wg.obj, Write: true,
		Do: func() {
			wg.n += delta
			if wg.n < 0 {
				bad = true
			}
		}})
	if bad {
		panic("sync: negative WaitGroup counter")
	}
}

func (wg *WaitGroup) Done() { wg.Add(-1) }

//go:norace
func (wg *WaitGroup) init() {
	if wg.obj.State == nil {
		wg.obj.Label = "waitgroup"
		wg.obj.State = wg.state
	}
}

//go:norace
func (wg *WaitGroup) state() uint64 { return uint64(int64(wg.n)) }

//go:norace
func (wg *WaitGroup) Wait() {
	if !vsched.Active() {
		wg.real.Wait()
		return
	}
	wg.init()
	vsched.Do(&vsched.Op{Kind: vsched.KWgWait, Obj: &wg.obj,
		En: func() bool { return wg.n == 0 }})
	vsched.RaceAcquire(unsafe.Pointer(wg))
}

// ---------------------------------------------------------------------

//go:norace
func (o *Once) state() uint64 {
	v := uint64(0)
	if o.done {
		v |= 1
	}
	if o.running {
		v |= 2
	}
	return v
}

// Once models sync.Once.
type Once struct {
	obj     vsched.Obj
	done    bool
	running bool
	real    sync.Once
}

//go:norace
func (o *Once) Do(f func()) {
	if !vsched.Active() {
		o.real.Do(f)
		return
	}
	if o.obj.State == nil {
		o.obj.Label = "once"
		o.obj.State = o.state
	}
	run := false
	vsched.Do(&vsched.Op{Kind: vsched.KOnceEnter, Obj: &o.obj, Write: true,
		En: func() bool { return !o.running },
		Do: func() {
			if !o.done {
				o.running = true
				run = true
			}
		}})
	if !run {
		vsched.RaceAcquire(unsafe.Pointer(o))
		vsched.Observe(0)
		return
	}
	vsched.Observe(1)
	defer func() {
		vsched.RaceRelease(unsafe.Pointer(o))
		vsched.Do(&vsched.Op{Kind: vsched.KOnceExit, Obj: &o.obj, Write: true,
			Do: func() { o.running = false; o.done = true }})
	}()
	f()
}
