// Package vws stands in for github.com/gorilla/websocket in the instrumented
// build of service/websocket.go: a message-framed connection over a vnet pipe,
// so that the websocket bridge (WebsocketHandler.ServeHTTP and its copy
// goroutine) runs under the cooperative scheduler like the rest of the broker.
//
// Only what the bridge uses is modelled: Upgrader.Upgrade, Conn.ReadMessage,
// Conn.WriteMessage, Conn.Close, Conn.RemoteAddr and the two message types.  A
// message travels as one frame [type byte, 4-byte big-endian length, payload]
// written with a single Write; Close closes the underlying pipe, which the
// peer observes as the end of the stream (gorilla: a close error from
// ReadMessage).  The HTTP handshake itself is not modelled: the harness offers
// the server end of a pipe under the request's RemoteAddr and calls ServeHTTP.
package vws

import (
	"encoding/binary"
	"errors"
	"io"
	"net"
	"net/http"
)

const (
	TextMessage   = 1
	BinaryMessage = 2
)

// Upgrader mirrors the fields the bridge sets.
type Upgrader struct {
	Subprotocols []string
	CheckOrigin  func(r *http.Request) bool
}

var offered = map[string]net.Conn{}

// Offer makes c the connection that the next Upgrade of a request with that
// RemoteAddr takes over (harness side).
func Offer(remoteAddr string, c net.Conn) { offered[remoteAddr] = c }

// Reset forgets offers (between executions).
func Reset() { offered = map[string]net.Conn{} }

// Upgrade takes over the offered connection.
func (u *Upgrader) Upgrade(w http.ResponseWriter, r *http.Request, h http.Header) (*Conn, error) {
	if u.CheckOrigin != nil && !u.CheckOrigin(r) {
		return nil, errors.New("websocket: request origin not allowed")
	}
	c, ok := offered[r.RemoteAddr]
	if !ok {
		return nil, errors.New("websocket: the client is not using the websocket protocol")
	}
	delete(offered, r.RemoteAddr)
	return &Conn{c: c}, nil
}

// Conn is one end of a message-framed connection.
type Conn struct {
	c net.Conn
}

// NewConn wraps the client end of the pipe (harness side).
func NewConn(c net.Conn) *Conn { return &Conn{c: c} }

// Underlying returns the pipe (harness side).
func (c *Conn) Underlying() net.Conn { return c.c }

func (c *Conn) readFull(b []byte) error {
	for n := 0; n < len(b); {
		k, err := c.c.Read(b[n:])
		n += k
		if err != nil {
			if n == len(b) {
				return nil
			}
			if err == io.EOF && n > 0 {
				return io.ErrUnexpectedEOF
			}
			return err
		}
	}
	return nil
}

// ReadMessage blocks for the next frame.
func (c *Conn) ReadMessage() (int, []byte, error) {
	var hd [5]byte
	if err := c.readFull(hd[:]); err != nil {
		return -1, nil, err
	}
	p := make([]byte, binary.BigEndian.Uint32(hd[1:]))
	if err := c.readFull(p); err != nil {
		return -1, nil, err
	}
	return int(hd[0]), p, nil
}

// WriteMessage sends one frame.
func (c *Conn) WriteMessage(messageType int, data []byte) error {
	b := make([]byte, 5+len(data))
	b[0] = byte(messageType)
	binary.BigEndian.PutUint32(b[1:], uint32(len(data)))
	copy(b[5:], data)
	_, err := c.c.Write(b)
	return err
}

func (c *Conn) Close() error         { return c.c.Close() }
func (c *Conn) RemoteAddr() net.Addr { return c.c.RemoteAddr() }
func (c *Conn) LocalAddr() net.Addr  { return c.c.LocalAddr() }
