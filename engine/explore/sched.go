// Package explore holds the three search drivers (DESIGN §2.3–2.5).
package explore

import (
	"fmt"
	"os"
	"sort"
	"strings"
	"time"

	"github.com/mdzio/go-mqtt/verifrt/vsched"
)

// Verdict of the per-execution oracle.
type Verdict struct {
	Violation string // empty: property held on this execution
	Outcome   string // a short label; the number of distinct labels is reported as evidence against vacuity
}

// SchedOpts configures a schedule search of one scenario.
type SchedOpts struct {
	Name     string
	Bound    int  // preemption bound, <0: unbounded
	Cache    bool // happens-before state caching
	MaxExecs int  // safety cap (0: none); hitting it clears Exhaustive
	Deadline time.Time
	Shard    int // this worker explores subtree i of n at the first branching levels
	NShards  int
	// Body is thread 0 of every execution.
	Body func()
	// Check is evaluated after each completed execution.
	Check func(r *vsched.Result) Verdict
	// MaxPoints per execution.
	MaxPoints int
	// FallbackBound: when the unbounded search hits MaxExecs, search again with
	// this preemption bound (and no execution cap); <0: no fallback.
	FallbackBound int
	// DataFreeLocks: see vsched.Options.
	DataFreeLocks bool
	// DevBound > 0 additionally bounds the number of points at which a schedule
	// may deviate from the default schedule (preemptive or not).
	DevBound int
	// UseMark: the body runs a set-up phase under the default schedule and
	// then calls vsched.Mark(); only later points are branched on.
	UseMark bool
}

// SchedStats is what a search covered.
type SchedStats struct {
	Name        string
	Executions  int
	Pruned      int
	States      int
	Transitions int
	MaxDepth    int
	MaxThreads  int
	Bound       int
	Exhaustive  bool
	CapHit      string
	Outcomes    map[string]int
	Violation   *Violation
	SampleTrace []int
	Fallback    bool // the unbounded search was capped; numbers are for the bounded one
}

// Violation with everything needed to replay it.
type Violation struct {
	Scenario string
	Message  string
	Choices  []int
	Log      []string
	Parked   []vsched.Parked
	Crash    string
	Trace    []string
}

type item struct {
	prefix []int
	spent  int // preemptions spent inside prefix
	level  int // number of deviations from the default schedule
}

type dfsChooser struct {
	prefix  []int
	visited map[uint64]int8
	cache   bool
	bound   int
	spent   int
	pruned  bool
	states  *int
}

func (c *dfsChooser) Choose(step int, p *vsched.Point) int {
	if step < len(c.prefix) {
		ch := c.prefix[step]
		if p.RunningEnabled && ch != 0 {
			c.spent++
		}
		return ch
	}
	if c.cache && vsched.Cur().Marked() {
		sp := c.spent
		if c.bound < 0 {
			sp = 0 // unbounded search: a state is a state, however it was reached
		}
		if sp > 120 {
			sp = 120
		}
		if old, ok := c.visited[p.Key]; ok && int(old) <= sp {
			c.pruned = true
			return -1
		}
		if _, ok := c.visited[p.Key]; !ok {
			*c.states++
		}
		c.visited[p.Key] = int8(sp)
	}
	return 0
}

// Sched explores all schedules of one scenario within the bound.  When an
// unbounded search hits its execution cap and a fallback bound is given, the
// scenario is searched again completely under that preemption bound; the
// statistics then describe the bounded search (Bound says which).
func Sched(o SchedOpts) SchedStats {
	st := schedOnce(o)
	if st.Violation == nil && !st.Exhaustive && o.Bound < 0 && o.FallbackBound >= 0 && st.CapHit != "time cap" {
		o2 := o
		o2.Bound = o.FallbackBound
		o2.MaxExecs = 0
		st2 := schedOnce(o2)
		st2.Executions += st.Executions
		st2.Transitions += st.Transitions
		st2.Pruned += st.Pruned
		for k, v := range st.Outcomes {
			st2.Outcomes[k] += v
		}
		st2.Fallback = true
		return st2
	}
	return st
}

func schedOnce(o SchedOpts) SchedStats {
	if os.Getenv("VERIF_NOCACHE") != "" {
		o.Cache = false // debugging aid: plain stateless search
	}
	st := SchedStats{Name: o.Name, Bound: o.Bound, Exhaustive: true, Outcomes: map[string]int{}}
	visited := map[uint64]int8{}
	stack := []item{{}}
	if o.NShards <= 0 {
		o.NShards = 1
	}
	for len(stack) > 0 {
		it := stack[len(stack)-1]
		stack = stack[:len(stack)-1]
		if o.MaxExecs > 0 && st.Executions >= o.MaxExecs {
			st.Exhaustive = false
			st.CapHit = fmt.Sprintf("max executions %d", o.MaxExecs)
			break
		}
		if !o.Deadline.IsZero() && st.Executions%64 == 0 && time.Now().After(o.Deadline) {
			st.Exhaustive = false
			st.CapHit = "time cap"
			break
		}
		ch := &dfsChooser{prefix: it.prefix, visited: visited, cache: o.Cache, bound: o.Bound, states: &st.States}
		res := vsched.Run(vsched.Options{Chooser: ch, NeedKeys: o.Cache, MaxPoints: o.MaxPoints, KeyRunning: o.Bound >= 0, DataFreeLocks: o.DataFreeLocks, UseMark: o.UseMark}, o.Body)
		st.Executions++
		st.Transitions += len(res.Points)
		if len(res.Points) > st.MaxDepth {
			st.MaxDepth = len(res.Points)
		}
		if res.NThreads > st.MaxThreads {
			st.MaxThreads = res.NThreads
		}
		switch res.Status {
		case vsched.StDiverged:
			panic(fmt.Sprintf("ENGINE-ERROR: scenario %s: replay diverged: %s (prefix %v)", o.Name, res.Diverged, it.prefix))
		case vsched.StHorizon:
			// The bodies need a few thousand scheduling points; one that is still
			// running at the horizon (set far above that) without any further input
			// from the harness has a goroutine that spins or a set of goroutines
			// that keep waking each other: a livelock, reported as such.
			st.Violation = &Violation{Scenario: o.Name, Message: fmt.Sprintf("no quiescence: still running after %d scheduling points without further input (a goroutine spins, or goroutines keep waking each other)", len(res.Points)),
				Choices: append([]int{}, res.Choices[:min(len(res.Choices), 4000)]...), Log: res.Log}
			return st
		case vsched.StPruned:
			st.Pruned++
			// failures recorded before the merge point still count
			if len(res.Failures) > 0 {
				v := o.Check(res)
				if v.Violation != "" {
					st.Violation = &Violation{Scenario: o.Name, Message: v.Violation, Choices: append([]int{}, res.Choices...), Log: res.Log}
					return st
				}
			}
		default:
			v := o.Check(res)
			st.Outcomes[v.Outcome]++
			if st.SampleTrace == nil {
				st.SampleTrace = append([]int{}, res.Choices...)
			}
			if v.Violation != "" {
				st.Violation = &Violation{Scenario: o.Name, Message: v.Violation, Choices: append([]int{}, res.Choices...),
					Log: res.Log, Parked: res.Parked, Crash: res.Crash}
				return st
			}
		}
		// children: every alternative at every point beyond the prefix
		spent := 0
		for i, p := range res.Points {
			if i >= len(it.prefix) && i >= res.Mark {
				for alt := 1; alt < p.NEnabled; alt++ {
					cost := spent
					if p.RunningEnabled {
						cost++
					}
					if o.Bound >= 0 && cost > o.Bound {
						continue
					}
					lvl := it.level + 1
					if o.DevBound > 0 && lvl > o.DevBound {
						continue
					}
					if lvl == 1 && o.NShards > 1 {
						// shard on the first deviation from the default schedule: the root
						// execution is run by every worker, each level-1 subtree by one
						h := uint64(14695981039346656037)
						h = (h ^ uint64(i+1)) * 1099511628211
						h = (h ^ uint64(alt+77)) * 1099511628211
						h ^= h >> 29
						if int(h%uint64(o.NShards)) != o.Shard {
							continue
						}
					}
					np := make([]int, i+1)
					copy(np, res.Choices[:i])
					np[i] = alt
					stack = append(stack, item{prefix: np, spent: cost, level: lvl})
				}
			}
			if p.Preempt {
				spent++
			}
		}
	}
	return st
}

// Replay runs one choice sequence (then the default schedule) with tracing.
func Replay(body func(), choices []int) *vsched.Result {
	ch := &dfsChooser{prefix: choices, visited: nil}
	return vsched.Run(vsched.Options{Chooser: ch, Trace: true}, body)
}

// RunDefault executes body under the default (non-preemptive, lowest-id) schedule.
func RunDefault(body func()) *vsched.Result {
	return vsched.Run(vsched.Options{}, body)
}

// SameObservations compares the observable part of two executions of one
// choice sequence (determinism self-check).
func SameObservations(a, b *vsched.Result) string {
	if a.Status != b.Status {
		return fmt.Sprintf("status %s vs %s", a.Status, b.Status)
	}
	if len(a.Points) != len(b.Points) {
		return fmt.Sprintf("%d vs %d points", len(a.Points), len(b.Points))
	}
	for i := range a.Points {
		if a.Points[i].Thread != b.Points[i].Thread || a.Points[i].Kind != b.Points[i].Kind || a.Points[i].NEnabled != b.Points[i].NEnabled {
			return fmt.Sprintf("point %d: %v vs %v", i, a.Points[i], b.Points[i])
		}
	}
	if strings.Join(a.Log, "\n") != strings.Join(b.Log, "\n") {
		return "observation logs differ"
	}
	return ""
}

// OutcomeList renders the outcome histogram deterministically.
func OutcomeList(m map[string]int) []string {
	var ks []string
	for k := range m {
		ks = append(ks, k)
	}
	sort.Strings(ks)
	var out []string
	for _, k := range ks {
		out = append(out, fmt.Sprintf("%s=%d", k, m[k]))
	}
	return out
}
