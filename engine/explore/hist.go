package explore

import (
	"fmt"
	"strings"
	"time"
)

// HistOpts configures a breadth-first search over operation histories.  A
// state is the history that reaches it: Run builds a fresh instance of the
// real object, replays the history on it and on the reference model, compares
// them after every step and returns the canonical key of the final state.
type HistOpts struct {
	Name     string
	NOps     int
	OpName   func(i int) string
	Run      func(hist []int) (violation string, key string, steps int)
	MaxDepth int
	// Dedup: expand only the first history that reaches a canonical key.
	Dedup bool
	// Shard on the first operation(s).
	Shard, NShards int
	Deadline       time.Time
	// Enabled filters operations per history (nil: all).
	Enabled func(hist []int, op int) bool
	// Differential: the same key reached twice must give the same probe
	// answers; Run returns them as part of the key in that case.
}

// HistStats is what the search covered.
type HistStats struct {
	Name        string
	States      int
	Histories   int
	Transitions int // operations executed on the real code
	DepthDone   int
	Exhaustive  bool // fixpoint reached (with Dedup) or all histories up to MaxDepth run
	Fixpoint    bool
	CapHit      string
	Violation   string
	Hist        []int
}

// Hist runs the search.
func Hist(o HistOpts) HistStats {
	st := HistStats{Name: o.Name, Exhaustive: true}
	seen := map[string]bool{}
	frontier := [][]int{{}}
	if o.NShards <= 0 {
		o.NShards = 1
	}
	n := 0
	sharded := o.NShards <= 1
	for depth := 1; depth <= o.MaxDepth && len(frontier) > 0; depth++ {
		var next [][]int
		// before the frontier is split every worker runs the same levels; only
		// worker 0 counts them
		count := sharded || o.Shard == 0
		for _, h := range frontier {
			for op := 0; op < o.NOps; op++ {
				if o.Enabled != nil && !o.Enabled(h, op) {
					continue
				}
				n++
				if n%256 == 0 && !o.Deadline.IsZero() && time.Now().After(o.Deadline) {
					st.Exhaustive = false
					st.CapHit = "time cap"
					return st
				}
				nh := make([]int, len(h)+1)
				copy(nh, h)
				nh[len(h)] = op
				viol, key, steps := o.Run(nh)
				if count {
					st.Histories++
					st.Transitions += steps
				}
				if viol != "" {
					st.Violation = viol
					st.Hist = nh
					return st
				}
				if strings.HasPrefix(key, "DEAD-END") || strings.HasPrefix(key, "DIVERGED") {
					// the history cannot be continued meaningfully
					continue
				}
				if o.Dedup {
					if seen[key] {
						continue
					}
					seen[key] = true
				}
				if count {
					st.States++
				}
				next = append(next, nh)
			}
		}
		st.DepthDone = depth
		if !sharded && len(next) >= 2*o.NShards {
			// split the frontier: from here on every worker explores its own part
			var mine [][]int
			for i, h := range next {
				if i%o.NShards == o.Shard {
					mine = append(mine, h)
				}
			}
			next = mine
			sharded = true
		}
		frontier = next
	}
	if len(frontier) == 0 {
		st.Fixpoint = true
	} else if o.Dedup {
		// depth bound reached before the fixpoint
		st.CapHit = fmt.Sprintf("depth %d", o.MaxDepth)
	}
	return st
}

// HistString renders a history.
func HistString(o HistOpts, h []int) string {
	s := ""
	for i, op := range h {
		if i > 0 {
			s += " ; "
		}
		s += o.OpName(op)
	}
	return s
}
