#!/bin/bash
# dev helper: rebuild instrumentation + worker, run all shards of a property in parallel, summarize
export GOFLAGS=-mod=mod GOPROXY=off GOSUMDB=off GOTOOLCHAIN=local
cd /verif
prop=$1; tier=${2:-quick}; n=${3:-16}
go run ./cmd/vcheck >/dev/null && go build -tags verif -overlay .work/dev/overlay.json -o .work/dev/worker ./harness/cmd/worker || exit 2
rm -f .work/dev/out-*.json
start=$(date +%s.%N)
for i in $(seq 0 $((n-1))); do
  GOMAXPROCS=2 ./.work/dev/worker -prop $prop -tier $tier -shard $i -nshards $n -out .work/dev/out-$i.json ${KNOWN:+-known $KNOWN} ${BUDGET:+-budget $BUDGET} &
done
wait
end=$(date +%s.%N)
echo "wall: $(echo "$end - $start" | bc)"
jq -s '{scenarios: (map(.scenarios)|add), executions:(map(.executions)|add), states:(map(.states)|add), transitions:(map(.transitions)|add), exhaustive:(map(.exhaustive)|all), caps:(map(.caps // [])|add|unique), nviol:(map(.violations // []|length)|add), known:(map(.known_hits|length)|add), engine:(map(.engine_errors // [])|add), outcomes: (map(.outcomes|keys|length)|add)}' .work/dev/out-*.json
jq -r '.violations // [] | .[] | .key' .work/dev/out-*.json | sort | uniq -c | head -${SHOW:-20}
