// Command vcheck is the coordinator behind ./check: it instruments /repo's
// current working tree, builds the worker with the hooks enabled, runs the
// shards of one property check in parallel, merges their reports, writes the
// evidence file and decides the exit code (DESIGN §8).
package main

import (
	"bytes"
	"crypto/sha1"
	"encoding/json"
	"flag"
	"fmt"
	"os"
	"os/exec"
	"path/filepath"
	"runtime"
	"sort"
	"strconv"
	"strings"
	"sync"
	"time"

	"verif/engine/instr"
	core "verif/rep"
)

// verifDir is /verif; VERIF_DIR points a background run at a snapshot of it
// (vp run), so that long sweeps do not read half-edited sources or overwrite
// the evidence of the registered checks.
var verifDir = func() string {
	if d := os.Getenv("VERIF_DIR"); d != "" {
		return d
	}
	return "/verif"
}()

// repoDir is the tree under test.  It is /repo; the seeding tools point
// VERIF_REPO at a scratch worktree to try a changed tree without touching
// /repo (such runs write no evidence).
var repoDir = func() string {
	if d := os.Getenv("VERIF_REPO"); d != "" {
		return d
	}
	return "/repo"
}()

func altRepo() bool { return repoDir != "/repo" }

type propInfo struct {
	Level     string
	RaceBuild bool
	QuickCap  time.Duration // internal time cap (exit 0, exhaustive:false when hit)
	ThorCap   time.Duration
	Assume    []string
}

var props = map[string]propInfo{}

func init() {
	common := []string{
		"the Go compiler/runtime and the verifrt shims reproduce the blocking semantics of sync, sync/atomic, net.Conn and read deadlines",
		"schedules are explored at lock/cond/waitgroup/atomic/channel/socket granularity under sequential consistency; unsynchronised plain accesses are the business of C18",
		"the source rewriter (imports, go statements, channel points, net/time seams, sorted map iteration) preserves the semantics of the repository code",
	}
	for i := 1; i <= 20; i++ {
		id := fmt.Sprintf("C%02d", i)
		props[id] = propInfo{Level: "model_checking", QuickCap: 240 * time.Second, ThorCap: 25 * time.Minute, Assume: common}
	}
	p := props["C18"]
	p.RaceBuild = true
	props["C18"] = p
}

func die(code int, format string, a ...interface{}) {
	fmt.Fprintf(os.Stderr, format+"\n", a...)
	os.Exit(code)
}

type knownFinding struct {
	Prop, Key, Text string
}

func loadKnown() []knownFinding {
	b, err := os.ReadFile(filepath.Join(verifDir, "known_findings.txt"))
	if err != nil {
		return nil
	}
	var out []knownFinding
	for _, l := range strings.Split(string(b), "\n") {
		l = strings.TrimSpace(l)
		if !strings.HasPrefix(l, "finding:") {
			continue
		}
		rest := strings.TrimSpace(strings.TrimPrefix(l, "finding:"))
		// finding: property=Cxx key=<fingerprint> || <text>
		parts := strings.SplitN(rest, " || ", 2)
		head := parts[0]
		text := ""
		if len(parts) == 2 {
			text = parts[1]
		}
		if !strings.HasPrefix(head, "property=") {
			continue
		}
		sp := strings.SplitN(head, " key=", 2)
		if len(sp) != 2 {
			continue
		}
		out = append(out, knownFinding{Prop: strings.TrimPrefix(sp[0], "property="), Key: sp[1], Text: text})
	}
	return out
}

func main() {
	if len(os.Args) < 2 {
		die(2, "usage: check <Cxx> [--tier quick|thorough] [--seed N] [--replay file] [--workers N] [--budget dur] | check build")
	}
	prop := os.Args[1]
	fs := flag.NewFlagSet("check", flag.ExitOnError)
	tier := fs.String("tier", envOr("VERIF_TIER", "quick"), "quick|thorough")
	seedDef, _ := strconv.ParseInt(envOr("VERIF_SEED", "0"), 10, 64)
	seed := fs.Int64("seed", seedDef, "seed for enumeration order of capped runs")
	replay := fs.String("replay", "", "replay file")
	workers := fs.Int("workers", runtime.NumCPU(), "worker processes")
	budget := fs.Duration("budget", 0, "override the internal time cap")
	keep := fs.Bool("keep", false, "keep the work directory")
	logLvl := fs.String("log", "off", "library log level in replays")
	fs.Parse(os.Args[2:])
	if prop == "build" {
		// setup: warm the build caches
		wd := filepath.Join(verifDir, ".work", "setup")
		for _, race := range []bool{false, true} {
			if _, err := buildWorker(wd, race); err != nil {
				die(2, "ENGINE-ERROR: build failed: %v", err)
			}
		}
		os.RemoveAll(wd)
		fmt.Println("setup ok")
		return
	}
	info, ok := props[prop]
	if !ok {
		die(2, "unknown property %s", prop)
	}
	if *tier != "quick" && *tier != "thorough" {
		die(2, "bad tier %s", *tier)
	}
	start := time.Now()
	wd := filepath.Join(verifDir, ".work", fmt.Sprintf("%s-%s-%d", prop, *tier, os.Getpid()))
	defer func() {
		if !*keep {
			os.RemoveAll(wd)
		}
	}()
	bin, err := buildWorker(wd, info.RaceBuild)
	if err != nil {
		os.RemoveAll(wd)
		die(2, "ENGINE-ERROR: cannot build the worker from /repo's working tree with hooks enabled:\n%v", err)
	}
	if *replay != "" {
		cmd := exec.Command(bin, "-prop", prop, "-tier", "thorough", "-replay", *replay, "-log", *logLvl)
		cmd.Stdout, cmd.Stderr = os.Stdout, os.Stderr
		err := cmd.Run()
		if !*keep {
			os.RemoveAll(wd)
		}
		if err != nil {
			os.Exit(2)
		}
		return
	}
	// known findings of this property
	var known []knownFinding
	for _, k := range loadKnown() {
		if k.Prop == prop {
			known = append(known, k)
		}
	}
	knownFile := filepath.Join(wd, "known.txt")
	var kb bytes.Buffer
	for _, k := range known {
		kb.WriteString(k.Key + "\n")
	}
	os.WriteFile(knownFile, kb.Bytes(), 0o644)

	cap := info.QuickCap
	if *tier == "thorough" {
		cap = info.ThorCap
	}
	if *budget > 0 {
		cap = *budget
	}
	n := *workers
	reports := make([]*core.Report, n)
	errs := make([]string, n)
	var wg sync.WaitGroup
	for i := 0; i < n; i++ {
		wg.Add(1)
		go func(i int) {
			defer wg.Done()
			out := filepath.Join(wd, fmt.Sprintf("shard-%d.json", i))
			cmd := exec.Command(bin, "-prop", prop, "-tier", *tier, "-shard", strconv.Itoa(i), "-nshards", strconv.Itoa(n),
				"-seed", strconv.FormatInt(*seed, 10), "-out", out, "-known", knownFile, "-budget", cap.String())
			cmd.Env = append(os.Environ(), "GOMAXPROCS=2", "GOGC=200")
			if info.RaceBuild {
				cmd.Env = append(cmd.Env, "GORACE=halt_on_error=0 exitcode=0 log_path="+filepath.Join(wd, fmt.Sprintf("race-%d", i)))
			}
			var stderr bytes.Buffer
			cmd.Stderr = &stderr
			cmd.Stdout = &stderr
			if err := cmd.Run(); err != nil {
				errs[i] = fmt.Sprintf("shard %d: %v\n%s", i, err, tailStr(stderr.String(), 6000))
				return
			}
			b, err := os.ReadFile(out)
			if err != nil {
				errs[i] = fmt.Sprintf("shard %d: %v", i, err)
				return
			}
			var r core.Report
			if err := json.Unmarshal(b, &r); err != nil {
				errs[i] = fmt.Sprintf("shard %d: %v", i, err)
				return
			}
			reports[i] = &r
		}(i)
	}
	wg.Wait()
	for _, e := range errs {
		if e != "" {
			fmt.Fprintln(os.Stderr, "ENGINE-ERROR:", e)
			os.RemoveAll(wd)
			os.Exit(2)
		}
	}
	// merge
	m := core.NewReport(prop)
	viol := map[string]core.Violation{}
	for _, r := range reports {
		m.Scenarios += r.Scenarios
		m.Executions += r.Executions
		m.Pruned += r.Pruned
		m.States += r.States
		m.Transitions += r.Transitions
		m.Evaluations += r.Evaluations
		m.Nontrivial += r.Nontrivial
		m.FullScenarios += r.FullScenarios
		m.BoundedScenarios += r.BoundedScenarios
		m.DetChecks += r.DetChecks
		if r.MaxDepth > m.MaxDepth {
			m.MaxDepth = r.MaxDepth
		}
		if !r.Exhaustive {
			m.Exhaustive = false
		}
		for _, c := range r.Caps {
			m.AddCap(c)
		}
		for k, v := range r.Outcomes {
			m.Outcomes[k] += v
		}
		for k, v := range r.KnownHits {
			m.KnownHits[k] += v
		}
		for _, s := range r.Samples {
			m.Sample(s)
		}
		for _, v := range r.Violations {
			if _, dup := viol[v.Key]; !dup {
				viol[v.Key] = v
			}
		}
		m.EngineErrors = append(m.EngineErrors, r.EngineErrors...)
		m.Notes = append(m.Notes, r.Notes...)
		m.Heaviest = append(m.Heaviest, r.Heaviest...)
		if r.Bound != "" {
			m.Bound = r.Bound
		}
		if r.Rule != "" {
			m.Rule = r.Rule
		}
	}
	if len(m.EngineErrors) > 0 {
		for _, e := range m.EngineErrors {
			fmt.Fprintln(os.Stderr, "ENGINE-ERROR:", e)
		}
		os.RemoveAll(wd)
		os.Exit(2)
	}
	sort.Slice(m.Heaviest, func(i, j int) bool { return m.Heaviest[i].Executions > m.Heaviest[j].Executions })
	if len(m.Heaviest) > 5 {
		m.Heaviest = m.Heaviest[:5]
	}
	wall := time.Since(start).Seconds()
	// violations -> replay files
	var vkeys []string
	for k := range viol {
		vkeys = append(vkeys, k)
	}
	sort.Strings(vkeys)
	rdir := filepath.Join(verifDir, "replays", prop)
	for _, k := range vkeys {
		v := viol[k]
		os.MkdirAll(rdir, 0o755)
		h := sha1.Sum([]byte(k))
		path := filepath.Join(rdir, fmt.Sprintf("%x.json", h[:6]))
		b, _ := json.MarshalIndent(v.Replay, "", " ")
		os.WriteFile(path, b, 0o644)
		fmt.Printf("VIOLATION property=%s replay=%s\n", prop, path)
		fmt.Printf("  %s\n  %s\n", v.Replay.Scenario, v.Replay.Message)
	}
	for _, k := range known {
		if m.KnownHits[k.Key] > 0 {
			fmt.Printf("KNOWN-FINDING: property=%s %s\n", prop, k.Text)
		} else {
			fmt.Printf("note: listed finding not reproduced in this run (key=%s)\n", k.Key)
		}
	}
	writeEvidence(prop, *tier, *seed, info, m, wall, len(vkeys))
	fmt.Printf("%s %s: scenarios=%d executions=%d states=%d transitions=%d evaluations=%d exhaustive=%v caps=%v distinct_outcomes=%d wall=%.1fs violations=%d known=%d\n",
		prop, *tier, m.Scenarios, m.Executions, m.States, m.Transitions, m.Evaluations, m.Exhaustive, m.Caps, len(m.Outcomes), wall, len(vkeys), len(m.KnownHits))
	if len(vkeys) > 0 {
		if !*keep {
			os.RemoveAll(wd)
		}
		os.Exit(1)
	}
}

func envOr(k, d string) string {
	if v := os.Getenv(k); v != "" {
		return v
	}
	return d
}

func tailStr(s string, n int) string {
	if len(s) <= n {
		return s
	}
	return s[len(s)-n:]
}

func goEnv() []string {
	env := os.Environ()
	env = append(env, "GOFLAGS=-mod=mod", "GOPROXY=off", "GOSUMDB=off", "GOTOOLCHAIN=local", "CGO_ENABLED=1")
	return env
}

// buildWorker instruments /repo's working tree and builds the worker binary.
func buildWorker(wd string, race bool) (string, error) {
	os.RemoveAll(wd)
	ov, _, err := instr.Build(instr.Options{Repo: repoDir, Verif: verifDir, WorkDir: wd,
		ExtraInject: map[string]string{
			"service/zz_verif_export.go":  filepath.Join(verifDir, "engine/inject/service_export.go.txt"),
			"message/zz_verif_export.go":  filepath.Join(verifDir, "engine/inject/message_export.go.txt"),
			"sessions/zz_verif_export.go": filepath.Join(verifDir, "engine/inject/sessions_export.go.txt"),
			"topics/zz_verif_export.go":   filepath.Join(verifDir, "engine/inject/topics_export.go.txt"),
		}})
	if err != nil {
		return "", err
	}
	// go.sum of the repository may have changed with the working tree
	if b, err := os.ReadFile(filepath.Join(repoDir, "go.sum")); err == nil && !altRepo() {
		os.WriteFile(filepath.Join(verifDir, "go.sum"), b, 0o644)
	}
	bin := filepath.Join(wd, "worker")
	args := []string{"build", "-tags", "verif", "-overlay", ov, "-o", bin}
	if os.Getenv("VERIF_COVER") != "" {
		// statement coverage of the repository under a check (tools/cover.sh): the
		// cover tool does not read through an overlay, so the overlay is applied
		// to a physical copy of the tree and the worker is built from that
		mat, err := materialise(ov, filepath.Join(wd, "mat"))
		if err != nil {
			return "", err
		}
		gm, err := os.ReadFile(filepath.Join(verifDir, "go.mod"))
		if err != nil {
			return "", err
		}
		mf := filepath.Join(wd, "alt.mod")
		os.WriteFile(mf, bytes.Replace(gm, []byte("=> /repo"), []byte("=> "+mat), 1), 0o644)
		if gs, err := os.ReadFile(filepath.Join(verifDir, "go.sum")); err == nil {
			os.WriteFile(filepath.Join(wd, "alt.sum"), gs, 0o644)
		}
		args = []string{"build", "-tags", "verif", "-o", bin, "-modfile", mf, "-cover",
			"-coverpkg=github.com/mdzio/go-mqtt/message,github.com/mdzio/go-mqtt/service,github.com/mdzio/go-mqtt/sessions,github.com/mdzio/go-mqtt/topics,github.com/mdzio/go-mqtt/auth,verif/harness/cmd/worker"}
	} else if altRepo() {
		// the module replacement has to point at the other tree
		gm, err := os.ReadFile(filepath.Join(verifDir, "go.mod"))
		if err != nil {
			return "", err
		}
		mf := filepath.Join(wd, "alt.mod")
		os.WriteFile(mf, bytes.Replace(gm, []byte("=> /repo"), []byte("=> "+repoDir), 1), 0o644)
		if gs, err := os.ReadFile(filepath.Join(verifDir, "go.sum")); err == nil {
			os.WriteFile(filepath.Join(wd, "alt.sum"), gs, 0o644)
		}
		args = append(args, "-modfile", mf)
	}
	if race {
		args = append(args, "-race")
	}
	args = append(args, "./harness/cmd/worker")
	cmd := exec.Command("go", args...)
	cmd.Dir = verifDir
	cmd.Env = goEnv()
	var out bytes.Buffer
	cmd.Stdout, cmd.Stderr = &out, &out
	if err := cmd.Run(); err != nil {
		return "", fmt.Errorf("%v\n%s", err, out.String())
	}
	return bin, nil
}

// materialise copies the tree under test to dst and applies the overlay to the copy.
func materialise(overlay, dst string) (string, error) {
	b, err := os.ReadFile(overlay)
	if err != nil {
		return "", err
	}
	var ov struct{ Replace map[string]string }
	if err := json.Unmarshal(b, &ov); err != nil {
		return "", err
	}
	if out, err := exec.Command("rsync", "-a", "--exclude", ".git", repoDir+"/", dst+"/").CombinedOutput(); err != nil {
		return "", fmt.Errorf("rsync: %v %s", err, out)
	}
	for orig, repl := range ov.Replace {
		rel, err := filepath.Rel(repoDir, orig)
		if err != nil || strings.HasPrefix(rel, "..") {
			return "", fmt.Errorf("overlay entry outside the tree: %s", orig)
		}
		to := filepath.Join(dst, rel)
		if repl == "" {
			os.Remove(to)
			continue
		}
		c, err := os.ReadFile(repl)
		if err != nil {
			return "", err
		}
		os.MkdirAll(filepath.Dir(to), 0o755)
		if err := os.WriteFile(to, c, 0o644); err != nil {
			return "", err
		}
	}
	return dst, nil
}

func writeEvidence(prop, tier string, seed int64, info propInfo, m *core.Report, wall float64, nviol int) {
	type ev struct {
		PropertyID  string                 `json:"property_id"`
		Tier        string                 `json:"tier"`
		Seed        int64                  `json:"seed"`
		Level       string                 `json:"level"`
		Coverage    map[string]interface{} `json:"coverage"`
		Assumptions []string               `json:"assumptions"`
		WallS       float64                `json:"wall_s"`
		Violations  int                    `json:"violations"`
	}
	cov := map[string]interface{}{}
	states := m.States
	trans := m.Transitions
	traces := m.Executions
	if states == 0 {
		states = m.Nontrivial
	}
	if trans == 0 {
		trans = m.Evaluations
	}
	if traces == 0 {
		traces = m.Evaluations
	}
	evals := m.Evaluations
	if evals == 0 {
		evals = m.Executions
	}
	cov["states"] = states
	cov["transitions"] = trans
	cov["traces_validated_against_impl"] = traces
	cov["evaluations"] = evals
	cov["distinct_nontrivial"] = m.Nontrivial
	cov["distinct_outcomes"] = len(m.Outcomes)
	cov["rule"] = m.Rule
	cov["bound"] = m.Bound
	cov["exhaustive"] = m.Exhaustive
	cov["caps_hit"] = m.Caps
	cov["scenarios"] = m.Scenarios
	cov["scenarios_complete_in_primary_bound"] = m.FullScenarios
	cov["scenarios_searched_under_fallback_preemption_bound"] = m.BoundedScenarios
	cov["executions"] = m.Executions
	cov["executions_pruned_at_visited_state"] = m.Pruned
	cov["max_points_in_one_execution"] = m.MaxDepth
	cov["determinism_self_checks"] = m.DetChecks
	cov["known_findings_reproduced"] = len(m.KnownHits)
	cov["heaviest_scenarios"] = m.Heaviest
	if len(m.Notes) > 0 {
		cov["notes"] = dedup(m.Notes)
	}
	samples := m.Samples
	if len(samples) == 0 {
		samples = []interface{}{"(no sample recorded)"}
	}
	cov["samples"] = samples
	cov["explanation"] = "every count is measured by this run; 'states' are distinct state keys summed over scenarios/workers, 'transitions' are scheduling points or operations executed on the real code, 'traces_validated_against_impl' = executions of the real code (there is no separate model to conform to: the implementation itself is explored)"
	e := ev{PropertyID: prop, Tier: tier, Seed: seed, Level: info.Level, Coverage: cov, Assumptions: info.Assume, WallS: wall, Violations: nviol}
	b, _ := json.MarshalIndent(e, "", " ")
	if altRepo() {
		return
	}
	os.MkdirAll(filepath.Join(verifDir, "evidence"), 0o755)
	os.WriteFile(filepath.Join(verifDir, "evidence", prop+".json"), b, 0o644)
}

func dedup(s []string) []string {
	seen := map[string]bool{}
	var out []string
	for _, x := range s {
		if !seen[x] {
			seen[x] = true
			out = append(out, x)
		}
	}
	return out
}
