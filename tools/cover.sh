#!/bin/bash
# tools/cover.sh [Cxx ...]: statement coverage of the repository's packages under the
# quick tier of the named checks (all by default).  A debugging aid for finding code no
# check executes; writes /tmp/verif-cover/{data,cover.txt,uncovered.txt}.  Runs against a
# scratch worktree of /repo's HEAD (no evidence is written).
export GOFLAGS=-mod=mod GOPROXY=off GOSUMDB=off GOTOOLCHAIN=local
cd /verif || exit 2
props=${@:-C01 C02 C03 C04 C05 C06 C07 C08 C09 C10 C11 C12 C13 C14 C15 C16 C17 C19 C20}
out=/tmp/verif-cover; rm -rf $out; mkdir -p $out/data
wt=/tmp/verif-cover-repo
git -C /repo worktree remove --force $wt 2>/dev/null
git -C /repo worktree add -q --detach $wt HEAD || exit 2
for p in $props; do
  VERIF_COVER=1 GOCOVERDIR=$out/data VERIF_REPO=$wt ./check $p --tier quick 2>&1 | tail -1 | cut -c1-160
done
git -C /repo worktree remove --force $wt
go tool covdata percent -i=$out/data | grep -v verif/
go tool covdata textfmt -i=$out/data -o=$out/cover.txt
# uncovered blocks of the repository, merged per file:line range
python3 - <<'PY'
import re,collections
unc=collections.defaultdict(list)
for l in open('/tmp/verif-cover/cover.txt'):
    m=re.match(r'(.*):(\d+)\.\d+,(\d+)\.\d+ (\d+) (\d+)$',l.strip())
    if not m or 'verif/' in m.group(1) or 'zz_verif' in m.group(1): continue
    if int(m.group(5))==0: unc[m.group(1)].append((int(m.group(2)),int(m.group(3))))
with open('/tmp/verif-cover/uncovered.txt','w') as f:
    for fn in sorted(unc):
        for a,b in sorted(set(unc[fn])): f.write(f"{fn}:{a}-{b}\n")
print("uncovered blocks:",sum(len(set(v)) for v in unc.values()))
PY
