#!/usr/bin/env python3
"""tools/mut.py [--no-baseline] FILE 'OLD' 'NEW' PROP [PROP...] : apply a one-spot edit (must match exactly
once) to a scratch worktree of /repo's HEAD, run the baseline there and the quick checks of the given
properties against it (VERIF_REPO), then remove the worktree.  /repo is not touched.  For validating the checks."""
import sys, subprocess, os, tempfile
args = sys.argv[1:]
nobase = '--no-baseline' in args
args = [a for a in args if a != '--no-baseline']
fn, old, new, props = args[0], args[1], args[2], args[3:]
alt = tempfile.mkdtemp(prefix='mut-', dir='/tmp'); os.rmdir(alt)
subprocess.run(['git', '-C', '/repo', 'worktree', 'add', '-q', '--detach', alt, 'HEAD'], check=True)
try:
    p = os.path.join(alt, fn)
    s = open(p).read()
    old = old.encode().decode('unicode_escape'); new = new.encode().decode('unicode_escape')
    if s.count(old) != 1:
        print('pattern occurs', s.count(old), 'times'); sys.exit(2)
    open(p, 'w').write(s.replace(old, new))
    env = dict(os.environ, GOFLAGS='-mod=mod', GOPROXY='off', GOSUMDB='off', GOTOOLCHAIN='local')
    b = subprocess.run(['go', 'build', './...'], cwd=alt, env=env, capture_output=True, text=True)
    if b.returncode != 0:
        print('does not build:', b.stderr[-400:]); sys.exit(2)
    if not nobase:
        b = subprocess.run(['/verif/tools/baseline.sh', alt], capture_output=True, text=True)
        print('baseline:', b.stdout.strip().splitlines()[0] if b.stdout else b.stderr[-300:])
    for pr in props:
        r = subprocess.run(['/verif/check', pr, '--tier', 'quick'], capture_output=True, text=True, cwd='/verif', env=dict(env, VERIF_REPO=alt))
        lines = [l for l in r.stdout.splitlines() if l.startswith('VIOLATION') or l.startswith('  ')][:4]
        print(f'{pr}: exit={r.returncode}', '| '.join(l.strip()[:160] for l in lines), r.stderr[-300:] if r.returncode == 2 else '')
finally:
    subprocess.run(['git', '-C', '/repo', 'worktree', 'remove', '--force', alt])
