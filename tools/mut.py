#!/usr/bin/env python3
"""tools/mut.py FILE 'OLD' 'NEW' PROP [PROP...] : apply a one-spot edit to /repo (must match exactly once),
run the baseline and the quick checks of the given properties, then revert.  For validating the checks."""
import sys, subprocess, os
fn, old, new, props = sys.argv[1], sys.argv[2], sys.argv[3], sys.argv[4:]
p = os.path.join('/repo', fn)
s = open(p).read()
old = old.encode().decode('unicode_escape'); new = new.encode().decode('unicode_escape')
if s.count(old) != 1:
    print('pattern occurs', s.count(old), 'times'); sys.exit(2)
open(p, 'w').write(s.replace(old, new))
try:
    b = subprocess.run(['/verif/tools/baseline.sh'], capture_output=True, text=True)
    print('baseline:', b.stdout.strip().splitlines()[0] if b.stdout else b.stderr[-300:])
    for pr in props:
        r = subprocess.run(['/verif/check', pr, '--tier', 'quick'], capture_output=True, text=True, cwd='/verif')
        lines = [l for l in r.stdout.splitlines() if l.startswith('VIOLATION') or l.startswith('  ')][:4]
        print(f'{pr}: exit={r.returncode}', '| '.join(l.strip()[:160] for l in lines), r.stderr[-300:] if r.returncode == 2 else '')
finally:
    subprocess.run(['git', '-C', '/repo', 'checkout', '--', '.'])
