#!/usr/bin/env python3
"""Regenerates /verif/MANIFEST.json from the table below (single source of truth
for which properties are claimed)."""
import json, sys

CLAIMED = {
 # id: (technique, level text, level note, design ref)
 "C14": ("stateless schedule exploration of the real ring buffer under a cooperative scheduler, all interleavings with state caching, position-hash stream oracle",
         "Every interleaving (no preemption bound; scenarios whose state space exceeds the cap fall back to all schedules with <=2 preemptions, counted separately) of every producer/consumer program pair over a small operation alphabet with wrap positions and prefill, on the real service.buffer; the oracle checks every obtained byte against its stream position and re-checks peeked slices before commit.",
         "Bounded to programs of <=2 (quick) / <=3 (thorough) operations per side and the chunk sizes listed in the evidence; sequentially consistent interleavings at lock/cond/atomic granularity; state keys treat the ring's mutexes as data-free (all its shared words are atomics).", "DESIGN §5 C14"),
 "C15": ("stateless schedule exploration of the real ring buffer, all interleavings, deadlock/lost-wake-up detection on every terminal state",
         "Every interleaving of one producer call, one consumer call and up to two closers (Close once or twice) from empty/partial/full/wrapped states on the real service.buffer; on every terminal state: no thread parked, both internal mutexes free, and a battery of later calls returns.",
         "Bounded to one call in progress per side plus feed/drain; sequentially consistent interleavings at lock/cond/atomic granularity.", "DESIGN §5 C15"),
}

NOT_YET = "check not built yet in this session; planned per DESIGN.md §5 (same engine)"

def main():
    props=[json.loads(l) for l in open('/verif/properties.jsonl')]
    checks=[]; na=[]
    for p in props:
        pid=p['id']
        if pid in CLAIMED:
            tech,text,note,ref=CLAIMED[pid]
            checks.append({
              "property_id":pid,
              "quick_cmd":f"./check {pid} --tier quick",
              "thorough_cmd":f"./check {pid} --tier thorough",
              "evidence_file":f"/verif/evidence/{pid}.json",
              "replay_cmd_template":f"./check {pid} --replay {{path}}",
              "engine":"verifrt+explore",
              "level_claimed":{"category":"model_checking","text":text,"design_ref":ref},
              "level_note":note,
              "technique":tech})
        else:
            na.append({"property_id":pid,"reason":NOT_YET})
    m={"version":1,
       "setup_cmd":"./check build",
       "hooks":{"guard":"verif",
                "enable":"go build -tags verif -overlay <generated overlay.json> (generated at check time by engine/instr from /repo's working tree; nothing is committed to /repo)",
                "baseline_off_cmd":"/verif/tools/baseline.sh",
                "source_commits":[],
                "add_only":True},
       "engines":[{"name":"verifrt+explore","path":"/verif/engine","serves_properties":sorted(CLAIMED),
                   "kind_free_text":"hand-written cooperative scheduler (vsched) with shims for sync, sync/atomic, net and time injected into the repository's module through go build -overlay; stateless DFS over schedules with preemption bounding and state caching (SCHED), BFS over operation histories (HIST), bounded-exhaustive input enumeration (ENUM); the implementation itself is explored, oracles are small reference models in Go"}],
       "checks":checks,
       "not_applicable":na,
       "notes":"Exit codes: 0 held on everything explored (possibly exhaustive:false when an internal time cap hit), 1 + VIOLATION line for a violation not listed in known_findings.txt, 2 engine error (never a verdict). Hooks are not committed to /repo: instrumentation and verif-tagged export files are injected through the build overlay."}
    json.dump(m,open('/verif/MANIFEST.json','w'),indent=1)
    print("claimed:",sorted(CLAIMED),"not_applicable:",len(na))
main()
