#!/usr/bin/env python3
"""Regenerates /verif/MANIFEST.json from the table below (single source of truth
for which properties are claimed)."""
import json, sys

CLAIMED = {
 # id: (technique, level text, level note, design ref)
 "C14": ("stateless schedule exploration of the real ring buffer under a cooperative scheduler, all interleavings with state caching, position-hash stream oracle",
         "Every interleaving (no preemption bound; scenarios whose state space exceeds the cap fall back to all schedules with <=2 preemptions, counted separately) of every producer/consumer program pair over a small operation alphabet with wrap positions and prefill, on the real service.buffer; the oracle checks every obtained byte against its stream position and re-checks peeked slices before commit.",
         "Bounded to programs of <=2 (quick) / <=3 (thorough) operations per side and the chunk sizes listed in the evidence; sequentially consistent interleavings at lock/cond/atomic granularity; state keys treat the ring's mutexes as data-free (all its shared words are atomics).", "DESIGN §5 C14"),
 "C15": ("stateless schedule exploration of the real ring buffer, all interleavings, deadlock/lost-wake-up detection on every terminal state",
         "Every interleaving of one producer call, one consumer call and up to two closers (Close once or twice) from empty/partial/full/wrapped states on the real service.buffer; on every terminal state: no thread parked, both internal mutexes free, and a battery of later calls returns.",
         "Bounded to one call in progress per side plus feed/drain; sequentially consistent interleavings at lock/cond/atomic granularity.", "DESIGN §5 C15"),
 "C03": ("bounded-exhaustive enumeration of message-API field products, accepted byte strings and packet-id counter histories against an independent reference codec",
         "Every combination of boundary values of every field of all 14 packet types built through the message API (lengths 0/1/127/128/16383/16384/65535, remaining lengths at each varint boundary, all flag combinations, 1..1000 topics, explicit and automatic packet ids around the counter wrap), every exact-frame byte string up to 6/7 bytes over an 8-value alphabet that a decoder accepts, and 2 x 131080 consecutive automatically numbered encodes per type; each compared byte for byte with a reference codec written from the specification.",
         "Field values outside the boundary alphabets and payload contents are not varied (nothing in the codec branches on them); remaining lengths of 256 MiB are not materialised. The reference codec is trusted.", "DESIGN §5 C03"),
 "C04": ("bounded-exhaustive enumeration of byte strings with deviation bound 2 (truncations, 1- and 2-byte corruptions of a valid corpus) fed to all 14 decoders in exact-capacity slices",
         "All byte strings up to 6/7 bytes over an 8-value alphabet with 30 first bytes for each of the 14 decoders, and for a corpus of valid packets of every structural shape: every truncation, every single-byte replacement by 9 values at every position, trailing bytes, every other decoder, and (thorough) every pair of replacements within the first 24 bytes; input slices have cap == len so that any read past the end panics; oracle: no panic, 0 <= n <= len, returned fields inside input[:n], agreement with the reference codec on every well-formed packet.",
         "Byte values outside the alphabets and corruptions of more than two bytes are not explored. Non-minimal remaining-length encodings are not counted as well-formed.", "DESIGN §5 C04"),
 "C13": ("explicit-state breadth-first search over operation histories of the real Ackqueue against a list model, plus exhaustive capacity/wrap sweeps",
         "Every sequence of register/acknowledge/collect operations (register PUBLISH QoS 1/2/dup, SUBSCRIBE, UNSUBSCRIBE, PINGREQ over three ids; each of the seven ack types incl. an unknown id; collect) up to depth 4/5 without de-duplication and to depth 7/9 with de-duplication on (model list, ring geometry), each step compared with a plain FIFO list (order, exactly-once, byte-identical request and final ack, callback kept); plus every combination of head offset 0..15, 0..40 in-flight entries (growth 4->64 while wrapped) and five ack orders.",
         "Identifier set {1,2,3,9}; initial capacity 4 instead of 16 so that growth and wrap-around are reached early; the caller's buffers are overwritten after each call to expose aliasing.", "DESIGN §5 C13"),
 "C06": ("bounded-exhaustive enumeration of all filter/name pairs up to four levels plus breadth-first search over subscribe/unsubscribe/retain histories of the real MemTopics against a matcher written from MQTT 3.1.1 section 4.7",
         "All 780 filter strings (valid and invalid) and all topic names of 1..4 levels over {a, b, empty, +, #}: each valid filter alone in a fresh store against every name at every subscription/publish QoS, each invalid filter must be rejected without effect, unsubscribe must remove it, and the same for the retained relation; then all subscribe/unsubscribe/retain sequences over two subscribers to depth 3 and BFS with de-duplication on the model state to depth 5-7, every history followed by a full probe of names and filters.",
         "Level alphabet of two literals; names starting with '$' excluded (the property excludes them). One listed finding (empty levels, pinned by the repository's tests) is recognised exactly: only a mismatch that equals the pinned behaviour counts as that finding.", "DESIGN §5 C06"),
 "C01": ("explicit-state breadth-first search over client histories replayed on the real broker, compared with a sequential broker model after every action",
         "All histories of connect/subscribe/unsubscribe/publish (QoS 0-2, payloads 0..8000 bytes and at the packet-size limit of both ring configurations)/disconnect/cut by two raw clients plus an in-process subscriber and publisher, de-duplicated on model + implementation state (session store, subscription tree, retained tree, ring wrap counts) to depth 6/8, and all sequences without de-duplication on a populated broker to depth 3/4; every receiver's packets are compared with the model: at least one and at most one copy per matching held subscription, topic and payload identical, QoS in the allowed set, nothing for anyone else.",
         "Every history runs on a fresh real broker (real accept loop and three goroutines per connection, in-memory network, virtual time) under the default non-preemptive schedule with exact quiescence after each action; interleavings of concurrent clients are the business of the SCHED checks. The sequential broker model and the reference codec are trusted. Two live connections with one client id and topics starting with '$' are excluded.", "DESIGN §5 C01"),
 "C07": ("bounded-exhaustive enumeration of SUBSCRIBE/UNSUBSCRIBE packets, each replayed in a probe history on the real broker; plus all orders of subscription changes and publishes",
         "Every SUBSCRIBE with one entry over 8 filters (3 invalid) x QoS 0-3, pairs and triples, lists of 4/5/8/16 entries with an invalid entry at every position, out-of-range QoS, repeated and overlapping filters, under server QoS caps 2 and 1; each must be answered by exactly one SUBACK (same id, one code per entry, min(requested, cap) or 0x80) or by closing; probe publishes before and after the matching UNSUBSCRIBE must be delivered according to exactly the granted entries.",
         "Every history runs on a fresh real broker (real accept loop and three goroutines per connection, in-memory network, virtual time) under the default non-preemptive schedule with exact quiescence after each action; interleavings of concurrent clients are the business of the SCHED checks. The sequential broker model and the reference codec are trusted. Two live connections with one client id and topics starting with '$' are excluded.", "DESIGN §5 C07"),
 "C08": ("explicit-state breadth-first search over retained-publish/subscribe histories replayed on the real broker, compared with a sequential retained-store model",
         "All histories of retained / plain / empty-payload publishes at QoS 0-2 on three topics (one 8000-byte payload), ring-wrapping filler, single and multi-filter subscriptions with literal and wildcard filters, in-process Publish/Subscribe, de-duplicated on model + implementation state to depth 5/7 and all sequences to depth 3/4: each new subscription gets exactly the matching retained messages with retain=1, QoS min(stored, granted) and identical payload; live forwards carry retain=0.",
         "Every history runs on a fresh real broker (real accept loop and three goroutines per connection, in-memory network, virtual time) under the default non-preemptive schedule with exact quiescence after each action; interleavings of concurrent clients are the business of the SCHED checks. The sequential broker model and the reference codec are trusted. Two live connections with one client id and topics starting with '$' are excluded. The concurrent part (retained update racing a new subscription) belongs to the schedule-exploration checks.", "DESIGN §5 C08"),
 "C09": ("explicit-state breadth-first search over connect/end-cause/reconnect histories (virtual time for keep-alive expiry) replayed on the real broker",
         "All histories to depth 6/8 of five CONNECT variants of one client id (no will; wills with QoS 0-2, retain, two topics, empty/short/200-byte payload; CleanSession 0/1), the end causes DISCONNECT, cut, garbage packet and keep-alive expiry, ordinary traffic, and a late subscriber: a witness subscribed to '#' must receive exactly the ending connection's will after every abnormal end, nothing after DISCONNECT, and retained wills must reach the late subscriber.",
         "Every history runs on a fresh real broker (real accept loop and three goroutines per connection, in-memory network, virtual time) under the default non-preemptive schedule with exact quiescence after each action; interleavings of concurrent clients are the business of the SCHED checks. The sequential broker model and the reference codec are trusted. Two live connections with one client id and topics starting with '$' are excluded.", "DESIGN §5 C09"),
 "C10": ("explicit-state breadth-first search over connect(CleanSession 0/1)/subscribe/unsubscribe/disconnect/cut histories over two client ids replayed on the real broker",
         "All histories to depth 8/11 over two client ids on two connections with a witness publisher, de-duplicated on model + implementation state: SessionPresent in every CONNACK, SUBACK codes, and the deliveries of probe publishes (restored subscriptions at their QoS without re-subscribing, nothing after a clean session ended, no cross-talk between ids); thorough also under the server QoS cap 1.",
         "Every history runs on a fresh real broker (real accept loop and three goroutines per connection, in-memory network, virtual time) under the default non-preemptive schedule with exact quiescence after each action; interleavings of concurrent clients are the business of the SCHED checks. The sequential broker model and the reference codec are trusted. Two live connections with one client id and topics starting with '$' are excluded.", "DESIGN §5 C10"),
 "C11": ("bounded-exhaustive enumeration of first packets (all types, CONNECT field product, truncations and short frames), each replayed with follow-up packets / cut / connect timeout on the real broker under both authenticators",
         "Every packet type as first packet, CONNECT with each protocol name x level, reserved and will flag inconsistencies, client identifiers (empty with CleanSession 0/1, 23/33 characters, control characters), credentials, every truncation of a valid CONNECT (then cut, or silence until the virtual connect timeout) and every complete frame that ends early; followed by SUBSCRIBE '#' and a retained PUBLISH on the unaccepted connection: CONNACK code per the statement, connection closed, a witness receives nothing, subscription/retained/session state unchanged, and no library goroutine panics.",
         "Every history runs on a fresh real broker (real accept loop and three goroutines per connection, in-memory network, virtual time) under the default non-preemptive schedule with exact quiescence after each action; interleavings of concurrent clients are the business of the SCHED checks. The sequential broker model and the reference codec are trusted. Two live connections with one client id and topics starting with '$' are excluded. Malformed CONNECTs the statement does not classify (user/password flag without the field) are accepted either way.", "DESIGN §5 C11"),
}

NOT_YET = "check not built yet in this session; planned per DESIGN.md §5 (same engine)"

def main():
    props=[json.loads(l) for l in open('/verif/properties.jsonl')]
    checks=[]; na=[]
    for p in props:
        pid=p['id']
        if pid in CLAIMED:
            tech,text,note,ref=CLAIMED[pid]
            checks.append({
              "property_id":pid,
              "quick_cmd":f"./check {pid} --tier quick",
              "thorough_cmd":f"./check {pid} --tier thorough",
              "evidence_file":f"/verif/evidence/{pid}.json",
              "replay_cmd_template":f"./check {pid} --replay {{path}}",
              "engine":"verifrt+explore",
              "level_claimed":{"category":"model_checking","text":text,"design_ref":ref},
              "level_note":note,
              "technique":tech})
        else:
            na.append({"property_id":pid,"reason":NOT_YET})
    m={"version":1,
       "setup_cmd":"./check build",
       "hooks":{"guard":"verif",
                "enable":"go build -tags verif -overlay <generated overlay.json> (generated at check time by engine/instr from /repo's working tree; nothing is committed to /repo)",
                "baseline_off_cmd":"/verif/tools/baseline.sh",
                "source_commits":[],
                "add_only":True},
       "engines":[{"name":"verifrt+explore","path":"/verif/engine","serves_properties":sorted(CLAIMED),
                   "kind_free_text":"hand-written cooperative scheduler (vsched) with shims for sync, sync/atomic, net and time injected into the repository's module through go build -overlay; stateless DFS over schedules with preemption bounding and state caching (SCHED), BFS over operation histories (HIST), bounded-exhaustive input enumeration (ENUM); the implementation itself is explored, oracles are small reference models in Go"}],
       "checks":checks,
       "not_applicable":na,
       "notes":"Exit codes: 0 held on everything explored (possibly exhaustive:false when an internal time cap hit), 1 + VIOLATION line for a violation not listed in known_findings.txt, 2 engine error (never a verdict). Hooks are not committed to /repo: instrumentation and verif-tagged export files are injected through the build overlay."}
    json.dump(m,open('/verif/MANIFEST.json','w'),indent=1)
    print("claimed:",sorted(CLAIMED),"not_applicable:",len(na))
main()
