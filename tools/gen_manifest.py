#!/usr/bin/env python3
"""Regenerates /verif/MANIFEST.json from the table below (single source of truth
for which properties are claimed)."""
import json, sys

CLAIMED = {
 # id: (technique, level text, level note, design ref)
 "C14": ("stateless schedule exploration of the real ring buffer under a cooperative scheduler, all interleavings with state caching, position-hash stream oracle",
         "Every interleaving (no preemption bound; scenarios whose state space exceeds the cap fall back to all schedules with <=2 preemptions, counted separately) of every producer/consumer program pair over a small operation alphabet with wrap positions and prefill, on the real service.buffer; the oracle checks every obtained byte against its stream position and re-checks peeked slices before commit.",
         "Bounded to programs of <=2 (quick) / <=3 (thorough) operations per side and the chunk sizes listed in the evidence; sequentially consistent interleavings at lock/cond/atomic granularity; state keys treat the ring's mutexes as data-free (all its shared words are atomics).", "DESIGN §5 C14"),
 "C15": ("stateless schedule exploration of the real ring buffer, all interleavings, deadlock/lost-wake-up detection on every terminal state",
         "Every interleaving of one producer call, one consumer call and up to two closers (Close once or twice) from empty/partial/full/wrapped states on the real service.buffer; on every terminal state: no thread parked, both internal mutexes free, and a battery of later calls returns.",
         "Bounded to one call in progress per side plus feed/drain; sequentially consistent interleavings at lock/cond/atomic granularity.", "DESIGN §5 C15"),
 "C03": ("bounded-exhaustive enumeration of message-API field products, accepted byte strings and packet-id counter histories against an independent reference codec",
         "Every combination of boundary values of every field of all 14 packet types built through the message API (lengths 0/1/127/128/16383/16384/65535, remaining lengths at each varint boundary, all flag combinations, 1..1000 topics, explicit and automatic packet ids around the counter wrap), every exact-frame byte string up to 6/7 bytes over an 8-value alphabet that a decoder accepts, and 2 x 131080 consecutive automatically numbered encodes per type; each compared byte for byte with a reference codec written from the specification.",
         "Field values outside the boundary alphabets and payload contents are not varied (nothing in the codec branches on them); remaining lengths of 256 MiB are not materialised. The reference codec is trusted.", "DESIGN §5 C03"),
 "C04": ("bounded-exhaustive enumeration of byte strings with deviation bound 2 (truncations, 1- and 2-byte corruptions of a valid corpus) fed to all 14 decoders in exact-capacity slices",
         "All byte strings up to 6/7 bytes over an 8-value alphabet with 30 first bytes for each of the 14 decoders, and for a corpus of valid packets of every structural shape: every truncation, every single-byte replacement by 9 values at every position, trailing bytes, every other decoder, and (thorough) every pair of replacements within the first 24 bytes; input slices have cap == len so that any read past the end panics; oracle: no panic, 0 <= n <= len, returned fields inside input[:n], agreement with the reference codec on every well-formed packet.",
         "Byte values outside the alphabets and corruptions of more than two bytes are not explored. Non-minimal remaining-length encodings are not counted as well-formed.", "DESIGN §5 C04"),
 "C13": ("explicit-state breadth-first search over operation histories of the real Ackqueue against a list model, plus exhaustive capacity/wrap sweeps",
         "Every sequence of register/acknowledge/collect operations (register PUBLISH QoS 1/2/dup, SUBSCRIBE, UNSUBSCRIBE, PINGREQ over three ids; each of the seven ack types incl. an unknown id; collect) up to depth 4/5 without de-duplication and to depth 7/9 with de-duplication on (model list, ring geometry), each step compared with a plain FIFO list (order, exactly-once, byte-identical request and final ack, callback kept); plus every combination of head offset 0..15, 0..40 in-flight entries (growth 4->64 while wrapped) and five ack orders.",
         "Identifier set {1,2,3,9}; initial capacity 4 instead of 16 so that growth and wrap-around are reached early; the caller's buffers are overwritten after each call to expose aliasing.", "DESIGN §5 C13"),
 "C06": ("bounded-exhaustive enumeration of all filter/name pairs up to four levels plus breadth-first search over subscribe/unsubscribe/retain histories of the real MemTopics against a matcher written from MQTT 3.1.1 section 4.7",
         "All 780 filter strings (valid and invalid) and all topic names of 1..4 levels over {a, b, empty, +, #}: each valid filter alone in a fresh store against every name at every subscription/publish QoS, each invalid filter must be rejected without effect, unsubscribe must remove it, and the same for the retained relation; then all subscribe/unsubscribe/retain sequences over two subscribers to depth 3 and BFS with de-duplication on the model state to depth 5-7, every history followed by a full probe of names and filters.",
         "Level alphabet of two literals; names starting with '$' excluded (the property excludes them). One listed finding (empty levels, pinned by the repository's tests) is recognised exactly: only a mismatch that equals the pinned behaviour counts as that finding.", "DESIGN §5 C06"),
}

NOT_YET = "check not built yet in this session; planned per DESIGN.md §5 (same engine)"

def main():
    props=[json.loads(l) for l in open('/verif/properties.jsonl')]
    checks=[]; na=[]
    for p in props:
        pid=p['id']
        if pid in CLAIMED:
            tech,text,note,ref=CLAIMED[pid]
            checks.append({
              "property_id":pid,
              "quick_cmd":f"./check {pid} --tier quick",
              "thorough_cmd":f"./check {pid} --tier thorough",
              "evidence_file":f"/verif/evidence/{pid}.json",
              "replay_cmd_template":f"./check {pid} --replay {{path}}",
              "engine":"verifrt+explore",
              "level_claimed":{"category":"model_checking","text":text,"design_ref":ref},
              "level_note":note,
              "technique":tech})
        else:
            na.append({"property_id":pid,"reason":NOT_YET})
    m={"version":1,
       "setup_cmd":"./check build",
       "hooks":{"guard":"verif",
                "enable":"go build -tags verif -overlay <generated overlay.json> (generated at check time by engine/instr from /repo's working tree; nothing is committed to /repo)",
                "baseline_off_cmd":"/verif/tools/baseline.sh",
                "source_commits":[],
                "add_only":True},
       "engines":[{"name":"verifrt+explore","path":"/verif/engine","serves_properties":sorted(CLAIMED),
                   "kind_free_text":"hand-written cooperative scheduler (vsched) with shims for sync, sync/atomic, net and time injected into the repository's module through go build -overlay; stateless DFS over schedules with preemption bounding and state caching (SCHED), BFS over operation histories (HIST), bounded-exhaustive input enumeration (ENUM); the implementation itself is explored, oracles are small reference models in Go"}],
       "checks":checks,
       "not_applicable":na,
       "notes":"Exit codes: 0 held on everything explored (possibly exhaustive:false when an internal time cap hit), 1 + VIOLATION line for a violation not listed in known_findings.txt, 2 engine error (never a verdict). Hooks are not committed to /repo: instrumentation and verif-tagged export files are injected through the build overlay."}
    json.dump(m,open('/verif/MANIFEST.json','w'),indent=1)
    print("claimed:",sorted(CLAIMED),"not_applicable:",len(na))
main()
