#!/bin/bash
# validates MANIFEST.json and every evidence file against the schemas
python3-vt - <<'PY'
import json,jsonschema,glob,sys
ok=True
try:
    jsonschema.validate(json.load(open('/verif/MANIFEST.json')),json.load(open('/root/.vp/MANIFEST.schema.json')))
    print('MANIFEST.json valid')
except Exception as e:
    ok=False; print('MANIFEST invalid:',e)
es=json.load(open('/root/.vp/EVIDENCE.schema.json'))
for f in sorted(glob.glob('/verif/evidence/*.json')):
    try:
        jsonschema.validate(json.load(open(f)),es); print(f,'valid')
    except Exception as e:
        ok=False; print(f,'INVALID:',str(e)[:300])
sys.exit(0 if ok else 1)
PY
