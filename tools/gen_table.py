#!/usr/bin/env python3
"""Prints the §0.1 table of DESIGN.md from the evidence files of the last runs
(run every quick check first) and, with --write, replaces the table in DESIGN.md."""
import json, sys, re
MODE = {"C01":"HIST + SCHED","C02":"HIST, both roles","C03":"ENUM","C04":"ENUM, deviation ≤ 1 (thorough ≤ 2)","C05":"ENUM × HIST + SCHED",
 "C06":"ENUM + HIST","C07":"ENUM × HIST + SCHED","C08":"HIST + SCHED","C09":"HIST (virtual time) + SCHED","C10":"HIST + SCHED","C11":"ENUM × HIST + SCHED",
 "C12":"HIST + SCHED","C13":"HIST + SCHED","C14":"SCHED, all interleavings + ENUM","C15":"SCHED, all interleavings","C16":"SCHED, deviation-bounded",
 "C17":"SCHED","C18":"SCHED + ThreadSanitizer","C19":"HIST (virtual time) + SCHED","C20":"ENUM + HIST"}
def h(n):
    n = int(n or 0)
    if n >= 10_000_000: return f"{n/1e6:.0f} M"
    if n >= 1_000_000: return f"{n/1e6:.1f} M"
    if n >= 10_000: return f"{n/1e3:.0f} k"
    if n >= 1_000: return f"{n/1e3:.1f} k"
    return str(n)
rows = ["| id | mode | measured in the last quick run (executions of the real code / distinct states / scheduling points or operations) | exhaustive within bounds | wall |", "|---|---|---|---|---|"]
for i in range(1, 21):
    pid = f"C{i:02d}"
    e = json.load(open(f"/verif/evidence/{pid}.json"))
    c = e["coverage"]
    ex = c.get("executions") or c.get("evaluations")
    rows.append(f"| {pid} | {MODE[pid]} | {h(ex)} executions ({h(c.get('evaluations'))} oracle evaluations), {h(c.get('states'))} states, {h(c.get('transitions'))} points | {'yes' if c.get('exhaustive') else 'no: ' + ', '.join(c.get('caps_hit') or [])} | {e['wall_s']:.0f} s |")
table = "\n".join(rows)
print(table)
if "--write" in sys.argv:
    p = "/verif/DESIGN.md"
    s = open(p).read()
    a = s.index("| id | mode |")
    b = s.index("\n\n", a)
    s = s[:a] + table + s[b:]
    open(p, "w").write(s)
