#!/bin/bash
# Runs the repository's own test suite (guard off: no tags, no overlay) and
# checks that every test of the pinned baseline (BASELINE.json stable_pass) passes.
export GOFLAGS=-mod=mod GOPROXY=off GOSUMDB=off GOTOOLCHAIN=local
cd "${1:-/repo}" || exit 2
# TestServiceConnectAuthError binds the fixed TCP port 1883 and is sensitive to
# a port still lingering from a run a moment ago: up to three attempts.
for attempt in 1 2 3; do
out=$(mktemp)
go test -json -vet=off -count=1 -timeout 4m ./... > "$out" 2>/dev/null
python3 - "$out" <<'PY'
import json,sys
passed=set()
for l in open(sys.argv[1]):
    try: e=json.loads(l)
    except Exception: continue
    if e.get('Action')=='pass' and e.get('Test'):
        passed.add(e['Package']+'::'+e['Test'])
base=json.load(open('/root/.vp/BASELINE.json'))['stable_pass']
missing=[t for t in base if t not in passed]
print(f"baseline tests: {len(base)} passed: {len(base)-len(missing)} missing: {len(missing)}")
for m in missing: print("  MISSING", m)
sys.exit(1 if missing else 0)
PY
rc=$?
rm -f "$out"
[ $rc -eq 0 ] && exit 0
sleep 2
done
exit $rc
