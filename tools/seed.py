#!/usr/bin/env python3
"""tools/seed.py <seed-id> <agent-worktree> <property> [check-props...]

Takes a seeded change produced by an independent sub-agent in its scratch
worktree, confirms it in a fresh scratch worktree of /repo (builds; baseline
tests still pass; the demonstration fails with the change and passes without),
stores it under /verif/seeded/<seed-id>/ and runs the named quick checks
against it in /repo (git apply, check, git checkout).  Prints a summary and
writes meta.json."""
import json, os, shutil, subprocess, sys, glob, tempfile, time

ENV = dict(os.environ, GOFLAGS='-mod=mod', GOPROXY='off', GOSUMDB='off', GOTOOLCHAIN='local')

def run(cmd, cwd=None, timeout=900):
    return subprocess.run(cmd, cwd=cwd, env=ENV, capture_output=True, text=True, timeout=timeout, shell=isinstance(cmd, str))

def main():
    sid, wt, prop = sys.argv[1], sys.argv[2], sys.argv[3]
    checks = sys.argv[4:] or [prop]
    dst = f'/verif/seeded/{sid}'
    os.makedirs(dst, exist_ok=True)
    patch = os.path.join(wt, 'mutation.patch')
    if not os.path.exists(patch) or os.path.getsize(patch) == 0:
        # regenerate from the worktree
        d = run("git diff -- . ':(exclude)**/verif_demo_test.go' ':(exclude)demo'", cwd=wt)
        open(patch, 'w').write(d.stdout)
    shutil.copy(patch, f'{dst}/patch.diff')
    demos = [p for p in glob.glob(f'{wt}/**/verif_demo_test.go', recursive=True)]
    demo_rel = [os.path.relpath(p, wt) for p in demos]
    for p, r in zip(demos, demo_rel):
        shutil.copy(p, f'{dst}/{r.replace("/", "__")}')
    if os.path.isdir(f'{wt}/demo'):
        shutil.copytree(f'{wt}/demo', f'{dst}/demo', dirs_exist_ok=True)
    if os.path.exists(f'{wt}/MUTATION.md'):
        shutil.copy(f'{wt}/MUTATION.md', f'{dst}/MUTATION.md')
    meta = {'id': sid, 'property': prop, 'demo_files': demo_rel, 'confirmed': {}, 'checks': {}}
    # fresh scratch worktree
    scratch = tempfile.mkdtemp(prefix='seedchk-', dir='/tmp')
    os.rmdir(scratch)
    run(['git', '-C', '/repo', 'worktree', 'add', '-q', '--detach', scratch, 'HEAD'])
    try:
        for p, r in zip(demos, demo_rel):
            os.makedirs(os.path.dirname(f'{scratch}/{r}'), exist_ok=True)
            shutil.copy(p, f'{scratch}/{r}')
        pkgs = sorted({'./' + os.path.dirname(r) + '/' for r in demo_rel})
        democmd = ['flock', '/tmp/go-mqtt-test.lock', 'go', 'test', '-vet=off', '-count=1', '-run', 'Verif|Demo', '-timeout', '120s'] + pkgs
        if not pkgs and os.path.isdir(f'{scratch}/demo'):
            democmd = ['go', 'run', './demo']
        r0 = run(democmd, cwd=scratch)
        meta['confirmed']['demo_passes_without_change'] = (r0.returncode == 0)
        ap = run(['git', 'apply', f'{dst}/patch.diff'], cwd=scratch)
        meta['confirmed']['patch_applies'] = (ap.returncode == 0)
        b = run(['go', 'build', './...'], cwd=scratch)
        meta['confirmed']['builds'] = (b.returncode == 0)
        r1 = run(democmd, cwd=scratch)
        meta['confirmed']['demo_fails_with_change'] = (r1.returncode != 0)
        meta['demo_output_with_change'] = (r1.stdout + r1.stderr)[-1500:]
        # baseline with the change: run the pinned tests in the scratch tree (demo files removed)
        for r in demo_rel:
            os.remove(f'{scratch}/{r}')
        ok = False
        for attempt in range(3):
            t = run('flock /tmp/go-mqtt-test.lock go test -json -vet=off -count=1 -timeout 4m ./... 2>/dev/null', cwd=scratch, timeout=1800)
            passed = set()
            for l in t.stdout.splitlines():
                try:
                    e = json.loads(l)
                except Exception:
                    continue
                if e.get('Action') == 'pass' and e.get('Test'):
                    passed.add(e['Package'] + '::' + e['Test'])
            base = json.load(open('/root/.vp/BASELINE.json'))['stable_pass']
            missing = [x for x in base if x not in passed]
            if not missing:
                ok = True
                break
            time.sleep(3)
        meta['confirmed']['baseline_passes_with_change'] = ok
        if not ok:
            meta['baseline_missing'] = missing
    finally:
        run(['git', '-C', '/repo', 'worktree', 'remove', '--force', scratch])
    # run my checks against it: in a second scratch worktree with the change applied,
    # VERIF_REPO pointing the checks at it (/repo itself is not touched)
    alt = tempfile.mkdtemp(prefix='seedalt-', dir='/tmp')
    os.rmdir(alt)
    run(['git', '-C', '/repo', 'worktree', 'add', '-q', '--detach', alt, 'HEAD'])
    try:
        ap = run(['git', 'apply', f'{dst}/patch.diff'], cwd=alt)
        env = dict(ENV, VERIF_REPO=alt)
        for pr in checks:
            r = subprocess.run(['/verif/check', pr, '--tier', 'quick'], cwd='/verif', env=env, capture_output=True, text=True, timeout=3600)
            lines = [l for l in r.stdout.splitlines() if l.startswith('VIOLATION') or l.startswith('  ')][:6]
            meta['checks'][pr] = {'exit': r.returncode, 'detected': r.returncode == 1, 'first_lines': lines, 'stderr_tail': r.stderr[-400:] if r.returncode == 2 else ''}
    finally:
        run(['git', '-C', '/repo', 'worktree', 'remove', '--force', alt])
    meta['what_ran'] = 'fresh scratch worktree of /repo HEAD: demo without change, git apply, go build ./..., demo with change, pinned baseline tests with change; then a second scratch worktree with the change applied and VERIF_REPO=<it> ./check <prop> --tier quick'
    json.dump(meta, open(f'{dst}/meta.json', 'w'), indent=1)
    print(json.dumps({k: meta[k] for k in ('id', 'property', 'confirmed')}, indent=1))
    for pr, v in meta['checks'].items():
        print(pr, 'exit', v['exit'], 'DETECTED' if v['detected'] else 'MISSED', ' | '.join(x.strip()[:150] for x in v['first_lines'][:3]))

main()
