#!/usr/bin/env python3
"""Re-confirms every stored seeded change against /repo's current HEAD and re-runs the
checks recorded for it: demonstration passes without / fails with the change, it builds,
the pinned baseline stays green, and the named checks report it.  Updates meta.json."""
import json, os, glob, shutil, subprocess, sys, tempfile, time
ENV = dict(os.environ, GOFLAGS='-mod=mod', GOPROXY='off', GOSUMDB='off', GOTOOLCHAIN='local')
def run(cmd, cwd=None, timeout=1800):
    return subprocess.run(cmd, cwd=cwd, env=ENV, capture_output=True, text=True, timeout=timeout, shell=isinstance(cmd, str))
nobase = '--no-baseline' in sys.argv
only = [a for a in sys.argv[1:] if not a.startswith('--')]
bad = 0
for d in sorted(glob.glob('/verif/seeded/*/')):
    sid = os.path.basename(d.rstrip('/'))
    if only and sid not in only: continue
    mp = d + 'meta.json'
    m = json.load(open(mp))
    scratch = tempfile.mkdtemp(prefix='seedchk-', dir='/tmp'); os.rmdir(scratch)
    run(['git', '-C', '/repo', 'worktree', 'add', '-q', '--detach', scratch, 'HEAD'])
    try:
        rels = []
        for f in glob.glob(d + '*__verif_demo_test.go'):
            rel = os.path.basename(f).replace('__', '/')
            rels.append(rel)
            os.makedirs(os.path.dirname(f'{scratch}/{rel}'), exist_ok=True)
            shutil.copy(f, f'{scratch}/{rel}')
        pkgs = sorted({'./' + os.path.dirname(r) + '/' for r in rels})
        cmd = ['go', 'test', '-vet=off', '-count=1', '-run', 'Verif|Demo', '-timeout', '120s'] + pkgs
        r0 = run(cmd, cwd=scratch)
        ap = run(['git', 'apply', d + 'patch.diff'], cwd=scratch)
        b = run(['go', 'build', './...'], cwd=scratch)
        r1 = run(cmd, cwd=scratch)
        m['confirmed'].update({'demo_passes_without_change': r0.returncode == 0, 'patch_applies': ap.returncode == 0,
                               'builds': b.returncode == 0, 'demo_fails_with_change': r1.returncode != 0})
    finally:
        run(['git', '-C', '/repo', 'worktree', 'remove', '--force', scratch])
    alt = tempfile.mkdtemp(prefix='seedalt-', dir='/tmp'); os.rmdir(alt)
    run(['git', '-C', '/repo', 'worktree', 'add', '-q', '--detach', alt, 'HEAD'])
    try:
        run(['git', 'apply', d + 'patch.diff'], cwd=alt)
        if not nobase:
            bl = subprocess.run(['/verif/tools/baseline.sh', alt], env=ENV, capture_output=True, text=True, timeout=3600)
            m['confirmed']['baseline_passes_with_change'] = bl.returncode == 0
        for pr in list(m['checks'].keys()):
            r = subprocess.run(['/verif/check', pr, '--tier', 'quick'], cwd='/verif', env=dict(ENV, VERIF_REPO=alt), capture_output=True, text=True, timeout=3600)
            lines = [l for l in r.stdout.splitlines() if l.startswith('VIOLATION') or l.startswith('  ')][:6]
            m['checks'][pr] = {'exit': r.returncode, 'detected': r.returncode == 1, 'first_lines': lines}
    finally:
        run(['git', '-C', '/repo', 'worktree', 'remove', '--force', alt])
    m['reverified_at_repo_head'] = run(['git', '-C', '/repo', 'rev-parse', '--short', 'HEAD']).stdout.strip()
    json.dump(m, open(mp, 'w'), indent=1)
    okc = all(m['confirmed'].values())
    det = {k: v['detected'] for k, v in m['checks'].items()}
    primary = det.get(m['property'], False)
    if not okc or not primary: bad += 1
    print(sid, 'confirmed' if okc else 'NOT-CONFIRMED ' + str(m['confirmed']), det)
sys.exit(1 if bad else 0)
