#!/usr/bin/env python3
"""tools/seedcheck.py <seed-id> <check> [<check>...] [--tier thorough]

Runs the named checks against an already stored seeded change (a scratch
worktree of /repo with seeded/<id>/patch.diff applied, VERIF_REPO pointing at
it) and merges the outcome into its meta.json.  Confirmation (demonstration,
baseline) is tools/seed.py's and tools/reverify_seeds.py's business."""
import json, os, subprocess, sys, tempfile
ENV = dict(os.environ, GOFLAGS='-mod=mod', GOPROXY='off', GOSUMDB='off', GOTOOLCHAIN='local')
args = [a for a in sys.argv[1:] if not a.startswith('--')]
tier = 'thorough' if '--thorough' in sys.argv else 'quick'
sid, checks = args[0], args[1:]
d = f'/verif/seeded/{sid}/'
m = json.load(open(d + 'meta.json'))
alt = tempfile.mkdtemp(prefix='seedalt-', dir='/tmp'); os.rmdir(alt)
subprocess.run(['git', '-C', '/repo', 'worktree', 'add', '-q', '--detach', alt, 'HEAD'], check=True)
try:
    ap = subprocess.run(['git', 'apply', d + 'patch.diff'], cwd=alt)
    if ap.returncode != 0:
        print('patch does not apply'); sys.exit(2)
    for pr in checks:
        r = subprocess.run(['/verif/check', pr, '--tier', tier], cwd='/verif', env=dict(ENV, VERIF_REPO=alt), capture_output=True, text=True, timeout=3600)
        lines = [l for l in r.stdout.splitlines() if l.startswith('VIOLATION') or l.startswith('  ')][:6]
        m['checks'][pr] = {'exit': r.returncode, 'detected': r.returncode == 1, 'first_lines': lines, 'stderr_tail': r.stderr[-400:] if r.returncode == 2 else ''}
        if tier != 'quick':
            m['checks'][pr]['tier'] = tier
        print(sid, pr, 'exit', r.returncode, 'DETECTED' if r.returncode == 1 else 'MISSED', ' | '.join(x.strip()[:160] for x in lines[:3]))
finally:
    subprocess.run(['git', '-C', '/repo', 'worktree', 'remove', '--force', alt])
json.dump(m, open(d + 'meta.json', 'w'), indent=1)
